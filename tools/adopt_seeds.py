#!/usr/bin/env python3
"""Adopt independently produced seeded changes whose verification line (tools/verify_seed.sh) confirms them:
   tools/adopt_seeds.py <verify-log>   -> copies /tmp/seed_out/<ID>/<v>/ to seeded/<ID>-<v>/ with meta.json"""
import sys, re, os, shutil, json
os.chdir(os.path.join(os.path.dirname(os.path.abspath(__file__)), ".."))
for line in open(sys.argv[1]):
    m = re.match(r'RESULT (C\d+)_(\w) demo-on-clean=(\S+) suite-with-patch=\[(.*?)\] demo-with-patch=(\S+)', line)
    if not m:
        if line.startswith('RESULT'):
            print("NOT CONFIRMED:", line.strip())
        continue
    pid, v, clean, suite, withp = m.groups()
    ok = clean == 'pass' and '311 passed; 0 failed' in suite and withp == 'fails'
    if not ok:
        print("NOT CONFIRMED:", line.strip()); continue
    src = f"/tmp/seed_out/{pid}/{v}"
    dst = f"seeded/{pid}-{v}"
    os.makedirs(dst, exist_ok=True)
    for f in ("patch.diff", "demo.rs", "README.md"):
        if os.path.exists(f"{src}/{f}"):
            shutil.copy(f"{src}/{f}", f"{dst}/{f}")
    readme = open(f"{dst}/README.md").read() if os.path.exists(f"{dst}/README.md") else ""
    needs = ""
    mm = re.search(r'(?is)(needs?[^\n]*to manifest.*?)(\n\n|\n#|$)', readme)
    if mm:
        needs = " ".join(mm.group(1).split())[:600]
    meta = {"property": pid,
            "kind": "independently seeded change (fresh sub-agent given only the property text and a scratch worktree)",
            "needs_to_manifest": needs or "see README.md",
            "confirmed": {"demo_passes_on_unmodified_tree": True, "existing_suite_with_change": "311 passed, 0 failed",
                          "demo_fails_with_change": True, "how": "tools/verify_seed.sh in a scratch git worktree of /repo HEAD (removed afterwards)"},
            "demo": "demo.rs is an integration test: copy to src/cwe_checker_lib/tests/seed_demo.rs; cargo test -p cwe_checker_lib --test seed_demo --offline"}
    # changes whose defect site belongs to another property's code are also run against that property's check
    also = {"C18-a": ["C05"], "C21-b": ["C19"], "C18-c": ["C02"], "C04-d": ["C13"], "C21-e": ["C10", "C12"]}.get(f"{pid}-{v}")
    if also:
        meta["also_run"] = also
    json.dump(meta, open(f"{dst}/meta.json", "w"), indent=1)
    print("adopted", dst)
