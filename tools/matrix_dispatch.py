#!/usr/bin/env python3
"""Background dispatcher: adopts newly verified seeds (from /tmp/seed_out/verify_*.log) and runs the matrix for every
adopted seed that has no result yet, on N parallel workers (each with its own MUTWORK dir and state file).
usage: tools/matrix_dispatch.py [workers=3] [idle_rounds=30]"""
import glob, json, os, subprocess, sys, time

HERE = os.path.join(os.path.dirname(os.path.abspath(__file__)), "..")
os.chdir(HERE)
NW = int(sys.argv[1]) if len(sys.argv) > 1 else 3
IDLE = int(sys.argv[2]) if len(sys.argv) > 2 else 30

def done_names():
    names = set()
    for f in glob.glob("seeded/matrix_state*.json"):
        try:
            names |= set(json.load(open(f)).keys())
        except Exception:
            pass
    return names

def adopt():
    lines = set()
    for f in glob.glob("/tmp/seed_out/verify_*.log"):
        for l in open(f, errors="ignore"):
            if l.startswith("RESULT"):
                lines.add(l)
    open("/tmp/seed_out/verify_all.log", "w").writelines(sorted(lines))
    subprocess.run(["tools/adopt_seeds.py", "/tmp/seed_out/verify_all.log"], capture_output=True)

workers = {}  # slot -> (proc, name)
idle = 0
in_flight = set()
while True:
    adopt()
    pending = [os.path.basename(os.path.dirname(d)) for d in sorted(glob.glob("seeded/*/")) if os.path.exists(d + "meta.json")]
    pending = [n for n in pending if n not in done_names() and n not in in_flight]
    for slot in range(NW):
        p = workers.get(slot)
        if p and p[0].poll() is not None:
            in_flight.discard(p[1])
            workers.pop(slot)
    for slot in range(NW):
        if slot not in workers and pending:
            name = pending.pop(0)
            env = dict(os.environ, MUTWORK=f"/tmp/mutwork_d{slot}", MATRIX_STATE=f"seeded/matrix_state_d{slot}.json")
            log = open(f"/tmp/seed_out/matrix_dispatch_{slot}.log", "a")
            proc = subprocess.Popen(["tools/seed_matrix.py", "=" + name], env=env, stdout=log, stderr=log)
            workers[slot] = (proc, name)
            in_flight.add(name)
    if not workers and not pending:
        idle += 1
        if idle > IDLE:
            break
    else:
        idle = 0
    time.sleep(60)
print("dispatcher finished")
