#!/usr/bin/env bash
# Confirm a seeded change independently:  tools/verify_seed.sh <dir with patch.diff + demo.rs> <name>
#  (i) demo passes on unmodified HEAD  (ii) with the patch the full existing suite passes (311)  (iii) with the patch the demo fails
# Uses a scratch git worktree of /repo under /tmp/vs_<name> (removed afterwards) and a shared target dir /tmp/vs_target.
set -u
SRC="${1:?dir}"; NAME="${2:?name}"; MODE="${3:-integration}"   # MODE: integration | append:<file relative to repo>:<test name filter>
WT=/tmp/vs_$NAME
export RUST_BACKTRACE=0 CARGO_NET_OFFLINE=true CARGO_TARGET_DIR=${VS_TARGET:-/tmp/vs_target}
git -C /repo worktree remove --force "$WT" >/dev/null 2>&1
git -C /repo worktree add -q --detach "$WT" HEAD || { echo "RESULT $NAME worktree-failed"; exit 2; }
cleanup() { git -C /repo worktree remove --force "$WT" >/dev/null 2>&1; }
trap cleanup EXIT
cd "$WT"
install_demo() {
  case "$MODE" in
    append:*) f=$(echo "$MODE" | cut -d: -f2); cat "$SRC/demo.rs" >> "$f" ;;
    *) mkdir -p src/cwe_checker_lib/tests; cp "$SRC/demo.rs" src/cwe_checker_lib/tests/seed_demo.rs ;;
  esac
}
remove_demo() {
  case "$MODE" in
    append:*) f=$(echo "$MODE" | cut -d: -f2); git checkout -- "$f" 2>/dev/null; [ -n "${PATCHED:-}" ] && { git apply "$SRC/patch.diff" 2>/dev/null || patch -p1 -s < "$SRC/patch.diff"; } ;;
    *) rm -f src/cwe_checker_lib/tests/seed_demo.rs ;;
  esac
}
run_demo() {
  case "$MODE" in
    append:*) flt=$(echo "$MODE" | cut -d: -f3); cargo test -q -p cwe_checker_lib --lib --offline "$flt" 2>&1 | grep -E '^test result' | tail -1 ;;
    *) cargo test -q -p cwe_checker_lib --test seed_demo --offline 2>&1 | grep -E '^test result' | tail -1 ;;
  esac
}
install_demo
out1=$(run_demo)
case "$out1" in *"test result: ok"*) r1=pass;; *) r1="FAIL($out1)";; esac
if ! git apply --check "$SRC/patch.diff" 2>/dev/null; then
  if ! patch -p1 --dry-run -s < "$SRC/patch.diff" >/dev/null 2>&1; then echo "RESULT $NAME demo-on-clean=$r1 patch-does-not-apply"; exit 1; fi
  patch -p1 -s < "$SRC/patch.diff"
else
  git apply "$SRC/patch.diff"
fi
case "$MODE" in append:*) git checkout -- . ; git apply "$SRC/patch.diff" 2>/dev/null || patch -p1 -s < "$SRC/patch.diff" ;; *) rm -f src/cwe_checker_lib/tests/seed_demo.rs ;; esac
suite=$(cargo test --workspace --no-fail-fast --offline 2>&1 | grep -E '^test result' | sed -n 4p)
install_demo
out3=$(run_demo)
case "$out3" in *"FAILED"*) r3=fails;; *) r3="DOES-NOT-FAIL($out3)";; esac
echo "RESULT $NAME demo-on-clean=$r1 suite-with-patch=[$suite] demo-with-patch=$r3"
