#!/usr/bin/env python3
"""Regenerate DESIGN.md §11.3 (fixed defects) and §11.4 (open findings) from known_findings.json."""
import json, re, os
os.chdir(os.path.join(os.path.dirname(os.path.abspath(__file__)), ".."))
kf = json.load(open('known_findings.json'))
s = open('DESIGN.md').read()
a = s.index('### 11.3 Genuine defects found and repaired')
b = s.index('### 11.5 Sanitizer layer as built')
new113 = '''### 11.3 Genuine defects found and repaired (one `fix:` commit each in /repo; reverse patches kept under seeded/regress-*)
The authoritative list with commit ids is `known_findings.json` ("fixed"); each line below is one commit (%d in total).
All of them were found (or, for the eight design-phase probes, re-confirmed) by the monitor of the named property
firing on the unchanged tree; each repair keeps the 311 existing tests green and its reversal is a regression seed
that the monitor must catch (§11.7).

''' % len(kf['fixed'])
for line in kf['fixed']:
    m = re.match(r'fixed: property=(C\d+) (\w+) (.*)', line)
    new113 += f"* {m.group(1)} `{m.group(2)}` — {m.group(3)}\n"
new114 = '''
### 11.4 Open known findings (genuine defects recorded, not repaired)
Each entry of `known_findings.json` ("open") has a committed witness under `known/`, a discriminator implemented in the
property's module, and the reason it is not a small safe patch. A violation outside the discriminator is a VIOLATION.

'''
for e in kf['open']:
    new114 += f"* **{e['property']} `{e['key']}`** — {e['what']}\n  *Site:* {e['site']}. *Discriminator:* {e['discriminator']}. *Not fixed because:* {e['why_not_fixed']}.\n"
new114 += '''
Findings that were first recorded as known and then repaired after all (their keys stay in the modules, so a regression
is reported as VIOLATION): C15 pointer-inference panic in `State::add_param`, C18 signed overflow in constant interval
arithmetic, C11 cast fusion into a same-name smaller register, C21 version of the CWE476 warnings of module `Memory`,
C23 hash-order dependence of expression propagation reaching CWE190.
Observations that were not turned into findings (outside the stated quantifiers, or no failing input against the real
code could be shown by the monitors): PopCount/LzCount of a non-singleton 16-byte interval into 1 byte yields an
ill-formed interval; `new_from_bare_metal` rejects every 64-bit processor id (`>> 64`) and binaries ending exactly at the
top of the address space; CWE782/CWE426 see only the first of two imports with the same name; the merge order of caller
values in CWE119's parameter substitution iterates a hash set of call sites (for three or more constant offsets every
fold order of `IntervalDomain::merge` ends in the same value - the third distinct value always exceeds the
delay-plus-stride threshold - so no order-dependent input could be constructed).
The order of duplicated blocks (`duplicate_blocks_contained_in_several_subs`, also a hash set) was in this list until an
adversary sub-agent handed over an input on which the *unchanged* tree printed two different JSON outputs (15/15 of 30
fresh processes): a function that jumps into two blocks of another function with an unchecked `malloc` result in `RAX`.
That was a miss of the C23 monitor, not of the code reading: the generator's foreign jumps overwrote `RAX` and its foreign
blocks never competed for the same warning. The generator now has shared tails that dereference `RAX` and functions that
leave into two of them right after an allocation; with that the C23 quick tier reported the defect on the pinned tree in
both of its parts (`output-differs:CWE476`, `inprocess:output-differs:CWE476`), and it was repaired (`0145e12`, §11.3).

'''
open('DESIGN.md', 'w').write(s[:a] + new113 + new114 + s[b:])
print(len(kf['fixed']), 'fixed;', len(kf['open']), 'open')
