#!/usr/bin/env python3
"""tools/record_fix.py <sha> <property> <seed-name> <what failed>: append a 'fixed:' entry and keep the reverse patch as regression seed."""
import subprocess, json, os, sys
sha, prop, name, what = sys.argv[1:5]
os.chdir(os.path.join(os.path.dirname(os.path.abspath(__file__)), ".."))
kf = json.load(open('known_findings.json'))
line = f"fixed: property={prop} {sha} {what}"
if line not in kf['fixed']:
    kf['fixed'].append(line)
d = f"seeded/{name}"
os.makedirs(d, exist_ok=True)
patch = subprocess.run(["git","-C","/repo","diff",sha,sha+"^"],capture_output=True,text=True).stdout
open(f"{d}/patch.diff","w").write(patch)
json.dump({"property":prop,"kind":f"regression of a repaired genuine defect (reverse of fix commit {sha})",
           "needs_to_manifest":what,"origin":"found by the monitors on the pinned tree",
           "confirmed":"existing 311 tests pass with the defect present (it was the pinned state)"},
          open(f"{d}/meta.json","w"),indent=1)
json.dump(kf, open('known_findings.json','w'), indent=1)
print("recorded", name)
