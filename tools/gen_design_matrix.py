#!/usr/bin/env python3
"""Merge seeded/matrix_state*.json into seeded/matrix_state.json, regenerate seeded/MATRIX.md and the
'### 11.7' section of DESIGN.md (which check catches which seeded change)."""
import json, glob, os, re
os.chdir(os.path.join(os.path.dirname(os.path.abspath(__file__)), ".."))
state = {}
for f in sorted(glob.glob("seeded/matrix_state*.json")):
    for k, v in json.load(open(f)).items():
        old = state.get(k)
        # prefer entries in which more checks caught
        if old is None or sum(r["caught"] for r in v["results"].values()) >= sum(r["caught"] for r in old["results"].values()):
            state[k] = v
for f in glob.glob("seeded/matrix_state_*.json"):
    os.remove(f)
json.dump(state, open("seeded/matrix_state.json", "w"), indent=1)
rows = []
for name in sorted(state):
    st = state[name]
    meta = json.load(open(f"seeded/{name}/meta.json")) if os.path.exists(f"seeded/{name}/meta.json") else {}
    for p, r in st["results"].items():
        rows.append((name, st["property"], p, st["tier"], "caught" if r["caught"] else "MISSED", r["detail"], meta.get("needs_to_manifest", "")))
with open("seeded/MATRIX.md", "w") as f:
    f.write("# Seeded changes vs. checks\n\nEach change applied to a scratch copy of /repo (tools/mutest.sh), the registered check run at the given tier.\n\n")
    f.write("| seeded change | breaks | check run | tier | result | detail |\n|---|---|---|---|---|---|\n")
    for r in rows:
        f.write(f"| {r[0]} | {r[1]} | {r[2]} | {r[3]} | {r[4]} | {r[5]} |\n")
indep = [r for r in rows if not r[0].startswith("regress-")]
regr = [r for r in rows if r[0].startswith("regress-")]
sec = "### 11.7 Seeded changes and which checks catch them\n"
sec += ("Two kinds of seeded changes are kept under `seeded/` (patch.diff, demo, meta.json each): **independent seeds** `Cxx-a` ... `Cxx-f` written by fresh\n"
        "sub-agents that were given only the text of one property and their own scratch git worktree (nothing from /verif), each confirmed by\n"
        "`tools/verify_seed*.sh` in another scratch worktree (demo passes on the unmodified tree; with the change the existing 311 tests still pass;\n"
        "with the change the demo fails), and **regression seeds** `regress-*`, the reverse patches of the `fix:` commits of §11.3 (the pinned tree\n"
        "passed its tests with each of those defects present). Every seed is applied to a scratch copy of /repo (`tools/mutest.sh`, never to /repo)\n"
        "and the registered quick check of the broken property is run; `seeded/MATRIX.md` has the full table with the first signature that fired.\n"
        "Seeds came in four waves (`-a/-b` for all properties; `-c/-d` for all properties; `-e/-f` for C10-C16 and C21-C23); the sub-agents of a later\n"
        "wave were additionally shown the READMEs of the earlier seeds of their property and asked for a different, subtler mechanism. The table below is\n"
        "the state after the last strengthening: every seed was re-run against the final checks. What was missed at first, and what was changed in the\n"
        "check, is listed after the tables.\n\n")
def table(rs):
    t = "| change | property | check | result | first signature / note |\n|---|---|---|---|---|\n"
    for r in rs:
        m = re.search(r"`([^`]*)`", r[5])
        t += f"| {r[0]} | {r[1]} | {r[2]} quick | {r[4]} | {('`'+m.group(1)+'`') if m else r[5][:80]} |\n"
    return t
sec += f"**Independent seeds ({len(indep)} check runs, {sum(1 for r in indep if r[4]=='caught')} caught):**\n\n" + table(indep) + "\n"
sec += f"**Regression seeds ({len(regr)} check runs, {sum(1 for r in regr if r[4]=='caught')} caught):**\n\n" + table(regr) + "\n"
sec += "STRENGTHENING_NOTES\n"
d = open("DESIGN.md").read()
notes = ""
m = re.search(r"<!-- strengthening-notes -->(.*?)<!-- /strengthening-notes -->", d, re.S)
if m:
    notes = m.group(0)
sec = sec.replace("STRENGTHENING_NOTES", notes or "<!-- strengthening-notes -->\n<!-- /strengthening-notes -->")
if "### 11.7 Seeded changes" in d:
    d = d[:d.index("### 11.7 Seeded changes")] + sec
else:
    d = d.rstrip("\n") + "\n\n" + sec
open("DESIGN.md", "w").write(d)
print(len(rows), "rows;", sum(1 for r in rows if r[4] != "caught"), "missed")
