#!/usr/bin/env bash
# Run a check against a *mutated scratch copy* of /repo (never touches /repo itself).
#   tools/mutest.sh <patch.diff|none> <Cxx> [quick|thorough] [seed]
# Exit status / output are those of vcheck. Scratch lives in /tmp/mutwork (reused for incremental builds);
# remove it with: tools/mutest.sh clean
set -u
W="${MUTWORK:-/tmp/mutwork}"
if [ "${1:-}" = "clean" ]; then rm -rf "$W"; exit 0; fi
PATCH="${1:?patch}"; PROP="${2:?property}"; TIER="${3:-quick}"; SEED="${4:-1}"
HERE="$(cd "$(dirname "${BASH_SOURCE[0]}")/.." && pwd)"
export RUST_BACKTRACE=0 RUST_LIB_BACKTRACE=0 CARGO_NET_OFFLINE=true
mkdir -p "$W"
rsync -a --delete --exclude target --exclude .git /repo/ "$W/repo/"
if [ "$PATCH" != "none" ]; then
  ( cd "$W/repo" && patch -p1 --no-backup-if-mismatch -s < "$PATCH" ) || { echo "MUTEST: patch does not apply"; exit 3; }
fi
rsync -a --delete --exclude 'target*' "$HERE/harness/" "$W/harness/"
sed -i "s#/repo/src/cwe_checker_lib#$W/repo/src/cwe_checker_lib#" "$W/harness/vmon/Cargo.toml"
mkdir -p "$W/verif"
rsync -a --delete "$HERE/known/" "$W/verif/known/" 2>/dev/null
cp "$HERE/known_findings.json" "$W/verif/" 2>/dev/null
rm -rf "$W/verif/harness"; ln -s "$W/harness" "$W/verif/harness"
( cd "$W/harness" && cargo build --release --offline -q --target-dir "$W/target" 2>"$W/build.log" ) || { echo "MUTEST: harness build failed"; tail -30 "$W/build.log"; exit 3; }
case "$PROP" in
  C21|C22|C23)
    ( cd "$W/repo" && cargo build --release --offline -q -p cwe_checker --features verif --target-dir "$W/harness/target-cli" 2>"$W/build-cli.log" ) || { echo "MUTEST: cli build failed"; tail -30 "$W/build-cli.log"; exit 3; }
    ;;
esac
VERIF_DIR="$W/verif" "$W/target/release/vcheck" "$PROP" --tier "$TIER" --seed "$SEED"
