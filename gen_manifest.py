#!/usr/bin/env python3
"""Regenerates /verif/MANIFEST.json from the table below (kept in one place so the manifest stays valid)."""
import json, os, subprocess, sys

HERE = os.path.dirname(os.path.abspath(__file__))

# property -> (engine, technique, level text, level note, design ref)
CHECKS = {
    "C01": ("vmon-refmodel",
            "reference-model runtime monitor: real Bitvector/BitvectorDomain ops executed next to an independent P-Code evaluator (exhaustive 1-byte, sampled wider); Miri layer for 16-byte apint paths",
            "Every 1-byte operand pair of every integer operation is executed against the reference (complete for that width); widths 2/3/4/8/16, mixed-width shifts/pieces and depth-3 expression trees are boundary-biased samples. Held = no disagreement on the executions listed in the evidence file.",
            "trusts harness/vmon/src/pref.rs as transcription of the P-Code manual; release profile; BOOL ops only on 0/1",
            "DESIGN.md §3 C01"),
    "C10": ("vmon-diffexec",
            "differential execution (translation validation by running): generated functions executed by an independent IR interpreter before/after every optimisation pass and the whole pipeline; trace + state-digest oracle",
            "Thousands of generated functions x 16-96 random initial states are executed before and after each single pass, each pipeline step and normalize_optimize as a whole; every load/store/call/indirect jump/return event and the register+memory digest at calls/returns/dead ends must agree. Held = no trace difference on the executions listed in the evidence file; one recorded known finding (CALLOTHER return sites) is reported as KNOWN-FINDING.",
            "trusts irx/pref as reading of the IR semantics; calls opaque with identical havoc; domain guards listed in the evidence assumptions (aligned entry stack pointer, entry block with stack masking executed once, block-local temporaries, 0/1 flags)",
            "DESIGN.md §3 C10"),
}

NOT_YET = "monitor designed (DESIGN.md §3) but not built yet in this revision of /verif"

def main():
    props = [json.loads(l)["id"] for l in open(os.path.join(HERE, "properties.jsonl"))]
    hook_commits = []
    try:
        out = subprocess.run(["git", "-C", "/repo", "log", "--format=%h %s"], capture_output=True, text=True).stdout
        hook_commits = [l.split()[0] for l in out.splitlines() if "verif hook" in l]
    except Exception:
        pass
    checks = []
    for pid in props:
        if pid not in CHECKS:
            continue
        engine, technique, text, note, ref = CHECKS[pid]
        checks.append({
            "property_id": pid,
            "quick_cmd": f"./run_check.sh {pid} quick",
            "thorough_cmd": f"./run_check.sh {pid} thorough",
            "evidence_file": f"/verif/evidence/{pid}.json",
            "replay_cmd_template": f"./run_check.sh {pid} replay {{path}}",
            "engine": engine,
            "level_claimed": {"category": "exploration", "text": text, "design_ref": ref},
            "level_note": note,
            "technique": technique,
        })
    engines = [
        {"name": "vmon-refmodel", "path": "harness/vmon", "kind_free_text": "reference-model and invariant monitors run next to the real library code (Rust, release profile)"},
        {"name": "vmon-diffexec", "path": "harness/vmon", "kind_free_text": "differential execution of IR / P-Code programs by independent reference interpreters"},
        {"name": "vmon-cli", "path": "harness/vmon", "kind_free_text": "subprocess monitor of the real cwe_checker binary (event log of hook H2, output checkers, valgrind)"},
        {"name": "vmon-history", "path": "harness/vmon", "kind_free_text": "recorded multi-threaded histories + offline checker; Miri many-seeds"},
    ]
    for e in engines:
        e["serves_properties"] = [c["property_id"] for c in checks if c["engine"] == e["name"]]
    manifest = {
        "version": 1,
        "setup_cmd": "./run_check.sh setup",
        "hooks": {
            "guard": "verif",
            "enable": "cargo feature: --features verif (cwe_checker_lib/verif, cwe_checker/verif); run_check.sh builds the harness and the CLI with it",
            "baseline_off_cmd": "cd /repo && cargo test --workspace --no-fail-fast --offline",
            "source_commits": hook_commits,
            "add_only": True,
        },
        "engines": engines,
        "checks": checks,
        "notes": "Runtime monitoring family. Every check: ./run_check.sh <id> quick|thorough (env VERIF_SEED). exit 0 held / 1 VIOLATION / 2 inconclusive-or-harness-error. Known findings: known_findings.json. See DESIGN.md.",
        "not_applicable": [{"property_id": p, "reason": NOT_YET} for p in props if p not in CHECKS],
    }
    with open(os.path.join(HERE, "MANIFEST.json"), "w") as f:
        json.dump(manifest, f, indent=1)
        f.write("\n")
    # validate
    try:
        import jsonschema
        schema = json.load(open("/root/.vp/MANIFEST.schema.json"))
        jsonschema.validate(manifest, schema)
        print("MANIFEST.json valid;", len(checks), "checks,", len(manifest["not_applicable"]), "not applicable")
    except ImportError:
        print("jsonschema not available; MANIFEST.json written unvalidated")

if __name__ == "__main__":
    main()
