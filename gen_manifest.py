#!/usr/bin/env python3
"""Regenerates /verif/MANIFEST.json from the table below (kept in one place so the manifest stays valid)."""
import json, os, subprocess, sys

HERE = os.path.dirname(os.path.abspath(__file__))

# property -> (engine, technique, level text, level note, design ref)
CHECKS = {
    "C01": ("vmon-refmodel",
            "reference-model runtime monitor: real Bitvector/BitvectorDomain ops executed next to an independent P-Code evaluator (exhaustive 1-byte, sampled wider); Miri layer for 16-byte apint paths",
            "Every 1-byte operand pair of every integer operation is executed against the reference (complete for that width); widths 2/3/4/8/16, mixed-width shifts/pieces and depth-3 expression trees are boundary-biased samples. Held = no disagreement on the executions listed in the evidence file.",
            "trusts harness/vmon/src/pref.rs as transcription of the P-Code manual; release profile; BOOL ops only on 0/1",
            "DESIGN.md §3 C01"),
    "C10": ("vmon-diffexec",
            "differential execution (translation validation by running): generated functions executed by an independent IR interpreter before/after every optimisation pass and the whole pipeline; trace + state-digest oracle",
            "Thousands of generated functions x 16-96 random initial states are executed before and after each single pass, each pipeline step and normalize_optimize as a whole; every load/store/call/indirect jump/return event and the register+memory digest at calls/returns/dead ends must agree. Held = no trace difference on the executions listed in the evidence file; one recorded known finding (CALLOTHER return sites) is reported as KNOWN-FINDING.",
            "trusts irx/pref as reading of the IR semantics; calls opaque with identical havoc; domain guards listed in the evidence assumptions (aligned entry stack pointer, entry block with stack masking executed once, block-local temporaries, 0/1 flags)",
            "DESIGN.md §3 C10"),

    "C02": ("vmon-refmodel",
            "reference-model + invariant monitor: real interval transfer functions run on all 1-byte intervals (gamma as 256-bit bitmaps, all members) and sampled wider ones, concrete semantics from the independent P-Code evaluator; well-formedness invariant on every produced interval; witness-shadowed operation chains",
            "Unary ops/casts/subpieces: every well-formed 1-byte interval with every member (complete for that width); binary ops: boundary-biased pairs with all members of both; widths 2/4/8 and chains sampled. Held = every concrete result was a member of the abstract result and every produced interval was well-formed, on the executions listed in the evidence.",
            "trusts pref.rs; inputs with hints only via the public API; release profile",
            "DESIGN.md §3 C02"),
    "C03": ("vmon-refmodel",
            "reference-model monitor: real merge/merge_with of every abstract domain executed next to harness-defined concretisations (gamma) with pointwise inclusion/equality oracles; merge chains with concrete witnesses",
            "Exhaustive for 1-byte BitvectorDomain pairs, Taint pairs and a 1-byte interval mini-universe (with/without widening); sampled for DataDomain, DomainMap under each strategy, MemRegion and wider intervals. Held = over-approximation, self-merge and re-merge stability of gamma on all executions in the evidence.",
            "gamma functions written from the documentation; hints/delays are not part of gamma (structure may change when the set does not)",
            "DESIGN.md §3 C03"),
    "C04": ("vmon-refmodel",
            "reference-model monitor: add_*_bound / intersect executed on all 1-byte intervals x all 256 bounds (slice in quick, exhaustive in thorough) and sampled wider values; oracle = bitmap of members satisfying the condition must stay represented, Err only if none",
            "Complete for 1-byte intervals x bounds in the thorough tier (seeded slice in quick); intersect pairs, widths 2/4/8 and DataDomain absolute parts are samples. One recorded known finding (lcm overflow in intersect) printed as KNOWN-FINDING.",
            "conditions evaluated by plain integer comparison in the harness; DataDomain judged on its absolute part only (its intersect is documented as unsound for relative values)",
            "DESIGN.md §3 C04"),
    "C05": ("vmon-refmodel",
            "history + executable model: random and exhaustive-short operation histories on real MemRegions with unique write ids, compared after every operation with a brute-force byte-ownership cell-store model; delta-debugged witnesses",
            "All histories of length <=2 (quick) / <=3 (thorough) over a 394-operation alphabet plus random histories up to length 60, two value domains; after every operation full dump == model, no overlap, no stored top, get/get_unsized agree. Held on the histories counted in the evidence.",
            "model written from the module documentation and the property statement; mark_interval end is an inclusive write offset",
            "DESIGN.md §3 C05"),
    "C06": ("vmon-refmodel",
            "reference-model monitor with bounded concretisation (all strings up to length 7 over {a,b}); brick operations run on watchdog threads (CPU-time bound) so non-termination is observed as a violation; CI domain exhaustive over a 3-4 letter alphabet",
            "All 1- and 2-brick lists and ordered brick pairs over a 277-brick set, sampled 3-brick lists and fed-back results; gamma(normalize x)=gamma(x), concatenations in gamma(append), members in gamma(merge)/gamma(widen). Held on the executions in the evidence; bounds above 7 are indistinguishable from unbounded.",
            "bounded gamma is exact on strings of length <= 7; only constructor-reachable brick shapes",
            "DESIGN.md §3 C06"),
    "C07": ("vmon-refmodel",
            "reference-model monitor: the real worklist solver run on generated monotone problems (harness-implemented Context with per-edge call counters) under all/many priority orders and step bounds, compared with naive chaotic iteration; same for the forward/backward interprocedural wrappers on generated CFGs",
            "All priority permutations for graphs up to 6 nodes, 200 random ones beyond, every step bound until stabilisation; least solution equality, closedness when 'stabilized', per-edge call count <= bound, worklist emptiness. One recorded known finding (wrapper default value with combinator nodes) printed as KNOWN-FINDING.",
            "transfer functions are monotone by construction; the CFG is taken as given (C08)",
            "DESIGN.md §3 C07"),
    "C15": ("vmon-refmodel",
            "reference-model monitor: the real CWE476 module run through the full pipeline (signatures, pointer inference) on generated programs and compared with an explicit-state path search written from the statement; deviations classified by coded discriminators",
            "Thousands of generated programs per run; expected set of reported source calls == reported set, at most one warning per source, reported access is a reachable sink. Three recorded known findings (join-merge, calls without return site, a pointer-inference panic) are printed as KNOWN-FINDING; everything else is a violation.",
            "oracle evaluated on the normalised program; flows through memory excluded by the statement; callees whose Return is unreachable are inconclusive",
            "DESIGN.md §3 C15"),
    "C16": ("vmon-refmodel",
            "reference-model monitor: real CWE676/782/426/332 modules run on generated programs/import tables/configurations, compared (multisets of name, addresses, tids, symbols) with a direct scan of the normalised program",
            "Hundreds of thousands of module runs per quick tier incl. decoy/near-miss symbol names, calls without return site, duplicate names; held = multiset equality on all of them.",
            "unique import names (duplicates are outside the domain); CWE332 identified by configured names in the message",
            "DESIGN.md §3 C16"),
    "C17": ("vmon-refmodel",
            "reference-model monitor: real CWE367/CWE243 modules run on generated programs, compared with block-level intraprocedural reachability computed by the harness; panics are violations",
            "Generated functions with branches, loops, internal/extern/indirect calls, chroot without return site and in two-jump blocks; expected multiset of (check,use,site) resp. chroot call sites == reported. Held on the programs counted in the evidence.",
            "callee 'can return' is syntactic (contains a Return), as in the CFG builder; check/use symbols are returning externs with return sites",
            "DESIGN.md §3 C17"),
    "C19": ("vmon-refmodel",
            "reference-model monitor: RuntimeMemoryImage queries at every address around every segment boundary compared with a flat byte map; images built directly, from generated ELF (ET_EXEC/ET_DYN/ET_REL kernel module) files and bare-metal configs",
            "Every address from base-2 to end+2 of every segment x sizes 1,2,4,8 for read / is_global / writeable / interval / ro-pointer / string queries over random layouts incl. adjacent and empty segments, both byte orders. Held on the queries counted in the evidence.",
            "read-only = !write_flag; string reads may fail without NUL or for non-UTF-8; constructor rejections of bare-metal configs are inconclusive, not violations",
            "DESIGN.md §3 C19"),
    "C20": ("vmon-refmodel",
            "reference-model monitor: parse_format_string_parameters run on grammar-generated format strings (exhaustive over forms x flags x widths x precisions x adjacency contexts, plus random sequences) and compared with an independent hand-written scanner",
            "All 45 conversion forms x 5 flags x 6 widths x 5 precisions x 7 prefix x 7 suffix contexts under 5 datatype configurations, plus random sequences. Held = same argument list (type,size,order) or same rejection on all of them.",
            "only in-grammar strings; documented types per printf(3)",
            "DESIGN.md §3 C20"),
    "C24": ("vmon-refmodel",
            "reference-model monitor: get_program_callgraph / find_call_sequences_to_target on generated programs compared with planted call sites and a Warshall transitive closure",
            "All digraphs with self loops on up to 4 functions and all (source,target) pairs exhaustively, random programs up to 8 functions with parallel/extern/indirect/dangling calls. Held = set equality of call tids on all queries.",
            "a path is a walk; source==target expects only calls on cycles through the source",
            "DESIGN.md §3 C24"),
    "C25": ("vmon-history",
            "recorded history + offline checker: real LogThread driven by 2-6 sender threads with unique message ids, start/end stamps from one atomic counter at the client boundary, collect racing with sends; thorough tier adds Miri (-Zmiri-many-seeds) for data races/UB and more schedules",
            "15k (quick) / 256k (thorough) short histories, each executed twice; no phantoms/duplicates, every address-less log completed before the collect request returned, real-time and per-sender order, per address exactly one possible-last message kept. Evidence reports distinct output orders and stamp interleavings observed. Held on those histories; no finite run covers all interleavings.",
            "schedules sampled by the OS (and Miri's seeded scheduler in thorough); a hang is reported after 30 s",
            "DESIGN.md §3 C25"),

    "C08": ("vmon-refmodel",
            "reference-model monitor: get_program_cfg on generated raw and basic-normalised multi-function programs compared, as multisets of canonical node/edge labels, with a specification of the graph written from the module documentation",
            "Hundreds of thousands of generated programs per quick tier (shared blocks, cond/indirect jumps with hints, internal/extern/indirect calls, non-returning calls, empty functions); node and edge multisets and entry-node map must be equal. Raw programs whose call return-site attribution is not documented are inconclusive.",
            "specification derived from graph.rs documentation; at most two jumps per block (builder domain)",
            "DESIGN.md §3 C08"),
    "C09": ("vmon-refmodel",
            "invariant monitor: normalize_basic run on generated raw programs with injected irregularities; invariants (unique tids, entry blocks kept, all targets exist and are intraprocedural, sink retargeting of non-returning calls) checked on the result, then the CFG build is checked with C08's oracle",
            "Generated extractor-shaped programs with dangling targets, shared blocks, duplicated def/jmp/block tids, no_return callees, empty subs; every invariant of the statement is evaluated on every result. Results outside the CFG builder's documented domain (lone CBranch after duplicate removal) skip only the graph comparison.",
            "entry-block and sub tids are never duplicated (guard); 'returns' decided syntactically on the normalised program",
            "DESIGN.md §3 C09"),

    "C11": ("vmon-diffexec",
            "differential execution: random P-Code blocks executed by an independent byte-level P-Code interpreter (pcx, register file with aliasing sub-register windows) and, after lifting, by the IR interpreter irx from identical initial states; final base registers, load multisets, store sequences and jump outcomes compared; static scan for surviving sub-registers",
            "A deterministic sweep over every output x input operand / sub-register x cast x target / jump x operand combination plus random blocks, 8 (quick) / 64 (thorough) states each. Held = identical observable behaviour on all executions in the evidence.",
            "pcx/pref/irx as reading of the P-Code and IR semantics; only well-sized P-Code; no float ops; RAM operands not as LOAD output / CBRANCH condition / RETURN target",
            "DESIGN.md §3 C11"),
    "C12": ("vmon-refmodel",
            "invariant monitor: size-consistency walk (typing.rs, independent of Expression::bytesize) over generated P-Code programs lifted through the CLI's JSON path and over IR programs, after lifting, after every single optimisation pass, every pipeline step and the whole pipeline",
            "Generated P-Code programs (1-3 subs, 2-10 blocks, sub-registers, same-name varnodes, extern symbols) and c10's IR programs; any size inconsistency that is not already present in the stage's input is a violation. Held on the programs counted in the evidence.",
            "typing rules stricter than the statement (1-byte bool operands/conditions, zero sizes) are counted separately as beyond-statement, not as violations",
            "DESIGN.md §3 C12"),
    "C13": ("vmon-diffexec",
            "runtime monitor of an abstract interpretation: the real pointer inference (full pipeline) on generated loop-and-branch functions, then concrete executions by irx from 64-1024 boundary-biased states; at every reached block start and executed def the concrete register/stack/load/store values must be in gamma of the analysis state; unreachable-for-the-analysis blocks must not be reached",
            "Thousands of generated functions per quick run, 64 (quick) / 1024 (thorough) runs each. Held = every concrete value observed was represented. One recorded known finding (conditions over values relative to different identifiers) printed as KNOWN-FINDING. Non-stabilising fixpoints and unconcretisable identifiers are inconclusive.",
            "gamma reads identifiers as entry values / entry memory; memory only through stack-relative constant offsets; accesses to (-1024,1024) abort a run",
            "DESIGN.md §3 C13"),
    "C14": ("vmon-refmodel",
            "reference-model monitor: compute_function_signatures on generated multi-function programs compared with an independent upward-exposed-use dataflow (under-approximating must-report set); misses classified by structural cause",
            "Tens of thousands of generated programs per quick run; must-report subset-of reported register parameters. Three recorded known findings (reads at calls without return site, reads on non-returning callee paths, their combination) are printed as KNOWN-FINDING; any other miss, panic or hang (60 s watchdog) is a violation.",
            "paths are CFG paths of the normalised program; bare stack spills, Return expressions and indirect jumps without targets are never demanded",
            "DESIGN.md §3 C14"),
    "C18": ("vmon-diffexec",
            "differential monitor: real CWE560/CWE467 modules (full pipeline) on generated call blocks whose arguments are computed from constants; the actual argument value is obtained by executing the block with irx (three readings must agree) and the oracle is the stated threshold predicate per call site",
            "x86-64 register/sub-register/stack parameters and a hand-built x86-32 cdecl project; values clustered at 0o177, 0o777 and the pointer size. Held = warning iff predicate, per call site, no spurious or duplicate warnings, on the sites counted in the evidence.",
            "every parameter is computed inside the call block from constants alone; stores only at constant stack offsets",
            "DESIGN.md §3 C18"),

    "C21": ("vmon-cli",
            "subprocess monitor of the real CLI binary: generated P-Code projects + matching generated ELF files run through `cwe_checker --pcode-raw` (default, all-checks and random --partial selections) under a watchdog; output-well-formedness checker with an independent sort-order comparator; a few runs under valgrind memcheck",
            "Hundreds to thousands of real CLI runs per quick tier (x86-64 projects with 2-6 functions, ~40 libc externs, loops, calls, globals; ET_EXEC/ET_DYN/ET_REL images). Held = exit 0, no panic text, JSON array, names/versions match --module-versions, canonical order, on the runs counted in the evidence. Termination is judged as bounded progress: a run stopped by the 60 s watchdog after at least 20 s of its own CPU time (normal: ~10 ms) is a violation, a starved run is inconclusive.",
            "generator emits what the extractor can emit (every input is first deserialised into pcode::Project as self-check); CWE125/787 and CWE415 accepted as documented variants of CWE119/CWE416",
            "DESIGN.md §3 C21"),
    "C22": ("vmon-cli",
            "event-log monitor: hook H2 (feature verif) logs one module_run event per executed check; the recorded set is compared with the requested selection (partial lists incl. duplicates/invalid names, default run, kernel-module ELF) and with the names of the printed warnings; --module-versions compared with get_modules()",
            "Thousands of CLI runs per quick tier; executed set == requested set (each once), default = all minus CWE78, kernel module = LKM subset, every warning's owning check executed, built-in triggers honoured. One recorded known finding (module Memory prints CWE476 warnings) printed as KNOWN-FINDING. Zero events overall = inconclusive.",
            "--partial on kernel modules restricted to the LKM subset (other checks lack a config section there)",
            "DESIGN.md §3 C22"),
    "C23": ("vmon-cli",
            "differential monitor over repeated executions: each generated input analysed 6 (quick) / 24 (thorough) times in fresh processes (fresh hash seeds), alternating CPU pinning and shuffled --partial order; byte-identical stdout and exit status required",
            "Inputs biased towards order sensitivity (shared blocks, long dependent expression chains, many externs). Held = no differing run among those executed; a dependence showing with probability p per run pair is missed with probability (1-p)^(n-1) per input. Replay re-runs the stored input N times and reports k of n differing.",
            "hash seeds cannot be pinned from outside, they are sampled by re-running",
            "DESIGN.md §3 C23"),
}

NOT_YET = "monitor designed (DESIGN.md §3) but not built yet in this revision of /verif"

def main():
    props = [json.loads(l)["id"] for l in open(os.path.join(HERE, "properties.jsonl"))]
    hook_commits = []
    try:
        out = subprocess.run(["git", "-C", "/repo", "log", "--format=%h %s"], capture_output=True, text=True).stdout
        hook_commits = [l.split()[0] for l in out.splitlines() if "verif hook" in l]
    except Exception:
        pass
    checks = []
    for pid in props:
        if pid not in CHECKS:
            continue
        engine, technique, text, note, ref = CHECKS[pid]
        checks.append({
            "property_id": pid,
            "quick_cmd": f"./run_check.sh {pid} quick",
            "thorough_cmd": f"./run_check.sh {pid} thorough",
            "evidence_file": f"/verif/evidence/{pid}.json",
            "replay_cmd_template": f"./run_check.sh {pid} replay {{path}}",
            "engine": engine,
            "level_claimed": {"category": "exploration", "text": text, "design_ref": ref},
            "level_note": note,
            "technique": technique,
        })
    engines = [
        {"name": "vmon-refmodel", "path": "harness/vmon", "kind_free_text": "reference-model and invariant monitors run next to the real library code (Rust, release profile)"},
        {"name": "vmon-diffexec", "path": "harness/vmon", "kind_free_text": "differential execution of IR / P-Code programs by independent reference interpreters"},
        {"name": "vmon-cli", "path": "harness/vmon", "kind_free_text": "subprocess monitor of the real cwe_checker binary (event log of hook H2, output checkers, valgrind)"},
        {"name": "vmon-history", "path": "harness/vmon", "kind_free_text": "recorded multi-threaded histories + offline checker; Miri many-seeds"},
    ]
    for e in engines:
        e["serves_properties"] = [c["property_id"] for c in checks if c["engine"] == e["name"]]
    manifest = {
        "version": 1,
        "setup_cmd": "./run_check.sh setup",
        "hooks": {
            "guard": "verif",
            "enable": "cargo feature: --features verif (cwe_checker_lib/verif, cwe_checker/verif); run_check.sh builds the harness and the CLI with it",
            "baseline_off_cmd": "cd /repo && cargo test --workspace --no-fail-fast --offline",
            "source_commits": hook_commits,
            "add_only": True,
        },
        "engines": engines,
        "checks": checks,
        "notes": "Runtime monitoring family. Every check: ./run_check.sh <id> quick|thorough (env VERIF_SEED). exit 0 held / 1 VIOLATION / 2 inconclusive-or-harness-error. Known findings: known_findings.json. See DESIGN.md.",
        "not_applicable": [{"property_id": p, "reason": NOT_YET} for p in props if p not in CHECKS],
    }
    with open(os.path.join(HERE, "MANIFEST.json"), "w") as f:
        json.dump(manifest, f, indent=1)
        f.write("\n")
    # validate
    try:
        import jsonschema
        schema = json.load(open("/root/.vp/MANIFEST.schema.json"))
        jsonschema.validate(manifest, schema)
        print("MANIFEST.json valid;", len(checks), "checks,", len(manifest["not_applicable"]), "not applicable")
    except ImportError:
        print("jsonschema not available; MANIFEST.json written unvalidated")

if __name__ == "__main__":
    main()
