#!/usr/bin/env bash
# Entry point for every check:  ./run_check.sh <Cxx> quick|thorough   |  ./run_check.sh <Cxx> replay <file>  |  ./run_check.sh setup
# exit 0 = held, 1 = VIOLATION (line printed by vcheck), 2 = inconclusive / harness error.
set -u
HERE="$(cd "$(dirname "${BASH_SOURCE[0]}")" && pwd)"
export VERIF_DIR="$HERE"
export RUST_BACKTRACE=0 RUST_LIB_BACKTRACE=0
export CARGO_NET_OFFLINE=true
export CARGO_TERM_COLOR=never
HARNESS="$HERE/harness"
CLI_TARGET="$HARNESS/target-cli"

build_harness() {
  ( cd "$HARNESS" && cargo build --release --offline -q 2>"$HARNESS/target/build.log.tmp" )
  local rc=$?
  if [ $rc -ne 0 ]; then
    echo "INCONCLUSIVE reason=harness-build-failed (see below)"
    tail -40 "$HARNESS/target/build.log.tmp"
    exit 2
  fi
}

build_cli() {
  ( cd /repo && cargo build --release --offline -q -p cwe_checker --features verif --target-dir "$CLI_TARGET" 2>"$HARNESS/target/build-cli.log.tmp" )
  local rc=$?
  if [ $rc -ne 0 ]; then
    echo "INCONCLUSIVE reason=cli-build-failed (see below)"
    tail -40 "$HARNESS/target/build-cli.log.tmp"
    exit 2
  fi
}

mkdir -p "$HARNESS/target" "$HERE/evidence"
cmd="${1:-}"
case "$cmd" in
  setup)
    build_harness
    build_cli
    echo "setup ok"
    exit 0
    ;;
  C[0-9][0-9])
    prop="$cmd"
    mode="${2:-quick}"
    build_harness
    case "$prop" in
      C21|C22|C23) build_cli ;;
    esac
    VCHECK="$HARNESS/target/release/vcheck"
    case "$mode" in
      quick|thorough)
        exec "$VCHECK" "$prop" --tier "$mode" --seed "${VERIF_SEED:-1}"
        ;;
      replay)
        exec "$VCHECK" "$prop" --tier quick --seed "${VERIF_SEED:-1}" --replay "${3:?replay file}"
        ;;
      *)
        echo "usage: $0 <Cxx> quick|thorough|replay <file>"; exit 2 ;;
    esac
    ;;
  *)
    echo "usage: $0 setup | <Cxx> quick|thorough | <Cxx> replay <file>"; exit 2 ;;
esac
