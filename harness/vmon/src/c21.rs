//! C21 — the analyzer completes on every well-formed input and its output is well-formed.
//!
//! Monitor shape: the REAL command line binary (built with feature `verif` into
//! `<harness>/target-cli`) is run as a subprocess on generated P-Code projects (extractor JSON
//! format) + matching generated ELF files; an independent oracle inspects exit status, stderr
//! and the `--json --quiet` output.
//!
//! This file also hosts the shared pieces used by C22 and C23: the program generator
//! (`gen_input`), the ELF writer, the per-run temp dirs, the configuration dir and `run_cli`.

use crate::core::*;
use crate::prng::{hash_str, mix, Rng};
use serde_json::{json, Value};
use std::collections::{BTreeMap, BTreeSet};
use std::path::PathBuf;
use std::process::{Command, Stdio};
use std::sync::atomic::{AtomicUsize, Ordering};
use std::time::{Duration, Instant};

pub fn info() -> CheckInfo {
    CheckInfo {
        id: "C21",
        rule: "random x86-64 P-Code projects in the extractor's JSON format (2-6 functions built by an instruction-level assembler: prologue/epilogue, stack slots, globals via implicit loads, sub-register ops, flags, if/else, while/do-while loops, switch via BRANCHIND with jump-table hints, direct/indirect/recursive calls, no-return calls, stack canary, jumps into blocks of other functions, blocks listed in two functions, long dependent arithmetic chains, ~40 libc extern symbols (20 kernel symbols for modules) with calling conventions) plus a generated ELF (ET_EXEC or PIE ET_DYN with rodata/data+bss/text PT_LOADs, optional section table with .debug_*; kernel-module ET_REL variant) and one fixed hand-made minimal pair, run through the real CLI with default selection, all checks, two random --partial subsets (incl. CWE78 and the pointer-inference based checks) and 3/20 runs under valgrind memcheck. Oracle: exit status 0, nothing that looks like a panic on stderr, stdout parses as a JSON array, each element names a module listed by --module-versions (CWE125/CWE787 are documented variants of CWE119, CWE415 of CWE416) with that module's version and has correctly typed addresses/tids/symbols/other/description, array sorted by the independent comparator (name, version, addresses, tids, symbols, other, description; byte-wise lexicographic). non-trivial = the run printed >= 1 warning and the program has >= 1 loop; distinct = hash of (P-Code JSON, argument list)",
        assumptions: &[
            "the generated P-Code/ELF pairs are inside the extractor's output language: unique TIDs per term (except deliberately shared blocks, which Ghidra emits for overlapping function bodies), every register named in register_properties, libc extern symbols carry their real fixed-parameter signatures, blocks end in [BRANCH] | [CBRANCH,BRANCH] | [CALL] | [CALLIND] | [BRANCHIND] | [RETURN], functions stay below ~45 blocks",
            "termination is judged as bounded progress: a watchdog of 60 s (valgrind: 45 s quick / 600 s thorough) per run; when it fires the CPU time of the process is read from /proc - at least 20 s of CPU time consumed (normal runs take about 10 ms) is reported as non-termination, anything less (a starved process on a loaded machine) and every valgrind timeout is inconclusive; inputs that would start after the tier's wall-clock budget are skipped and counted",
            "the CLI binary in <harness>/target-cli/release is the one run_check.sh builds from the tree under test",
        ],
        run,
        replay,
    }
}

// =====================================================================================
// Part 1: P-Code JSON building blocks
// =====================================================================================

pub fn vreg(name: &str, size: u64) -> Value {
    json!({"name": name, "value": null, "address": null, "size": size, "is_virtual": false})
}
pub fn vtmp(name: &str, size: u64) -> Value {
    json!({"name": name, "value": null, "address": null, "size": size, "is_virtual": true})
}
pub fn vconst(val: u64, size: u64) -> Value {
    let masked = if size >= 8 { val } else { val & ((1u64 << (size * 8)) - 1) };
    json!({"name": null, "value": format!("{:0w$x}", masked, w = (size * 2) as usize), "address": null, "size": size, "is_virtual": false})
}
pub fn vconst_i(val: i64, size: u64) -> Value {
    vconst(val as u64, size)
}
/// varnode in RAM (implicit load / store at a constant address)
pub fn vmem(addr: u64, size: u64) -> Value {
    json!({"name": null, "value": null, "address": format!("{addr:08x}"), "size": size, "is_virtual": false})
}
fn r8(name: &str) -> Value {
    vreg(name, 8)
}

/// One P-Code operation `out = mnemonic(in0, in1, in2)` as the `term` of a Def.
pub fn pop(mn: &str, out: Option<Value>, i0: Option<Value>, i1: Option<Value>, i2: Option<Value>) -> Value {
    json!({"lhs": out, "rhs": {"mnemonic": mn, "input0": i0, "input1": i1, "input2": i2}})
}
fn op1(mn: &str, out: Value, a: Value) -> Value {
    pop(mn, Some(out), Some(a), None, None)
}
fn op2(mn: &str, out: Value, a: Value, b: Value) -> Value {
    pop(mn, Some(out), Some(a), Some(b), None)
}
fn op_load(out: Value, addr: Value) -> Value {
    pop("LOAD", Some(out), None, Some(addr), None)
}
fn op_store(addr: Value, val: Value) -> Value {
    pop("STORE", None, None, Some(addr), Some(val))
}

pub fn tidj(id: &str, addr: &str) -> Value {
    json!({"id": id, "address": addr})
}
fn blk_tid(addr: u64) -> Value {
    let a = format!("{addr:08x}");
    tidj(&format!("blk_{a}"), &a)
}
fn sub_tid(addr: u64) -> Value {
    let a = format!("{addr:08x}");
    tidj(&format!("sub_{a}"), &a)
}

/// How an instruction ends.
#[derive(Clone, Debug)]
enum Fin {
    None,
    Jmp(usize),
    /// branch to a block that belongs to another function (by address)
    JmpForeign(u64),
    CJmp(Value, usize),
    /// direct call; `returns`: emit a return label to the next instruction
    Call(u64, bool),
    /// direct call with explicitly given target address and return block address (either may be outside everything Ghidra
    /// disassembled: error paths that call into / fall through to a region without recovered code)
    CallRaw(u64, Option<u64>),
    CallInd(Value, bool),
    Ret(Value),
    /// indirect branch with jump-table hints (labels)
    JmpInd(Value, Vec<usize>),
}

#[derive(Clone, Debug)]
struct Insn {
    ops: Vec<Value>,
    fin: Fin,
    labels: Vec<usize>,
}

/// Linear instruction list with labels; `assemble` cuts it into basic blocks.
#[derive(Default)]
struct Asm {
    insns: Vec<Insn>,
    n_labels: usize,
    pending: Vec<usize>,
    tmp_counter: u32,
    /// when set, a temporary requested in a later instruction with a different size than the previous one reuses the
    /// previous unique offset (Ghidra's per-instruction unique offsets recur with different sizes across instructions;
    /// the IR keys variables on (name, size), so the two are distinct variables sharing a name)
    tmp_share: bool,
    tmp_last: (u64, usize),
}

impl Asm {
    fn label(&mut self) -> usize {
        self.n_labels += 1;
        self.n_labels - 1
    }
    fn bind(&mut self, l: usize) {
        self.pending.push(l);
    }
    fn push(&mut self, ops: Vec<Value>, fin: Fin) {
        let labels = std::mem::take(&mut self.pending);
        self.insns.push(Insn { ops, fin, labels });
    }
    fn emit(&mut self, ops: Vec<Value>) {
        self.push(ops, Fin::None);
    }
    /// Ghidra reuses a small set of unique names; so do we.
    fn tmp(&mut self, size: u64) -> Value {
        let share = self.tmp_share && self.tmp_last.0 != 0 && self.tmp_last.0 != size && self.tmp_last.1 != self.insns.len();
        self.tmp_last = (size, self.insns.len());
        if !share {
            self.tmp_counter = (self.tmp_counter + 1) % 24;
        }
        vtmp(&format!("$U{:x}", 0x2000 + self.tmp_counter * 0x80), size)
    }
}

pub struct Assembled {
    pub blocks: Vec<Value>,
    pub end_addr: u64,
    /// addresses of blocks that start at a bound label (candidates for foreign jumps)
    pub label_blocks: Vec<u64>,
    pub n_insns: usize,
}

fn jmp_json(mn: &str, goto: Value, call: Value, cond: Value, hints: Value) -> Value {
    json!({"mnemonic": mn, "goto": goto, "call": call, "condition": cond, "target_hints": hints})
}

fn assemble(asm: &Asm, base: u64) -> Assembled {
    let n = asm.insns.len();
    let addr_of = |i: usize| base + 4 * i as u64;
    // label -> instruction index (labels bound after the last instruction point one past the end)
    let mut label_at: BTreeMap<usize, usize> = BTreeMap::new();
    for (i, ins) in asm.insns.iter().enumerate() {
        for l in &ins.labels {
            label_at.insert(*l, i);
        }
    }
    for l in &asm.pending {
        label_at.insert(*l, n);
    }
    let laddr = |l: usize| addr_of(*label_at.get(&l).unwrap_or(&n));
    // block leaders
    let mut leader = vec![false; n + 1];
    leader[0] = true;
    for (i, ins) in asm.insns.iter().enumerate() {
        if !ins.labels.is_empty() {
            leader[i] = true;
        }
        if !matches!(ins.fin, Fin::None) {
            leader[i + 1] = true;
        }
    }
    let mut blocks = Vec::new();
    let mut label_blocks = Vec::new();
    let mut i = 0;
    while i < n {
        let start = i;
        let mut defs = Vec::new();
        let mut jmps = Vec::new();
        loop {
            let ins = &asm.insns[i];
            let a = format!("{:08x}", addr_of(i));
            for (k, o) in ins.ops.iter().enumerate() {
                defs.push(json!({"tid": tidj(&format!("instr_{a}_{k}"), &a), "term": o}));
            }
            let k = ins.ops.len();
            let jt = |d: usize| tidj(&format!("instr_{a}_{}", k + d), &a);
            let next = blk_tid(addr_of(i + 1));
            match &ins.fin {
                Fin::None => (),
                Fin::Jmp(l) => jmps.push(json!({"tid": jt(0), "term": jmp_json("BRANCH", json!({"Direct": blk_tid(laddr(*l))}), Value::Null, Value::Null, Value::Null)})),
                Fin::JmpForeign(t) => jmps.push(json!({"tid": jt(0), "term": jmp_json("BRANCH", json!({"Direct": blk_tid(*t)}), Value::Null, Value::Null, Value::Null)})),
                Fin::CJmp(c, l) => {
                    jmps.push(json!({"tid": jt(0), "term": jmp_json("CBRANCH", json!({"Direct": blk_tid(laddr(*l))}), Value::Null, c.clone(), Value::Null)}));
                    jmps.push(json!({"tid": jt(1), "term": jmp_json("BRANCH", json!({"Direct": next}), Value::Null, Value::Null, Value::Null)}));
                }
                Fin::Call(t, returns) => {
                    let ret = if *returns { json!({"Direct": next}) } else { Value::Null };
                    jmps.push(json!({"tid": jt(0), "term": jmp_json("CALL", Value::Null, json!({"target": {"Direct": sub_tid(*t)}, "return": ret, "call_string": null}), Value::Null, Value::Null)}));
                }
                Fin::CallRaw(t, ret_addr) => {
                    let ret = match ret_addr {
                        Some(r) => json!({"Direct": blk_tid(*r)}),
                        None => Value::Null,
                    };
                    jmps.push(json!({"tid": jt(0), "term": jmp_json("CALL", Value::Null, json!({"target": {"Direct": sub_tid(*t)}, "return": ret, "call_string": null}), Value::Null, Value::Null)}));
                }
                Fin::CallInd(v, returns) => {
                    let ret = if *returns { json!({"Direct": next}) } else { Value::Null };
                    jmps.push(json!({"tid": jt(0), "term": jmp_json("CALLIND", Value::Null, json!({"target": {"Indirect": v}, "return": ret, "call_string": null}), Value::Null, Value::Null)}));
                }
                Fin::Ret(v) => jmps.push(json!({"tid": jt(0), "term": jmp_json("RETURN", json!({"Indirect": v}), Value::Null, Value::Null, Value::Null)})),
                Fin::JmpInd(v, ls) => {
                    let hints: Vec<String> = ls.iter().map(|l| format!("{:08x}", laddr(*l))).collect();
                    jmps.push(json!({"tid": jt(0), "term": jmp_json("BRANCHIND", json!({"Indirect": v}), Value::Null, Value::Null, json!(hints))}));
                }
            }
            i += 1;
            if i >= n || leader[i] {
                break;
            }
        }
        if jmps.is_empty() {
            // fall through into the next block: the extractor adds an artificial branch
            let last = i - 1;
            let a = format!("{:08x}", addr_of(last));
            let k = asm.insns[last].ops.len();
            jmps.push(json!({"tid": tidj(&format!("instr_{a}_{k}"), &a), "term": jmp_json("BRANCH", json!({"Direct": blk_tid(addr_of(i))}), Value::Null, Value::Null, Value::Null)}));
        }
        if !asm.insns[start].labels.is_empty() && start > 0 {
            label_blocks.push(addr_of(start));
        }
        blocks.push(json!({"tid": blk_tid(addr_of(start)), "term": {"defs": defs, "jmps": jmps}}));
    }
    Assembled { blocks, end_addr: addr_of(n), label_blocks, n_insns: n }
}

// =====================================================================================
// Part 2: memory layout, extern symbols, constant pools
// =====================================================================================

#[derive(Clone, Copy, Debug, PartialEq, Eq)]
pub enum ElfKind {
    /// ET_EXEC, addresses as in the file
    Exec,
    /// ET_DYN with first PT_LOAD at 0; Ghidra's image base 0x100000 is added to every address
    Pie,
    /// ET_REL with .modinfo and .gnu.linkonce.this_module: Linux kernel module
    Lkm,
}

#[derive(Clone, Debug)]
pub struct Layout {
    pub kind: ElfKind,
    pub image_base: u64,
    pub plt_base: u64,
    pub rodata_base: u64,
    pub modinfo_base: u64,
    pub data_base: u64,
    pub this_module_base: u64,
    pub bss_base: u64,
    pub text_base: u64,
    /// kernel modules only: `.gnu.linkonce.this_module` precedes `.modinfo` in the section header table
    pub lkm_swapped: bool,
}

pub const RODATA_LEN: u64 = 0x200;
pub const DATA_LEN: u64 = 0x80;
pub const BSS_LEN: u64 = 0x100;
pub const MODINFO_LEN: u64 = 0x40;
pub const THIS_MODULE_LEN: u64 = 0x80;
const FN_SLOT: u64 = 0x4000;

impl Layout {
    pub fn new(kind: ElfKind) -> Layout {
        Layout::new_with(kind, false)
    }
    pub fn new_with(kind: ElfKind, lkm_swapped: bool) -> Layout {
        let image_base = 0x0010_0000u64;
        match kind {
            ElfKind::Exec | ElfKind::Pie => Layout {
                kind,
                image_base,
                plt_base: image_base + 0x800,
                rodata_base: image_base + 0x1000,
                modinfo_base: 0,
                data_base: image_base + 0x4000,
                this_module_base: 0,
                bss_base: image_base + 0x4000 + DATA_LEN,
                text_base: image_base + 0x10000,
                lkm_swapped: false,
            },
            ElfKind::Lkm => {
                // sections are concatenated in section-header order, each aligned to sh_addralign, starting at 0,
                // then shifted by the image base chosen by the disassembler
                let al = |x: u64, a: u64| x.div_ceil(a) * a;
                let rodata = al(0, 16);
                let (modinfo, data, this_module, bss);
                if lkm_swapped {
                    this_module = al(rodata + RODATA_LEN, 64);
                    data = al(this_module + THIS_MODULE_LEN, 8);
                    modinfo = al(data + DATA_LEN, 8);
                    bss = al(modinfo + MODINFO_LEN, 8);
                } else {
                    modinfo = al(rodata + RODATA_LEN, 8);
                    data = al(modinfo + MODINFO_LEN, 8);
                    this_module = al(data + DATA_LEN, 64);
                    bss = al(this_module + THIS_MODULE_LEN, 8);
                }
                let text = al(bss + BSS_LEN, 16);
                Layout {
                    kind,
                    image_base,
                    plt_base: image_base + 0x0010_0000,
                    rodata_base: image_base + rodata,
                    modinfo_base: image_base + modinfo,
                    data_base: image_base + data,
                    this_module_base: image_base + this_module,
                    bss_base: image_base + bss,
                    text_base: image_base + text,
                    lkm_swapped,
                }
            }
        }
    }
}

/// (name, number of fixed register parameters, returns a value, no_return, has_var_args)
type Ext = (&'static str, usize, bool, bool, bool);
const EXT_USER: &[Ext] = &[
    ("malloc", 1, true, false, false),
    ("calloc", 2, true, false, false),
    ("realloc", 2, true, false, false),
    ("free", 1, false, false, false),
    ("strcpy", 2, true, false, false),
    ("strlen", 1, true, false, false),
    ("strcat", 2, true, false, false),
    ("strncpy", 3, true, false, false),
    ("memcpy", 3, true, false, false),
    ("memset", 3, true, false, false),
    ("sprintf", 2, true, false, true),
    ("snprintf", 3, true, false, true),
    ("printf", 1, true, false, true),
    ("scanf", 0, true, false, true),
    ("sscanf", 2, true, false, true),
    ("system", 1, true, false, false),
    ("chroot", 1, true, false, false),
    ("chdir", 1, true, false, false),
    ("setuid", 1, true, false, false),
    ("umask", 1, true, false, false),
    ("ioctl", 2, true, false, true),
    ("access", 2, true, false, false),
    ("open", 2, true, false, true),
    ("rand", 0, true, false, false),
    ("srand", 1, false, false, false),
    ("time", 1, true, false, false),
    ("read", 3, true, false, false),
    ("fgets", 3, true, false, false),
    ("getenv", 1, true, false, false),
    ("puts", 1, true, false, false),
    ("exit", 1, false, true, false),
    ("abort", 0, false, true, false),
    ("strdup", 1, true, false, false),
    ("atoi", 1, true, false, false),
    ("close", 1, true, false, false),
    ("recv", 4, true, false, false),
    ("fopen", 2, true, false, false),
    ("__stack_chk_fail", 0, false, true, false),
    ("strchr", 2, true, false, false),
    ("write", 3, true, false, false),
];
const EXT_LKM: &[Ext] = &[
    ("__kmalloc", 2, true, false, false),
    ("kfree", 1, false, false, false),
    ("strcpy", 2, true, false, false),
    ("strlen", 1, true, false, false),
    ("strcat", 2, true, false, false),
    ("strncpy", 3, true, false, false),
    ("memcpy", 3, true, false, false),
    ("memset", 3, true, false, false),
    ("sprintf", 2, true, false, true),
    ("snprintf", 3, true, false, true),
    ("_printk", 1, true, false, true),
    ("_copy_from_user", 3, true, false, false),
    ("_copy_to_user", 3, true, false, false),
    ("kmalloc_trace", 3, true, false, false),
    ("kstrdup", 2, true, false, false),
    ("mutex_lock", 1, false, false, false),
    ("mutex_unlock", 1, false, false, false),
    ("panic", 1, false, true, true),
    ("__stack_chk_fail", 0, false, true, false),
    ("memcmp", 3, true, false, false),
];

/// Read-only strings (format strings, paths, commands) and their offsets in .rodata.
const RO_STRINGS: &[&str] = &[
    "%s", "%d\n", "hello %s %d\n", "/bin/sh", "ls -la /tmp", "/tmp/file.txt", "cat %s", "/", "PATH", "r", "%s/%s.%d", "id=%u name=%s\n", "/var/jail", "%x%x%n",
    "echo %s", "input: ", "%10s", "license=GPL", "%ld\n", "n=%lu %s\n", "%lld %d", "100%% %d",
];

fn rodata_bytes() -> (Vec<u8>, Vec<u64>) {
    let mut bytes = Vec::new();
    let mut offs = Vec::new();
    for s in RO_STRINGS {
        offs.push(bytes.len() as u64);
        bytes.extend_from_slice(s.as_bytes());
        bytes.push(0);
    }
    // a small table of constants after the strings (read-only ints / pointers)
    while bytes.len() % 8 != 0 {
        bytes.push(0);
    }
    assert!(bytes.len() as u64 + 0x40 <= RODATA_LEN);
    bytes.resize(RODATA_LEN as usize, 0);
    (bytes, offs)
}

/// .data: two writable format strings, global ints and pointer slots.
const DATA_WSTR0: u64 = 0x00; // "%s\n"
const DATA_WSTR1: u64 = 0x08; // "v=%d"
const DATA_INTS: u64 = 0x10; // 6 x 8 bytes
const DATA_PTRS: u64 = 0x40; // 8 x 8 bytes

fn data_bytes(lay: &Layout) -> Vec<u8> {
    let mut d = vec![0u8; DATA_LEN as usize];
    d[0..4].copy_from_slice(b"%s\n\0");
    d[8..13].copy_from_slice(b"v=%d\0");
    for k in 0..6u64 {
        let v: u64 = [0, 1, 8, 0x1ff, 0x7fff_ffff, u64::MAX][k as usize];
        d[(DATA_INTS + 8 * k) as usize..(DATA_INTS + 8 * k + 8) as usize].copy_from_slice(&v.to_le_bytes());
    }
    for k in 0..8u64 {
        let v: u64 = match k {
            0 => lay.rodata_base,
            1 => lay.bss_base,
            2 => lay.text_base,
            3 => lay.text_base + FN_SLOT,
            _ => 0,
        };
        d[(DATA_PTRS + 8 * k) as usize..(DATA_PTRS + 8 * k + 8) as usize].copy_from_slice(&v.to_le_bytes());
    }
    d
}

// =====================================================================================
// Part 3: x86-64 flavoured function generator
// =====================================================================================

const FAM: &[(&str, &str, &str, &str)] = &[
    ("RAX", "EAX", "AX", "AL"),
    ("RBX", "EBX", "BX", "BL"),
    ("RCX", "ECX", "CX", "CL"),
    ("RDX", "EDX", "DX", "DL"),
    ("RSI", "ESI", "SI", "SIL"),
    ("RDI", "EDI", "DI", "DIL"),
    ("RBP", "EBP", "BP", "BPL"),
    ("RSP", "ESP", "SP", "SPL"),
    ("R8", "R8D", "R8W", "R8B"),
    ("R9", "R9D", "R9W", "R9B"),
    ("R10", "R10D", "R10W", "R10B"),
    ("R11", "R11D", "R11W", "R11B"),
    ("R12", "R12D", "R12W", "R12B"),
    ("R13", "R13D", "R13W", "R13B"),
    ("R14", "R14D", "R14W", "R14B"),
    ("R15", "R15D", "R15W", "R15B"),
];
const PARAMS: &[&str] = &["RDI", "RSI", "RDX", "RCX", "R8", "R9"];

fn r32(r64: &str) -> &'static str {
    FAM.iter().find(|f| f.0 == r64).map(|f| f.1).unwrap_or("EAX")
}
fn rlow8(r64: &str) -> &'static str {
    FAM.iter().find(|f| f.0 == r64).map(|f| f.3).unwrap_or("AL")
}

#[derive(Clone, Copy, PartialEq, Eq, Debug)]
enum SlotK {
    Int,
    Heap,
    Freed,
    Str,
}

/// Generation knobs.
#[derive(Clone, Debug)]
pub struct GenOpts {
    pub kind: ElfKind,
    /// bias towards things that make iteration order matter (C23)
    pub order_bias: bool,
    /// bias towards several syntactic triggers at once (C22)
    pub trigger_bias: bool,
    /// add a section table with a `.debug_info` section (CWE215 trigger)
    pub debug_sections: bool,
}

/// Program-level generation context.
pub struct Pg<'a> {
    pub rng: &'a mut Rng,
    pub lay: Layout,
    pub opts: GenOpts,
    ext: &'static [Ext],
    used_ext: BTreeSet<usize>,
    /// externs that are additionally imported through a second symbol of the same name (second PLT slot)
    dup_ext: BTreeSet<usize>,
    /// emit such duplicate imports (order-sensitive inputs only)
    allow_dup_ext: bool,
    ro_offs: Vec<u64>,
    /// checks the program is built to trigger (only syntactic, certain triggers)
    pub expect: BTreeSet<String>,
    n_funcs: usize,
    pub loops: usize,
    /// blocks of already assembled functions that later functions may jump into
    foreign_targets: Vec<u64>,
    /// shared tails of already assembled functions: blocks that dereference the value in RAX and are only reached by
    /// jumps from other functions (function index, block address)
    landing: Vec<(usize, u64)>,
    pub features: BTreeSet<String>,
    /// names of functions that call a privilege function / system (CWE426 bookkeeping)
    has_chdir_symbol_calls: bool,
}

impl<'a> Pg<'a> {
    fn ext_idx(&self, name: &str) -> Option<usize> {
        self.ext.iter().position(|e| e.0 == name)
    }
    fn ext_addr(&mut self, name: &str) -> Option<u64> {
        let i = self.ext_idx(name)?;
        self.used_ext.insert(i);
        if self.allow_dup_ext && self.rng.chance(1, 3) {
            // call through the second import of the same name
            self.dup_ext.insert(i);
            return Some(self.lay.plt_base + 0x10 * i as u64 + 8);
        }
        Some(self.lay.plt_base + 0x10 * i as u64)
    }
    fn ro(&self, s: &str) -> u64 {
        let i = RO_STRINGS.iter().position(|x| *x == s).unwrap_or(0);
        self.lay.rodata_base + self.ro_offs[i]
    }
    fn any_ro(&mut self) -> u64 {
        let i = self.rng.usize_below(RO_STRINGS.len());
        self.lay.rodata_base + self.ro_offs[i]
    }
    fn fn_addr(&self, i: usize) -> u64 {
        self.lay.text_base + FN_SLOT * i as u64
    }
    fn lkm(&self) -> bool {
        self.lay.kind == ElfKind::Lkm
    }
    fn feat(&mut self, f: &str) {
        self.features.insert(f.to_string());
    }
}

struct Fg {
    asm: Asm,
    fidx: usize,
    slots: [SlotK; 6],
    exit_label: usize,
    budget: i32,
    frame: u64,
    calls_system: bool,
    calls_priv: bool,
}

const BUF_OFF: i64 = -0x80;
const ARG0_OFF: i64 = -0x38;
const ARG1_OFF: i64 = -0x40;

impl Fg {
    fn here(&self, pg: &Pg) -> u64 {
        pg.fn_addr(self.fidx) + 4 * self.asm.insns.len() as u64
    }
    fn slot_off(k: usize) -> i64 {
        -8 * (k as i64 + 1)
    }
    // ---- plain instructions --------------------------------------------------------
    fn mov_ri(&mut self, pg: &mut Pg, reg: &str, imm: u64) {
        if imm <= 0x7fff_ffff && pg.rng.bool() {
            // mov r32, imm32 (zero extends)
            self.asm.emit(vec![op1("COPY", vreg(r32(reg), 4), vconst(imm, 4)), op1("INT_ZEXT", r8(reg), vreg(r32(reg), 4))]);
        } else {
            self.asm.emit(vec![op1("COPY", r8(reg), vconst(imm, 8))]);
        }
    }
    fn mov_rr(&mut self, dst: &str, src: &str) {
        self.asm.emit(vec![op1("COPY", r8(dst), r8(src))]);
    }
    fn lea(&mut self, dst: &str, base: &str, off: i64) {
        self.asm.emit(vec![op2("INT_ADD", r8(dst), r8(base), vconst_i(off, 8))]);
    }
    fn ld(&mut self, dst: &str, base: &str, off: i64) {
        let t = self.asm.tmp(8);
        self.asm.emit(vec![op2("INT_ADD", t.clone(), r8(base), vconst_i(off, 8)), op_load(r8(dst), t)]);
    }
    fn ld32(&mut self, dst: &str, base: &str, off: i64, sext: bool) {
        let t = self.asm.tmp(8);
        let t4 = self.asm.tmp(4);
        let mut ops = vec![op2("INT_ADD", t.clone(), r8(base), vconst_i(off, 8)), op_load(t4.clone(), t)];
        if sext {
            ops.push(op1("INT_SEXT", r8(dst), t4));
        } else {
            ops.push(op1("COPY", vreg(r32(dst), 4), t4));
            ops.push(op1("INT_ZEXT", r8(dst), vreg(r32(dst), 4)));
        }
        self.asm.emit(ops);
    }
    fn st(&mut self, base: &str, off: i64, src: Value) {
        let t = self.asm.tmp(8);
        self.asm.emit(vec![op2("INT_ADD", t.clone(), r8(base), vconst_i(off, 8)), op_store(t, src)]);
    }
    fn ld_slot(&mut self, dst: &str, k: usize) {
        self.ld(dst, "RBP", Self::slot_off(k));
    }
    fn st_slot(&mut self, k: usize, src: &str) {
        self.st("RBP", Self::slot_off(k), r8(src));
    }
    fn ld_global(&mut self, dst: &str, addr: u64) {
        self.asm.emit(vec![op1("COPY", r8(dst), vmem(addr, 8))]);
    }
    fn st_global(&mut self, addr: u64, src: Value) {
        self.asm.emit(vec![op1("COPY", vmem(addr, 8), src)]);
    }
    /// flags of `a - b` (cmp) ; returns the ops
    fn cmp_ops(&mut self, a: Value, b: Value, size: u64) -> Vec<Value> {
        let t = self.asm.tmp(size);
        vec![
            op2("INT_LESS", vreg("CF", 1), a.clone(), b.clone()),
            op2("INT_SBORROW", vreg("OF", 1), a.clone(), b.clone()),
            op2("INT_SUB", t.clone(), a, b),
            op2("INT_SLESS", vreg("SF", 1), t.clone(), vconst(0, size)),
            op2("INT_EQUAL", vreg("ZF", 1), t, vconst(0, size)),
        ]
    }
    fn alu(&mut self, pg: &mut Pg, dst: &str, src: Value) {
        let (mn, flags) = *pg.rng.pick(&[("INT_ADD", true), ("INT_SUB", true), ("INT_AND", false), ("INT_XOR", false), ("INT_OR", false), ("INT_MULT", false), ("INT_ADD", true)]);
        let mut ops = Vec::new();
        if flags {
            let (c, o) = if mn == "INT_ADD" { ("INT_CARRY", "INT_SCARRY") } else { ("INT_LESS", "INT_SBORROW") };
            ops.push(op2(c, vreg("CF", 1), r8(dst), src.clone()));
            ops.push(op2(o, vreg("OF", 1), r8(dst), src.clone()));
        } else {
            ops.push(op1("COPY", vreg("CF", 1), vconst(0, 1)));
            ops.push(op1("COPY", vreg("OF", 1), vconst(0, 1)));
        }
        ops.push(op2(mn, r8(dst), r8(dst), src));
        ops.push(op2("INT_SLESS", vreg("SF", 1), r8(dst), vconst(0, 8)));
        ops.push(op2("INT_EQUAL", vreg("ZF", 1), r8(dst), vconst(0, 8)));
        self.asm.emit(ops);
    }
    /// conditional jump after a flag-setting instruction
    fn jcc(&mut self, pg: &mut Pg, target: usize) {
        let t = self.asm.tmp(1);
        let t2 = self.asm.tmp(1);
        match pg.rng.below(6) {
            0 => self.asm.push(vec![], Fin::CJmp(vreg("ZF", 1), target)),
            1 => self.asm.push(vec![op1("BOOL_NEGATE", t.clone(), vreg("ZF", 1))], Fin::CJmp(t, target)),
            2 => self.asm.push(vec![op2("INT_NOTEQUAL", t.clone(), vreg("OF", 1), vreg("SF", 1))], Fin::CJmp(t, target)),
            3 => self.asm.push(vec![op2("INT_EQUAL", t.clone(), vreg("OF", 1), vreg("SF", 1))], Fin::CJmp(t, target)),
            4 => self.asm.push(vec![op2("INT_NOTEQUAL", t.clone(), vreg("OF", 1), vreg("SF", 1)), op2("BOOL_OR", t2.clone(), vreg("ZF", 1), t)], Fin::CJmp(t2, target)),
            _ => self.asm.push(vec![], Fin::CJmp(vreg("CF", 1), target)),
        }
    }
    fn jz(&mut self, target: usize) {
        self.asm.push(vec![], Fin::CJmp(vreg("ZF", 1), target));
    }
    fn test_rr(&mut self, reg: &str) {
        let t = self.asm.tmp(8);
        self.asm.emit(vec![
            op1("COPY", vreg("CF", 1), vconst(0, 1)),
            op1("COPY", vreg("OF", 1), vconst(0, 1)),
            op2("INT_AND", t.clone(), r8(reg), r8(reg)),
            op2("INT_SLESS", vreg("SF", 1), t.clone(), vconst(0, 8)),
            op2("INT_EQUAL", vreg("ZF", 1), t, vconst(0, 8)),
        ]);
    }
    fn cmp_slot_imm(&mut self, pg: &mut Pg, k: usize, imm: u64) {
        if pg.rng.bool() {
            self.ld_slot("RAX", k);
            let ops = self.cmp_ops(r8("RAX"), vconst(imm, 8), 8);
            self.asm.emit(ops);
        } else {
            // cmp dword ptr [rbp-x], imm
            let t = self.asm.tmp(8);
            let t4 = self.asm.tmp(4);
            let mut ops = vec![op2("INT_ADD", t.clone(), r8("RBP"), vconst_i(Self::slot_off(k), 8)), op_load(t4.clone(), t)];
            ops.extend(self.cmp_ops(t4, vconst(imm, 4), 4));
            self.asm.emit(ops);
        }
    }
    fn call_addr(&mut self, pg: &Pg, target: u64, returns: bool) {
        let ret = self.here(pg) + 4;
        self.asm.push(vec![op2("INT_SUB", r8("RSP"), r8("RSP"), vconst(8, 8)), op_store(r8("RSP"), vconst(ret, 8))], Fin::Call(target, returns));
    }
    /// call an extern symbol by name (no-op if the symbol table of this mode lacks it)
    fn call_ext(&mut self, pg: &mut Pg, name: &str) -> bool {
        let Some(i) = pg.ext_idx(name) else { return false };
        let addr = pg.ext_addr(name).unwrap();
        let noret = pg.ext[i].3;
        // Ghidra gives no-return calls no return target most of the time
        let returns = !noret || pg.rng.chance(1, 4);
        self.call_addr(pg, addr, returns);
        true
    }
    fn prologue(&mut self, pg: &mut Pg, nargs: usize) {
        self.asm.emit(vec![op2("INT_SUB", r8("RSP"), r8("RSP"), vconst(8, 8)), op_store(r8("RSP"), r8("RBP"))]);
        self.mov_rr("RBP", "RSP");
        let f = self.frame;
        self.asm.emit(vec![
            op2("INT_LESS", vreg("CF", 1), r8("RSP"), vconst(f, 8)),
            op2("INT_SBORROW", vreg("OF", 1), r8("RSP"), vconst(f, 8)),
            op2("INT_SUB", r8("RSP"), r8("RSP"), vconst(f, 8)),
            op2("INT_SLESS", vreg("SF", 1), r8("RSP"), vconst(0, 8)),
            op2("INT_EQUAL", vreg("ZF", 1), r8("RSP"), vconst(0, 8)),
        ]);
        if pg.rng.chance(1, 6) {
            // and rsp, -16
            self.asm.emit(vec![
                op1("COPY", vreg("CF", 1), vconst(0, 1)),
                op1("COPY", vreg("OF", 1), vconst(0, 1)),
                op2("INT_AND", r8("RSP"), r8("RSP"), vconst_i(-16, 8)),
                op2("INT_SLESS", vreg("SF", 1), r8("RSP"), vconst(0, 8)),
                op2("INT_EQUAL", vreg("ZF", 1), r8("RSP"), vconst(0, 8)),
            ]);
            pg.feat("stack-align");
        }
        if nargs >= 1 {
            self.st("RBP", ARG0_OFF, r8("RDI"));
        }
        if nargs >= 2 {
            self.st("RBP", ARG1_OFF, r8("RSI"));
        }
    }
    fn epilogue(&mut self) {
        // leave ; ret
        self.asm.emit(vec![op1("COPY", r8("RSP"), r8("RBP")), op_load(r8("RBP"), r8("RSP")), op2("INT_ADD", r8("RSP"), r8("RSP"), vconst(8, 8))]);
        self.asm.push(vec![op_load(r8("RIP"), r8("RSP")), op2("INT_ADD", r8("RSP"), r8("RSP"), vconst(8, 8))], Fin::Ret(r8("RIP")));
    }

    // ---- argument helpers ----------------------------------------------------------
    fn heap_slot(&self, want: SlotK) -> Option<usize> {
        self.slots.iter().position(|s| *s == want)
    }
    /// put some pointer into `reg`; returns a short description
    fn ptr_arg(&mut self, pg: &mut Pg, reg: &str, writable_only: bool) -> &'static str {
        let choice = pg.rng.below(if writable_only { 5 } else { 7 });
        match choice {
            0 | 1 => {
                self.lea(reg, "RBP", BUF_OFF + 8 * pg.rng.below(3) as i64);
                "stack"
            }
            2 => {
                if let Some(k) = self.heap_slot(SlotK::Heap).or(self.heap_slot(SlotK::Freed)) {
                    self.ld_slot(reg, k);
                    "heap"
                } else {
                    self.lea(reg, "RBP", BUF_OFF);
                    "stack"
                }
            }
            3 => {
                let a = pg.lay.bss_base + 8 * pg.rng.below(8);
                self.mov_ri(pg, reg, a);
                "bss"
            }
            4 => {
                self.ld("RAX", "RBP", ARG0_OFF);
                self.mov_rr(reg, "RAX");
                "param"
            }
            5 => {
                let a = pg.any_ro();
                self.mov_ri(pg, reg, a);
                "rodata"
            }
            _ => {
                self.ld_global(reg, pg.lay.data_base + DATA_PTRS + 8 * pg.rng.below(3));
                "global-ptr"
            }
        }
    }
    fn int_arg(&mut self, pg: &mut Pg, reg: &str) {
        match pg.rng.below(4) {
            0 => {
                let k = pg.rng.usize_below(6);
                self.ld_slot(reg, k);
            }
            1 => {
                let v = *pg.rng.pick(&[0u64, 1, 8, 16, 0x40, 0x100, 0x1000, 0x200000]);
                self.mov_ri(pg, reg, v);
            }
            2 => self.ld_global(reg, pg.lay.data_base + DATA_INTS + 8 * pg.rng.below(6)),
            _ => {
                self.ld32(reg, "RBP", Self::slot_off(pg.rng.usize_below(6)), pg.rng.bool());
            }
        }
    }
    fn free_slot_for_result(&mut self, pg: &mut Pg) -> usize {
        pg.rng.usize_below(6)
    }
}

const CWE676_USER: &[&str] = &["strcpy", "strlen", "strcat", "strncpy", "memcpy", "memset", "sprintf", "snprintf", "sscanf", "scanf"];
const CWE676_LKM: &[&str] = &["memcmp", "memcpy", "memset", "strcat", "strcpy", "strlen", "strncpy"];

impl Fg {
    fn note_call(&mut self, pg: &mut Pg, name: &str) {
        let list = if pg.lkm() { CWE676_LKM } else { CWE676_USER };
        if list.contains(&name) {
            pg.expect.insert("CWE676".into());
        }
    }
    fn call_named(&mut self, pg: &mut Pg, name: &str) -> bool {
        if self.call_ext(pg, name) {
            self.note_call(pg, name);
            true
        } else {
            false
        }
    }
    fn store_result(&mut self, pg: &mut Pg, kind: SlotK) -> usize {
        let k = self.free_slot_for_result(pg);
        self.st_slot(k, "RAX");
        self.slots[k] = kind;
        k
    }

    fn t_alloc(&mut self, pg: &mut Pg) {
        let lkm = pg.lkm();
        let mut size8 = false;
        // size expression
        match pg.rng.below(6) {
            0 => {
                // multiplication right before the call (CWE190 pattern)
                self.int_arg(pg, "RDI");
                let c = *pg.rng.pick(&[4u64, 8, 24, 0x1000]);
                let mn = if pg.rng.bool() { "INT_MULT" } else { "INT_LEFT" };
                let src = if mn == "INT_LEFT" { vconst(3, 8) } else { vconst(c, 8) };
                self.asm.emit(vec![op2(mn, r8("RDI"), r8("RDI"), src)]);
                pg.feat("alloc-mult");
            }
            1 => {
                let v = *pg.rng.pick(&[0x200000u64, 0x7fffffff, 0x4000000]);
                self.mov_ri(pg, "RDI", v);
                pg.feat("alloc-huge");
            }
            2 => {
                self.mov_ri(pg, "RDI", 8);
                size8 = true;
            }
            3 => self.int_arg(pg, "RDI"),
            _ => {
                let v = *pg.rng.pick(&[16u64, 24, 32, 64, 100]);
                self.mov_ri(pg, "RDI", v);
            }
        }
        let name = if lkm {
            self.mov_ri(pg, "RSI", 0xcc0);
            "__kmalloc"
        } else {
            match pg.rng.below(8) {
                0 => {
                    self.mov_rr("RSI", "RDI");
                    self.mov_ri(pg, "RDI", 4);
                    "calloc"
                }
                1 => {
                    self.mov_rr("RSI", "RDI");
                    self.ptr_arg(pg, "RDI", true);
                    "realloc"
                }
                _ => "malloc",
            }
        };
        if !self.call_named(pg, name) {
            return;
        }
        if size8 && name == "malloc" {
            // malloc(sizeof(void*)) with the constant set in the block of the call
            pg.expect.insert("CWE467".into());
        }
        let k = self.store_result(pg, SlotK::Heap);
        pg.feat("alloc");
        if pg.rng.chance(1, 2) {
            // NULL check
            self.ld_slot("RAX", k);
            self.test_rr("RAX");
            let target = if pg.rng.bool() { self.exit_label } else { self.asm.label() };
            self.jz(target);
            if target != self.exit_label {
                self.t_use_ptr(pg);
                self.asm.bind(target);
            }
            pg.feat("null-check");
        } else if pg.rng.chance(2, 3) {
            // immediate unchecked use
            self.ld_slot("RAX", k);
            let off = *pg.rng.pick(&[0i64, 8, 16]);
            self.st("RAX", off, vconst(pg.rng.below(100), 8));
            pg.feat("unchecked-use");
        }
    }

    fn t_use_ptr(&mut self, pg: &mut Pg) {
        let Some(k) = self.heap_slot(SlotK::Heap).or(self.heap_slot(SlotK::Freed)).or(self.heap_slot(SlotK::Str)) else {
            // use the parameter as a pointer
            self.ld("RAX", "RBP", ARG0_OFF);
            self.ld("RDX", "RAX", 8);
            return;
        };
        self.ld_slot("RAX", k);
        let off = *pg.rng.pick(&[0i64, 0, 8, 16, 24, 64, 0x400, -8]);
        match pg.rng.below(4) {
            0 => self.ld("RDX", "RAX", off),
            1 => self.st("RAX", off, r8("RDX")),
            2 => self.st("RAX", off, vconst(0x41, 1)),
            _ => {
                // byte load + zero extension: movzx edx, byte ptr [rax+off]
                let t = self.asm.tmp(8);
                let t1 = self.asm.tmp(1);
                self.asm.emit(vec![op2("INT_ADD", t.clone(), r8("RAX"), vconst_i(off, 8)), op_load(t1.clone(), t), op1("INT_ZEXT", vreg("EDX", 4), t1), op1("INT_ZEXT", r8("RDX"), vreg("EDX", 4))]);
            }
        }
        pg.feat("ptr-use");
    }

    fn t_free(&mut self, pg: &mut Pg) {
        let k = match self.heap_slot(SlotK::Heap) {
            Some(k) => k,
            None => match self.heap_slot(SlotK::Freed) {
                Some(k) if pg.rng.chance(1, 3) => {
                    pg.feat("double-free");
                    k
                }
                _ => return,
            },
        };
        self.ld_slot("RDI", k);
        let name = if pg.lkm() { "kfree" } else { "free" };
        if self.call_named(pg, name) {
            self.slots[k] = SlotK::Freed;
            pg.feat("free");
            if pg.rng.chance(1, 3) {
                self.t_use_ptr(pg);
                pg.feat("use-after-free");
            }
        }
    }

    fn t_string(&mut self, pg: &mut Pg) {
        match pg.rng.below(5) {
            0 => {
                self.ptr_arg(pg, "RSI", false);
                self.ptr_arg(pg, "RDI", true);
                self.call_named(pg, "strcpy");
            }
            1 => {
                self.ptr_arg(pg, "RSI", false);
                self.ptr_arg(pg, "RDI", true);
                self.call_named(pg, "strcat");
            }
            2 => {
                self.ptr_arg(pg, "RDI", false);
                if self.call_named(pg, "strlen") {
                    self.store_result(pg, SlotK::Int);
                }
            }
            3 => {
                self.ptr_arg(pg, "RSI", false);
                self.ptr_arg(pg, "RDI", true);
                let n = *pg.rng.pick(&[8u64, 16, 0x40, 0x100]);
                self.mov_ri(pg, "RDX", n);
                let name = *pg.rng.pick(&["memcpy", "strncpy", "memcpy"]);
                if self.call_named(pg, name) && n == 8 {
                    pg.expect.insert("CWE467".into());
                }
            }
            _ => {
                self.ptr_arg(pg, "RDI", true);
                self.mov_ri(pg, "RSI", 0);
                if pg.rng.bool() {
                    let n = *pg.rng.pick(&[8u64, 32, 0x40, 0x1000]);
                    self.mov_ri(pg, "RDX", n);
                } else {
                    self.int_arg(pg, "RDX");
                }
                self.call_named(pg, "memset");
            }
        }
        pg.feat("string-call");
    }

    fn fmt_arg(&mut self, pg: &mut Pg, reg: &str) {
        match pg.rng.below(6) {
            0 => {
                // writable global format string
                let a = pg.lay.data_base + if pg.rng.bool() { DATA_WSTR0 } else { DATA_WSTR1 };
                self.mov_ri(pg, reg, a);
                pg.feat("fmt-writable");
            }
            1 => {
                self.ptr_arg(pg, reg, true);
                pg.feat("fmt-nonconst");
            }
            _ => {
                let s = *pg.rng.pick(&["%s", "%d\n", "hello %s %d\n", "cat %s", "%s/%s.%d", "id=%u name=%s\n", "%x%x%n", "echo %s", "%ld\n", "n=%lu %s\n", "%lld %d", "100%% %d"]);
                let a = pg.ro(s);
                self.mov_ri(pg, reg, a);
            }
        }
    }

    fn t_format(&mut self, pg: &mut Pg) {
        let lkm = pg.lkm();
        match pg.rng.below(4) {
            0 => {
                self.int_arg(pg, "RSI");
                self.fmt_arg(pg, "RDI");
                self.asm.emit(vec![op1("COPY", vreg("EAX", 4), vconst(0, 4)), op1("INT_ZEXT", r8("RAX"), vreg("EAX", 4))]);
                self.call_named(pg, if lkm { "_printk" } else { "printf" });
            }
            1 => {
                self.ptr_arg(pg, "RDX", false);
                self.fmt_arg(pg, "RSI");
                self.ptr_arg(pg, "RDI", true);
                self.call_named(pg, "sprintf");
            }
            2 => {
                self.ptr_arg(pg, "RCX", false);
                self.fmt_arg(pg, "RDX");
                self.mov_ri(pg, "RSI", 0x40);
                self.ptr_arg(pg, "RDI", true);
                self.call_named(pg, "snprintf");
            }
            _ => {
                if lkm {
                    return;
                }
                if pg.rng.bool() {
                    self.lea("RSI", "RBP", BUF_OFF);
                    let a = pg.ro("%10s");
                    self.mov_ri(pg, "RDI", a);
                    self.call_named(pg, "scanf");
                } else {
                    self.lea("RDX", "RBP", Self::slot_off(2));
                    let a = pg.ro("%d\n");
                    self.mov_ri(pg, "RSI", a);
                    self.ptr_arg(pg, "RDI", false);
                    self.call_named(pg, "sscanf");
                }
            }
        }
        pg.feat("format-call");
    }

    fn t_system(&mut self, pg: &mut Pg) {
        if pg.lkm() {
            return;
        }
        match pg.rng.below(4) {
            0 => {
                let a = pg.ro("ls -la /tmp");
                self.mov_ri(pg, "RDI", a);
            }
            1 => {
                // sprintf(buf, "cat %s", user) ; system(buf)
                self.ptr_arg(pg, "RDX", false);
                let s = *pg.rng.pick(&["cat %s", "echo %s"]);
                let a = pg.ro(s);
                self.mov_ri(pg, "RSI", a);
                self.lea("RDI", "RBP", BUF_OFF);
                self.call_named(pg, "sprintf");
                self.lea("RDI", "RBP", BUF_OFF);
                pg.feat("cmd-injection");
            }
            2 => {
                self.ptr_arg(pg, "RDI", false);
            }
            _ => {
                // drop privileges, then system()
                self.mov_ri(pg, "RDI", 0);
                if self.call_named(pg, "setuid") {
                    self.calls_priv = true;
                }
                let a = pg.ro("/bin/sh");
                self.mov_ri(pg, "RDI", a);
            }
        }
        if self.call_named(pg, "system") {
            self.calls_system = true;
            if pg.rng.bool() {
                self.store_result(pg, SlotK::Int);
            }
        }
        pg.feat("system");
    }

    fn t_misc_syscalls(&mut self, pg: &mut Pg) {
        if pg.lkm() {
            // kernel flavoured: copy_from_user with ignored / checked result, locking
            match pg.rng.below(3) {
                0 => {
                    let n = *pg.rng.pick(&[8u64, 0x40, 0x200]);
                    self.mov_ri(pg, "RDX", n);
                    self.ld("RSI", "RBP", ARG1_OFF);
                    self.ptr_arg(pg, "RDI", true);
                    let name = if pg.rng.bool() { "_copy_from_user" } else { "_copy_to_user" };
                    if self.call_named(pg, name) && pg.rng.bool() {
                        self.test_rr("RAX");
                        let l = self.exit_label;
                        self.jcc(pg, l);
                    }
                }
                1 => {
                    self.mov_ri(pg, "RDI", pg.lay.bss_base + 0x40);
                    self.call_named(pg, "mutex_lock");
                    self.t_use_ptr(pg);
                    self.mov_ri(pg, "RDI", pg.lay.bss_base + 0x40);
                    self.call_named(pg, "mutex_unlock");
                }
                _ => {
                    self.mov_ri(pg, "RSI", 0xcc0);
                    self.ptr_arg(pg, "RDI", false);
                    if self.call_named(pg, "kstrdup") {
                        self.store_result(pg, SlotK::Heap);
                    }
                }
            }
            return;
        }
        match pg.rng.below(9) {
            0 => {
                let a = pg.ro("/var/jail");
                self.mov_ri(pg, "RDI", a);
                self.call_named(pg, "chroot");
                pg.feat("chroot");
                if pg.rng.chance(1, 3) {
                    let a = pg.ro("/");
                    self.mov_ri(pg, "RDI", a);
                    if self.call_named(pg, "chdir") {
                        pg.has_chdir_symbol_calls = true;
                    }
                }
            }
            1 => {
                let v = *pg.rng.pick(&[0o666u64, 0o755, 0o644, 0o22, 0o77, 0o700]);
                // mov edi, imm ; call umask   (argument visible in the block of the call)
                self.asm.emit(vec![op1("COPY", vreg("EDI", 4), vconst(v, 4)), op1("INT_ZEXT", r8("RDI"), vreg("EDI", 4))]);
                if self.call_named(pg, "umask") && v > 0o177 {
                    pg.expect.insert("CWE560".into());
                }
                pg.feat("umask");
            }
            2 => {
                self.lea("RDX", "RBP", BUF_OFF);
                self.mov_ri(pg, "RSI", 0x5401);
                self.int_arg(pg, "RDI");
                if self.call_named(pg, "ioctl") {
                    pg.expect.insert("CWE782".into());
                }
            }
            3 => {
                // access(path, R_OK) ... open(path, O_RDONLY)
                let a = pg.ro("/tmp/file.txt");
                self.mov_ri(pg, "RSI", 4);
                self.mov_ri(pg, "RDI", a);
                let c1 = self.call_named(pg, "access");
                if pg.rng.bool() {
                    self.store_result(pg, SlotK::Int);
                }
                self.mov_ri(pg, "RSI", 0);
                self.mov_ri(pg, "RDI", a);
                let c2 = self.call_named(pg, "open");
                if c1 && c2 {
                    pg.expect.insert("CWE367".into());
                }
                self.store_result(pg, SlotK::Int);
                pg.feat("toctou");
            }
            4 => {
                if pg.rng.bool() {
                    self.mov_ri(pg, "RDI", 0);
                    self.call_named(pg, "time");
                    self.mov_rr("RDI", "RAX");
                    self.call_named(pg, "srand");
                    pg.feat("srand-time");
                }
                if self.call_named(pg, "rand") {
                    self.store_result(pg, SlotK::Int);
                }
                pg.feat("rand");
            }
            5 => {
                // read(fd, buf, n) with the result ignored or checked
                let n = *pg.rng.pick(&[0x10u64, 0x40, 0x400]);
                self.mov_ri(pg, "RDX", n);
                self.ptr_arg(pg, "RSI", true);
                self.int_arg(pg, "RDI");
                let name = *pg.rng.pick(&["read", "write", "fgets"]);
                if self.call_named(pg, name) && pg.rng.bool() {
                    self.test_rr("RAX");
                    let l = self.exit_label;
                    self.jcc(pg, l);
                }
                pg.feat("retval-ignored-or-checked");
            }
            6 => {
                let a = pg.ro("PATH");
                self.mov_ri(pg, "RDI", a);
                if self.call_named(pg, "getenv") {
                    let k = self.store_result(pg, SlotK::Str);
                    if pg.rng.bool() {
                        self.ld_slot("RDI", k);
                        if self.call_named(pg, "strdup") {
                            self.store_result(pg, SlotK::Heap);
                        }
                    }
                }
            }
            7 => {
                self.mov_ri(pg, "RCX", 0);
                self.mov_ri(pg, "RDX", 0x40);
                self.lea("RSI", "RBP", BUF_OFF);
                self.int_arg(pg, "RDI");
                self.call_named(pg, "recv");
                self.lea("RDI", "RBP", BUF_OFF);
                if self.call_named(pg, "atoi") {
                    self.store_result(pg, SlotK::Int);
                }
                pg.feat("user-input");
            }
            _ => {
                let a = pg.any_ro();
                self.mov_ri(pg, "RDI", a);
                self.call_named(pg, "puts");
            }
        }
    }

    fn t_plain(&mut self, pg: &mut Pg) {
        match pg.rng.below(7) {
            0 => {
                let k = pg.rng.usize_below(6);
                let v = pg.rng.biased(8) as u64;
                self.st("RBP", Self::slot_off(k), vconst(v, 8));
                self.slots[k] = SlotK::Int;
            }
            1 => {
                let (a, b, c) = (pg.rng.usize_below(6), pg.rng.usize_below(6), pg.rng.usize_below(6));
                self.ld_slot("RAX", a);
                self.ld_slot("RDX", b);
                self.alu(pg, "RAX", r8("RDX"));
                if self.slots[c] == SlotK::Int || pg.rng.chance(1, 4) {
                    self.st_slot(c, "RAX");
                    self.slots[c] = SlotK::Int;
                }
            }
            2 => {
                // 32 bit arithmetic with sub registers
                let k = pg.rng.usize_below(6);
                self.ld32("RAX", "RBP", Self::slot_off(k), false);
                let mn = *pg.rng.pick(&["INT_ADD", "INT_MULT", "INT_LEFT", "INT_SUB", "INT_RIGHT"]);
                let c = pg.rng.below(9);
                self.asm.emit(vec![op2(mn, vreg("EAX", 4), vreg("EAX", 4), vconst(c, 4)), op1("INT_ZEXT", r8("RAX"), vreg("EAX", 4))]);
                if pg.rng.bool() {
                    // movsx / movzx from the low byte
                    let (mn2, _) = *pg.rng.pick(&[("INT_SEXT", 0), ("INT_ZEXT", 0)]);
                    self.asm.emit(vec![op1(mn2, r8("RCX"), vreg("AL", 1))]);
                }
                let t = self.asm.tmp(8);
                self.asm.emit(vec![op2("INT_ADD", t.clone(), r8("RBP"), vconst_i(Self::slot_off(k), 8)), op_store(t, vreg("EAX", 4))]);
                pg.feat("subregister-ops");
            }
            3 => {
                // global read-modify-write
                let a = pg.lay.data_base + DATA_INTS + 8 * pg.rng.below(6);
                self.ld_global("RAX", a);
                let c = pg.rng.below(16);
                self.alu(pg, "RAX", vconst(c, 8));
                self.st_global(a, r8("RAX"));
                pg.feat("global-rw");
            }
            4 => {
                // read-only table lookup / bss store
                let mut a = pg.lay.rodata_base + RODATA_LEN - 0x40 + 8 * pg.rng.below(8);
                if pg.rng.chance(1, 4) {
                    // a load whose first bytes are the last bytes of the read-only segment (it straddles the segment end)
                    a = pg.lay.rodata_base + RODATA_LEN - 1 - pg.rng.below(7);
                    pg.feat("load-straddling-segment-end");
                }
                self.ld_global("RDX", a);
                self.st_global(pg.lay.bss_base + 8 * pg.rng.below(16), r8("RDX"));
                pg.feat("global-rw");
            }
            5 => {
                // store through a pointer kept in a global pointer slot
                self.ld_global("RAX", pg.lay.data_base + DATA_PTRS + 8);
                self.st("RAX", 8 * pg.rng.below(4) as i64, r8("RCX"));
            }
            _ => {
                // write into the local buffer, sometimes past its end
                let off = BUF_OFF + *pg.rng.pick(&[0i64, 8, 0x38, 0x40, 0x48, 0x90]);
                self.st("RBP", off, vconst(0, 8));
                pg.feat("stack-buffer-write");
            }
        }
    }

    /// A long dependent arithmetic chain on one register (expression depth around the propagation
    /// limit of 10), a value derived from it, a block boundary, then a store / allocation using it.
    fn t_chain(&mut self, pg: &mut Pg) {
        let (a, b, c, d) = (pg.rng.usize_below(6), pg.rng.usize_below(6), pg.rng.usize_below(6), pg.rng.usize_below(6));
        self.ld_slot("RSI", a);
        self.ld_slot("RCX", b);
        if pg.rng.chance(1, 4) {
            self.ld_slot("RAX", c);
        } else {
            // start from an assignment so that the propagation table knows an expression for RAX
            self.asm.emit(vec![op2("INT_ADD", r8("RAX"), r8("RSI"), r8("RCX"))]);
        }
        let n = 6 + pg.rng.usize_below(10);
        for i in 0..n {
            let (mn, src) = match pg.rng.below(7) {
                0 => ("INT_MULT", vconst(*pg.rng.pick(&[3u64, 5, 7, 24]), 8)),
                1 => ("INT_XOR", r8("RSI")),
                2 => ("INT_ADD", r8("RCX")),
                3 => ("INT_SUB", r8("RSI")),
                4 => ("INT_LEFT", vconst(1 + (i as u64 % 3), 8)),
                5 => ("INT_OR", r8("RCX")),
                _ => ("INT_MULT", r8("RSI")),
            };
            self.asm.emit(vec![op2(mn, r8("RAX"), r8("RAX"), src)]);
        }
        self.lea("RDX", "RAX", 1);
        if pg.rng.chance(3, 4) {
            // block boundary: if (..) r9 = r9;
            let k = pg.rng.usize_below(6);
            let t = self.asm.tmp(8);
            let t4 = self.asm.tmp(4);
            let mut ops = vec![op2("INT_ADD", t.clone(), r8("RBP"), vconst_i(Self::slot_off(k), 8)), op_load(t4.clone(), t)];
            ops.extend(self.cmp_ops(t4, vconst(7, 4), 4));
            self.asm.emit(ops);
            let l = self.asm.label();
            self.jz(l);
            self.asm.emit(vec![op1("COPY", r8("R9"), r8("R9"))]);
            self.asm.bind(l);
        }
        self.st_slot(d, "RDX");
        self.slots[d] = SlotK::Int;
        if pg.rng.chance(2, 3) {
            self.mov_rr("RDI", "RDX");
            let name = if pg.lkm() {
                self.asm.emit(vec![op1("COPY", r8("RSI"), vconst(0xcc0, 8))]);
                "__kmalloc"
            } else {
                "malloc"
            };
            if self.call_named(pg, name) {
                self.store_result(pg, SlotK::Heap);
            }
        }
        pg.feat("long-expression-chain");
    }

    /// Error path `if (..) call <somewhere>`: the call target and/or the fall-through address lie in a region without
    /// recovered code (the extractor then emits references to subs / blocks that do not exist).
    fn t_dangling_call(&mut self, pg: &mut Pg) {
        let l = self.asm.label();
        self.test_rr("RDI");
        self.jz(l);
        let nowhere = 0x00de_0000u64 + 0x100 * pg.rng.below(8);
        let here = self.here(pg);
        let kt = pg.rng.usize_below(pg.n_funcs);
        let known_target = pg.fn_addr(kt);
        let (target, ret) = match pg.rng.below(4) {
            0 => (nowhere, Some(nowhere + 0x40)),  // target and return site unknown
            1 => (nowhere, Some(here + 4)),       // only the target unknown
            2 => (known_target, Some(nowhere + 0x40)), // only the return site unknown
            _ => (nowhere, None),
        };
        self.asm.push(vec![op2("INT_SUB", r8("RSP"), r8("RSP"), vconst(8, 8)), op_store(r8("RSP"), vconst(here + 4, 8))], Fin::CallRaw(target, ret));
        self.asm.bind(l);
        pg.feat("dangling-call");
    }

    fn t_call(&mut self, pg: &mut Pg) {
        if pg.rng.chance(1, 6) {
            self.t_dangling_call(pg);
            return;
        }
        match pg.rng.below(5) {
            0 => {
                // indirect call through a global function pointer or a register
                if pg.rng.bool() {
                    self.ld_global("RAX", pg.lay.data_base + DATA_PTRS + 16);
                } else {
                    self.ld("RAX", "RBP", ARG1_OFF);
                }
                self.int_arg(pg, "RDI");
                let ret = self.here(pg) + 4;
                self.asm.push(vec![op2("INT_SUB", r8("RSP"), r8("RSP"), vconst(8, 8)), op_store(r8("RSP"), vconst(ret, 8))], Fin::CallInd(r8("RAX"), true));
                pg.feat("indirect-call");
            }
            _ => {
                let callee = if pg.rng.chance(1, 8) { self.fidx } else { pg.rng.usize_below(pg.n_funcs) };
                if pg.rng.bool() {
                    self.ptr_arg(pg, "RDI", false);
                } else {
                    self.int_arg(pg, "RDI");
                }
                if pg.rng.bool() {
                    self.ptr_arg(pg, "RSI", false);
                } else {
                    self.int_arg(pg, "RSI");
                }
                let a = pg.fn_addr(callee);
                self.call_addr(pg, a, true);
                if callee == self.fidx {
                    pg.feat("recursion");
                }
                if pg.rng.bool() {
                    let kind = if pg.rng.chance(1, 3) { SlotK::Heap } else { SlotK::Int };
                    self.store_result(pg, kind);
                }
                pg.feat("internal-call");
            }
        }
    }

    fn t_if(&mut self, pg: &mut Pg, depth: u32) {
        let k = pg.rng.usize_below(6);
        let imm = *pg.rng.pick(&[0u64, 1, 10, 0x40, 0xffff_ffff]);
        self.cmp_slot_imm(pg, k, imm);
        let l_else = self.asm.label();
        self.jcc(pg, l_else);
        let saved = self.slots;
        let n = 1 + pg.rng.usize_below(3);
        self.stmts(pg, depth + 1, n);
        if pg.rng.chance(1, 3) {
            let l_end = self.asm.label();
            self.asm.push(vec![], Fin::Jmp(l_end));
            self.asm.bind(l_else);
            self.slots = saved;
            let n = 1 + pg.rng.usize_below(2);
            self.stmts(pg, depth + 1, n);
            self.asm.bind(l_end);
        } else {
            self.asm.bind(l_else);
        }
        // a nop-like instruction so that the join label always has an instruction
        self.asm.emit(vec![op1("COPY", r8("RAX"), r8("RAX"))]);
        pg.feat("if");
    }

    fn t_loop(&mut self, pg: &mut Pg, depth: u32) {
        let k = pg.rng.usize_below(6);
        self.slots[k] = SlotK::Int;
        let head = self.asm.label();
        let end = self.asm.label();
        let bound_const = pg.rng.chance(2, 3);
        let bound = *pg.rng.pick(&[4u64, 10, 0x40, 0x100]);
        let do_while = pg.rng.chance(1, 3);
        self.st("RBP", Self::slot_off(k), vconst(0, 8));
        self.asm.bind(head);
        if !do_while {
            if bound_const {
                self.cmp_slot_imm(pg, k, bound);
            } else {
                self.ld_slot("RAX", k);
                self.ld("RDX", "RBP", ARG1_OFF);
                let ops = self.cmp_ops(r8("RAX"), r8("RDX"), 8);
                self.asm.emit(ops);
            }
            self.jcc(pg, end);
        }
        // body
        if pg.rng.chance(2, 3) {
            // buf[i] = x   (indexed stack or heap write)
            if let (Some(h), true) = (self.heap_slot(SlotK::Heap), pg.rng.bool()) {
                self.ld_slot("RAX", h);
            } else {
                self.lea("RAX", "RBP", BUF_OFF);
            }
            self.ld_slot("RCX", k);
            let t = self.asm.tmp(8);
            let t2 = self.asm.tmp(8);
            let scale = *pg.rng.pick(&[1u64, 4, 8]);
            self.asm.emit(vec![op2("INT_MULT", t.clone(), r8("RCX"), vconst(scale, 8)), op2("INT_ADD", t2.clone(), r8("RAX"), t), op_store(t2, vreg(rlow8("RDX"), 1))]);
            pg.feat("indexed-write-in-loop");
        }
        let saved_budget = self.budget;
        self.budget = self.budget.min(3);
        let n = pg.rng.usize_below(3);
        self.stmts(pg, depth + 1, n);
        self.budget = saved_budget - 2;
        // i += step
        self.ld_slot("RAX", k);
        let step = *pg.rng.pick(&[1u64, 1, 2, 8]);
        self.asm.emit(vec![
            op2("INT_CARRY", vreg("CF", 1), r8("RAX"), vconst(step, 8)),
            op2("INT_SCARRY", vreg("OF", 1), r8("RAX"), vconst(step, 8)),
            op2("INT_ADD", r8("RAX"), r8("RAX"), vconst(step, 8)),
            op2("INT_SLESS", vreg("SF", 1), r8("RAX"), vconst(0, 8)),
            op2("INT_EQUAL", vreg("ZF", 1), r8("RAX"), vconst(0, 8)),
        ]);
        self.st_slot(k, "RAX");
        if do_while {
            self.cmp_slot_imm(pg, k, bound);
            self.jcc(pg, head);
        } else {
            self.asm.push(vec![], Fin::Jmp(head));
        }
        self.asm.bind(end);
        self.asm.emit(vec![op1("COPY", r8("RAX"), r8("RAX"))]);
        pg.loops += 1;
        pg.feat(if do_while { "do-while" } else { "while" });
    }

    fn t_switch(&mut self, pg: &mut Pg, depth: u32) {
        let toctou = !pg.lkm() && pg.rng.chance(1, if pg.opts.order_bias { 3 } else { 6 });
        self.t_switch_with(pg, depth, toctou)
    }

    /// `toctou`: `access(path)` in front of the jump table and `open(path)` in (nearly) every case, so that several
    /// sink calls are reachable from the source only through different table entries.
    fn t_switch_with(&mut self, pg: &mut Pg, depth: u32, toctou: bool) {
        let k = pg.rng.usize_below(6);
        let ncases = 2 + pg.rng.usize_below(3);
        let path = pg.ro("/tmp/file.txt");
        let mut have_source = false;
        if toctou {
            self.mov_ri(pg, "RSI", 4);
            self.mov_ri(pg, "RDI", path);
            have_source = self.call_named(pg, "access");
        }
        self.ld32("RAX", "RBP", Self::slot_off(k), false);
        let ops = self.cmp_ops(vreg("EAX", 4), vconst(ncases as u64 - 1, 4), 4);
        self.asm.emit(ops);
        let l_default = self.asm.label();
        let l_end = self.asm.label();
        // ja default
        let t = self.asm.tmp(1);
        let t2 = self.asm.tmp(1);
        self.asm.push(vec![op2("BOOL_OR", t.clone(), vreg("CF", 1), vreg("ZF", 1)), op1("BOOL_NEGATE", t2.clone(), t)], Fin::CJmp(t2, l_default));
        let cases: Vec<usize> = (0..ncases).map(|_| self.asm.label()).collect();
        let table = pg.lay.rodata_base + RODATA_LEN - 0x40;
        let (a, b, c) = (self.asm.tmp(8), self.asm.tmp(8), self.asm.tmp(8));
        self.asm.push(vec![op2("INT_MULT", a.clone(), r8("RAX"), vconst(8, 8)), op2("INT_ADD", b.clone(), a, vconst(table, 8)), op_load(c.clone(), b)], Fin::JmpInd(c, cases.clone()));
        let saved = self.slots;
        let mut sinks = 0;
        for l in cases {
            self.asm.bind(l);
            self.slots = saved;
            if toctou && have_source && !pg.rng.chance(1, 5) {
                self.mov_ri(pg, "RSI", 0);
                self.mov_ri(pg, "RDI", path);
                if self.call_named(pg, "open") {
                    sinks += 1;
                }
            } else {
                self.stmts(pg, depth + 1, 1);
            }
            self.asm.push(vec![op1("COPY", r8("RAX"), r8("RAX"))], Fin::Jmp(l_end));
        }
        if sinks >= 1 {
            pg.expect.insert("CWE367".into());
        }
        if sinks >= 2 {
            pg.feat("toctou-sinks-behind-jump-table");
        }
        self.slots = saved;
        self.asm.bind(l_default);
        self.asm.emit(vec![op1("COPY", r8("RAX"), vconst(0, 8))]);
        self.asm.bind(l_end);
        self.asm.emit(vec![op1("COPY", r8("RAX"), r8("RAX"))]);
        pg.feat("switch");
    }

    fn t_exit(&mut self, pg: &mut Pg) {
        // guarded early exit: if (cond) { return | exit() | jump into another function's block }
        let k = pg.rng.usize_below(6);
        let c = pg.rng.below(4);
        self.cmp_slot_imm(pg, k, c);
        let skip = self.asm.label();
        self.jcc(pg, skip);
        let foreign_p = if pg.opts.order_bias { 2 } else { 5 };
        if !pg.foreign_targets.is_empty() && pg.rng.chance(1, foreign_p) {
            let t = *pg.rng.pick(&pg.foreign_targets);
            self.asm.push(vec![op1("COPY", r8("RAX"), vconst(1, 8))], Fin::JmpForeign(t));
            pg.feat("jump-into-other-function");
        } else if pg.rng.chance(1, 3) {
            self.mov_ri(pg, "RDI", 1);
            let name = if pg.lkm() { "panic" } else if pg.rng.bool() { "exit" } else { "abort" };
            if !self.call_named(pg, name) {
                let l = self.exit_label;
                self.asm.push(vec![], Fin::Jmp(l));
            } else {
                pg.feat("noreturn-call");
            }
        } else {
            let l = self.exit_label;
            self.asm.push(vec![op1("COPY", r8("RAX"), vconst_i(-1, 8))], Fin::Jmp(l));
        }
        self.asm.bind(skip);
        self.asm.emit(vec![op1("COPY", r8("RAX"), r8("RAX"))]);
    }

    /// `if (cond) for (;;);` compiled as a chain of empty blocks: a jump-only block leading into a jump-only block
    /// that leads into a jump-only self-loop (or a two-block cycle).
    fn t_hang(&mut self, pg: &mut Pg) {
        let k = pg.rng.usize_below(6);
        let c = pg.rng.below(4);
        self.cmp_slot_imm(pg, k, c);
        let skip = self.asm.label();
        self.jcc(pg, skip);
        let fail = self.asm.label();
        let hang = self.asm.label();
        self.asm.push(vec![], Fin::Jmp(fail));
        self.asm.bind(fail);
        self.asm.push(vec![], Fin::Jmp(hang));
        self.asm.bind(hang);
        if pg.rng.chance(1, 3) {
            let hang2 = self.asm.label();
            self.asm.push(vec![], Fin::Jmp(hang2));
            self.asm.bind(hang2);
            self.asm.push(vec![], Fin::Jmp(hang));
        } else {
            self.asm.push(vec![], Fin::Jmp(hang));
        }
        self.asm.bind(skip);
        self.asm.emit(vec![op1("COPY", r8("RAX"), r8("RAX"))]);
        pg.feat("empty-block-chain-into-endless-loop");
    }

    /// A tail shared with other functions: a block of this function's body that this function itself jumps over; it
    /// dereferences the value in RAX and falls through into the following code.
    fn t_landing(&mut self, pg: &mut Pg) {
        let over = self.asm.label();
        self.asm.push(vec![op1("COPY", r8("RAX"), r8("RAX"))], Fin::Jmp(over));
        let l = self.asm.label();
        self.asm.bind(l);
        let addr = self.here(pg);
        let t = self.asm.tmp(8);
        let off = 8 * pg.rng.below(4) as i64;
        self.asm.emit(vec![op2("INT_ADD", t.clone(), r8("RAX"), vconst_i(off, 8)), op_load(r8("RCX"), t)]);
        self.asm.bind(over);
        self.asm.emit(vec![op1("COPY", r8("RAX"), r8("RAX"))]);
        pg.landing.push((self.fidx, addr));
        pg.feat("shared-tail-block");
    }

    /// Allocate, then leave on two different conditions into two shared tails of earlier functions with the unchecked
    /// result still in RAX (the function then contains copies of two or more foreign blocks).
    fn t_alloc_fork(&mut self, pg: &mut Pg) -> bool {
        let mut cands: Vec<u64> = pg.landing.iter().filter(|(f, _)| *f != self.fidx).map(|x| x.1).collect();
        if cands.len() < 2 {
            return false;
        }
        pg.rng.shuffle(&mut cands);
        let name = if pg.lkm() { "__kmalloc" } else { "malloc" };
        self.mov_ri(pg, "RDI", 0x20);
        if pg.lkm() {
            self.mov_ri(pg, "RSI", 0xcc0);
        }
        if !self.call_named(pg, name) {
            return false;
        }
        for target in cands.into_iter().take(2) {
            let k = pg.rng.usize_below(6);
            let c = pg.rng.below(4);
            self.cmp_slot_imm(pg, k, c);
            let skip = self.asm.label();
            self.jcc(pg, skip);
            self.asm.push(vec![op1("COPY", r8("RDX"), r8("RDX"))], Fin::JmpForeign(target));
            self.asm.bind(skip);
            self.asm.emit(vec![op1("COPY", r8("RAX"), r8("RAX"))]);
        }
        pg.feat("alloc-then-two-shared-tails");
        true
    }

    fn stmt(&mut self, pg: &mut Pg, depth: u32) {
        self.budget -= 1;
        let structured = depth < 2 && self.budget > 2;
        let trig = pg.opts.trigger_bias;
        let r = pg.rng.below(if structured { 40 } else { 30 });
        match r {
            0..=4 => self.t_plain(pg),
            5..=8 => self.t_alloc(pg),
            9..=10 => self.t_use_ptr(pg),
            11..=13 => self.t_free(pg),
            14..=16 => self.t_string(pg),
            17..=19 => self.t_format(pg),
            20..=21 => self.t_system(pg),
            22..=25 => self.t_misc_syscalls(pg),
            26..=28 => self.t_call(pg),
            29 => {
                if pg.opts.order_bias || pg.rng.chance(1, 3) {
                    self.t_chain(pg)
                } else if trig {
                    self.t_misc_syscalls(pg)
                } else {
                    self.t_plain(pg)
                }
            }
            30..=32 => self.t_if(pg, depth),
            33..=36 => self.t_loop(pg, depth),
            37 => self.t_switch(pg, depth),
            _ => {
                let r2 = pg.rng.below(if pg.opts.order_bias { 3 } else { 8 });
                if r2 >= 6 {
                    self.t_hang(pg)
                } else if r2 == 0 && self.fidx + 1 < pg.n_funcs {
                    self.t_landing(pg)
                } else if r2 == 1 {
                    if !self.t_alloc_fork(pg) {
                        self.t_exit(pg)
                    }
                } else {
                    self.t_exit(pg)
                }
            }
        }
    }

    fn stmts(&mut self, pg: &mut Pg, depth: u32, n: usize) {
        for _ in 0..n {
            if self.budget <= 0 {
                break;
            }
            self.stmt(pg, depth);
        }
    }
}

/// Generate one function; returns the assembled blocks.
fn gen_function(pg: &mut Pg, fidx: usize) -> (Assembled, bool, bool) {
    let mut asm = Asm::default();
    asm.tmp_share = fidx % 3 == 2;
    let exit_label = asm.label();
    let big_frame = pg.rng.chance(1, 12);
    let mut f = Fg {
        asm,
        fidx,
        slots: [SlotK::Int; 6],
        exit_label,
        budget: 4 + pg.rng.below(if pg.opts.order_bias { 14 } else { 11 }) as i32,
        frame: if big_frame { *pg.rng.pick(&[0x2000u64, 0x4010]) } else { *pg.rng.pick(&[0x90u64, 0xa0, 0x100]) },
        calls_system: false,
        calls_priv: false,
    };
    if big_frame {
        pg.feat("big-stack-frame");
    }
    let nargs = pg.rng.usize_below(3);
    f.prologue(pg, nargs);
    if pg.opts.order_bias {
        if fidx + 1 < pg.n_funcs && pg.rng.chance(1, 3) {
            f.t_landing(pg);
            if pg.rng.bool() {
                f.t_landing(pg);
            }
        }
        if pg.rng.chance(1, 3) {
            f.t_alloc_fork(pg);
        }
    }
    let n = 2 + pg.rng.usize_below(6);
    f.stmts(pg, 0, n);
    // return value
    if pg.rng.bool() {
        let k = pg.rng.usize_below(6);
        f.ld_slot("RAX", k);
    } else {
        f.mov_ri(pg, "RAX", 0);
    }
    let canary = pg.rng.chance(1, 5) && pg.ext_idx("__stack_chk_fail").is_some();
    let l_fail = f.asm.label();
    f.asm.bind(exit_label);
    if canary {
        f.ld("RDX", "RBP", -0x88);
        let ops = f.cmp_ops(r8("RDX"), vmem(pg.lay.bss_base + 0xf8, 8), 8);
        f.asm.emit(ops);
        let t = f.asm.tmp(1);
        f.asm.push(vec![op1("BOOL_NEGATE", t.clone(), vreg("ZF", 1))], Fin::CJmp(t, l_fail));
    }
    f.epilogue();
    if canary {
        f.asm.bind(l_fail);
        let addr = pg.ext_addr("__stack_chk_fail").unwrap();
        f.call_addr(pg, addr, false);
        pg.feat("stack-canary");
    }
    let base = pg.fn_addr(fidx);
    let assembled = assemble(&f.asm, base);
    (assembled, f.calls_system, f.calls_priv)
}

// =====================================================================================
// Part 4: whole program + ELF image
// =====================================================================================

/// A generated analyzer input.
#[derive(Clone, Debug)]
pub struct Input {
    pub pcode: String,
    pub elf: Vec<u8>,
    pub kind: ElfKind,
    pub loops: usize,
    pub n_subs: usize,
    pub n_blocks: usize,
    pub max_blocks_per_sub: usize,
    /// checks that the input is built to trigger with certainty (syntactic checks only)
    pub expect: BTreeSet<String>,
    pub features: BTreeSet<String>,
    pub extern_names: Vec<String>,
}

fn register_properties() -> Value {
    let mut regs = Vec::new();
    for (r64, r32_, r16, r8_) in FAM {
        regs.push(json!({"register": r64, "base_register": r64, "lsb": 0, "size": 8}));
        regs.push(json!({"register": r32_, "base_register": r64, "lsb": 0, "size": 4}));
        regs.push(json!({"register": r16, "base_register": r64, "lsb": 0, "size": 2}));
        regs.push(json!({"register": r8_, "base_register": r64, "lsb": 0, "size": 1}));
    }
    for (h, b) in [("AH", "RAX"), ("BH", "RBX"), ("CH", "RCX"), ("DH", "RDX")] {
        regs.push(json!({"register": h, "base_register": b, "lsb": 1, "size": 1}));
    }
    for f in ["CF", "PF", "AF", "ZF", "SF", "TF", "IF", "DF", "OF"] {
        regs.push(json!({"register": f, "base_register": f, "lsb": 0, "size": 1}));
    }
    regs.push(json!({"register": "RIP", "base_register": "RIP", "lsb": 0, "size": 8}));
    regs.push(json!({"register": "EIP", "base_register": "RIP", "lsb": 0, "size": 4}));
    regs.push(json!({"register": "FS_OFFSET", "base_register": "FS_OFFSET", "lsb": 0, "size": 8}));
    for i in 0..8 {
        regs.push(json!({"register": format!("YMM{i}"), "base_register": format!("YMM{i}"), "lsb": 0, "size": 32}));
        regs.push(json!({"register": format!("XMM{i}"), "base_register": format!("YMM{i}"), "lsb": 0, "size": 16}));
        regs.push(json!({"register": format!("XMM{i}_Qa"), "base_register": format!("YMM{i}"), "lsb": 0, "size": 8}));
    }
    json!(regs)
}

fn calling_conventions() -> Value {
    let xmm: Vec<String> = (0..8).map(|i| format!("XMM{i}_Qa")).collect();
    json!([
        {
            "calling_convention": "__stdcall",
            "integer_parameter_register": PARAMS,
            "float_parameter_register": xmm,
            "return_register": ["RAX", "RDX"],
            "float_return_register": ["XMM0_Qa"],
            "unaffected_register": ["RBX", "RSP", "RBP", "R12", "R13", "R14", "R15"],
            "killed_by_call_register": ["RAX", "RCX", "RDX", "RSI", "RDI", "R8", "R9", "R10", "R11"]
        },
        {
            "calling_convention": "MSABI",
            "integer_parameter_register": ["RCX", "RDX", "R8", "R9"],
            "float_parameter_register": ["XMM0_Qa", "XMM1_Qa", "XMM2_Qa", "XMM3_Qa"],
            "return_register": ["RAX"],
            "float_return_register": ["XMM0_Qa"],
            "unaffected_register": ["RBX", "RBP", "RDI", "RSI", "RSP", "R12", "R13", "R14", "R15"],
            "killed_by_call_register": ["RAX", "RCX", "RDX", "R8", "R9", "R10", "R11"]
        },
        {
            "calling_convention": "syscall",
            "integer_parameter_register": ["RDI", "RSI", "RDX", "R10", "R8", "R9"],
            "float_parameter_register": [],
            "return_register": ["RAX"],
            "float_return_register": [],
            "unaffected_register": ["RBX", "RSP", "RBP", "R12", "R13", "R14", "R15"],
            "killed_by_call_register": ["RAX", "RCX", "R11"]
        }
    ])
}

fn extern_symbol_json(lay: &Layout, idx: usize, e: &Ext, rng: &mut Rng) -> Value {
    let addr = lay.plt_base + 0x10 * idx as u64;
    let a = format!("{addr:08x}");
    let mut args = Vec::new();
    for p in PARAMS.iter().take(e.1) {
        args.push(json!({"var": vreg(p, 8), "location": null, "intent": "INPUT"}));
    }
    if e.2 {
        args.push(json!({"var": vreg("RAX", 8), "location": null, "intent": "OUTPUT"}));
    }
    let mut addresses = vec![a.clone()];
    if rng.chance(1, 4) {
        addresses.push(format!("{:08x}", lay.plt_base + 0x400 + 0x8 * idx as u64));
    }
    json!({
        "tid": tidj(&format!("sub_{a}"), &a),
        "addresses": addresses,
        "name": e.0,
        "calling_convention": "__stdcall",
        "arguments": args,
        "no_return": e.3,
        "has_var_args": e.4,
    })
}

/// Generate a complete input (P-Code JSON + ELF bytes).
pub fn gen_input(rng: &mut Rng, opts: &GenOpts) -> Input {
    let lay = Layout::new_with(opts.kind, opts.kind == ElfKind::Lkm && rng.chance(1, 3));
    let (ro_bytes, ro_offs) = rodata_bytes();
    let ext: &'static [Ext] = if opts.kind == ElfKind::Lkm { EXT_LKM } else { EXT_USER };
    let rng_dup = rng.chance(1, 3);
    let n_funcs = 2 + rng.usize_below(5);
    let mut pg = Pg {
        rng,
        lay: lay.clone(),
        opts: opts.clone(),
        ext,
        used_ext: BTreeSet::new(),
        dup_ext: BTreeSet::new(),
        allow_dup_ext: opts.order_bias && opts.kind != ElfKind::Lkm && rng_dup,
        ro_offs,
        expect: BTreeSet::new(),
        n_funcs,
        loops: 0,
        foreign_targets: Vec::new(),
        landing: Vec::new(),
        features: BTreeSet::new(),
        has_chdir_symbol_calls: false,
    };
    let names = ["main", "handle_request", "parse_config", "init_module", "do_work", "cleanup"];
    let mut subs: Vec<Value> = Vec::new();
    let mut sub_blocks: Vec<Vec<Value>> = Vec::new();
    let mut text_end = lay.text_base;
    let mut n_blocks = 0;
    let mut max_blocks = 0;
    for fidx in 0..n_funcs {
        let (asmd, calls_system, calls_priv) = gen_function(&mut pg, fidx);
        if calls_system && calls_priv {
            pg.expect.insert("CWE426".into());
        }
        text_end = text_end.max(asmd.end_addr);
        n_blocks += asmd.blocks.len();
        max_blocks = max_blocks.max(asmd.blocks.len());
        // export a few labelled blocks as targets for jumps from later functions
        let mut lb = asmd.label_blocks.clone();
        pg.rng.shuffle(&mut lb);
        let take = if pg.opts.order_bias { 4 } else { 2 };
        pg.foreign_targets.extend(lb.into_iter().take(take));
        sub_blocks.push(asmd.blocks);
    }
    // Ghidra lists a block in every function whose body contains it: copy a shared block sometimes.
    if n_funcs >= 2 && pg.rng.chance(1, if pg.opts.order_bias { 2 } else { 6 }) {
        let from = pg.rng.usize_below(n_funcs);
        let to = pg.rng.usize_below(n_funcs);
        if from != to && sub_blocks[from].len() > 2 {
            let bi = 1 + pg.rng.usize_below(sub_blocks[from].len() - 1);
            let b = sub_blocks[from][bi].clone();
            sub_blocks[to].push(b);
            pg.feat("block-listed-in-two-functions");
        }
    }
    for (fidx, mut blocks) in sub_blocks.into_iter().enumerate() {
        if pg.rng.chance(1, 4) && blocks.len() > 2 {
            // "the first block of the array may not be the function entry point"
            let tail = &mut blocks[..];
            pg.rng.shuffle(tail);
            pg.feat("blocks-not-in-address-order");
        }
        let a = pg.fn_addr(fidx);
        let cconv = match pg.rng.below(4) {
            0 => Value::Null,
            1 => json!("unknown"),
            _ => json!("__stdcall"),
        };
        subs.push(json!({"tid": sub_tid(a), "term": {"name": names[fidx], "blocks": blocks, "calling_convention": cconv}}));
    }
    // extern symbols: the used ones plus a few unused
    let mut ext_idx: BTreeSet<usize> = pg.used_ext.clone();
    let extras = pg.rng.usize_below(6);
    for _ in 0..extras {
        ext_idx.insert(pg.rng.usize_below(ext.len()));
    }
    let mut externs: Vec<Value> = Vec::new();
    let mut extern_names = Vec::new();
    for i in &ext_idx {
        extern_names.push(ext[*i].0.to_string());
        externs.push(extern_symbol_json(&lay, *i, &ext[*i], pg.rng));
    }
    for i in pg.dup_ext.clone() {
        // second import of the same name with its own address and TID
        let mut dup = extern_symbol_json(&lay, i, &ext[i], pg.rng);
        let a = format!("{:08x}", lay.plt_base + 0x10 * i as u64 + 8);
        dup["tid"] = tidj(&format!("sub_{a}"), &a);
        dup["addresses"] = json!([a]);
        externs.push(dup);
        pg.features.insert("duplicate-import-name".into());
    }
    pg.rng.shuffle(&mut externs);
    pg.rng.shuffle(&mut subs);
    // program-level expectations
    let has = |n: &str| extern_names.iter().any(|x| x == n);
    if pg.used_ext.contains(&pg.ext_idx("rand").unwrap_or(usize::MAX)) || has("rand") {
        if !has("srand") {
            pg.expect.insert("CWE332".into());
        }
    }
    if pg.features.contains("chroot") && has("chroot") && !has("chdir") {
        pg.expect.insert("CWE243".into());
    }
    if opts.debug_sections {
        pg.expect.insert("CWE215".into());
    }
    let entry = sub_tid(pg.fn_addr(0));
    let image_base_s = format!("{:08x}", lay.image_base);
    let project = json!({
        "program": {
            "tid": tidj(&format!("prog_{image_base_s}"), &image_base_s),
            "term": {
                "subs": subs,
                "extern_symbols": externs,
                "entry_points": [entry],
                "image_base": image_base_s,
            }
        },
        "stack_pointer_register": vreg("RSP", 8),
        "cpu_architecture": "x86_64",
        "register_properties": register_properties(),
        "register_calling_convention": calling_conventions(),
        "datatype_properties": {
            "char_size": 1, "double_size": 8, "float_size": 4, "integer_size": 4, "long_double_size": 16,
            "long_long_size": 8, "long_size": 8, "pointer_size": 8, "short_size": 2
        }
    });
    let text_len = (text_end - lay.text_base).max(0x10);
    let elf = build_elf(&lay, &ro_bytes, &data_bytes(&lay), text_len, opts.debug_sections);
    Input {
        pcode: project.to_string(),
        elf,
        kind: opts.kind,
        loops: pg.loops,
        n_subs: n_funcs,
        n_blocks,
        max_blocks_per_sub: max_blocks,
        expect: pg.expect.clone(),
        features: pg.features.clone(),
        extern_names,
    }
}

/// Fixed minimal input: one function that stores through a NULL pointer and calls strcpy.
/// (Smallest program on which the pointer inference itself reports a NULL dereference.)
pub fn tiny_input() -> Input {
    tiny(false)
}

/// Fixed minimal input for the expression-propagation order dependence: a dependent arithmetic chain of
/// depth 12 on RAX (with a multiplication), `RDX = RAX + 1`, a block boundary, `store RDX`, `malloc(RDX)`.
pub fn tiny_chain_input() -> Input {
    tiny(true)
}

fn tiny(chain: bool) -> Input {
    let mut rng = Rng::new(7);
    let opts = GenOpts { kind: ElfKind::Exec, order_bias: false, trigger_bias: false, debug_sections: false };
    let lay = Layout::new(opts.kind);
    let (ro_bytes, ro_offs) = rodata_bytes();
    let mut pg = Pg {
        rng: &mut rng,
        lay: lay.clone(),
        opts: opts.clone(),
        ext: EXT_USER,
        used_ext: BTreeSet::new(),
        dup_ext: BTreeSet::new(),
        allow_dup_ext: false,
        ro_offs,
        expect: BTreeSet::new(),
        n_funcs: 1,
        loops: 0,
        foreign_targets: Vec::new(),
        landing: Vec::new(),
        features: BTreeSet::new(),
        has_chdir_symbol_calls: false,
    };
    let mut asm = Asm::default();
    let exit_label = asm.label();
    let mut f = Fg { asm, fidx: 0, slots: [SlotK::Int; 6], exit_label, budget: 0, frame: 0x90, calls_system: false, calls_priv: false };
    f.asm.emit(vec![op2("INT_SUB", r8("RSP"), r8("RSP"), vconst(8, 8)), op_store(r8("RSP"), r8("RBP"))]);
    f.mov_rr("RBP", "RSP");
    f.asm.emit(vec![op2("INT_SUB", r8("RSP"), r8("RSP"), vconst(0x90, 8))]);
    let callee = if chain { "malloc" } else { "strcpy" };
    if chain {
        f.ld_slot("RSI", 0);
        f.ld_slot("RCX", 1);
        f.asm.emit(vec![op2("INT_ADD", r8("RAX"), r8("RSI"), r8("RCX"))]);
        for i in 0..12u64 {
            let (mn, src) = match i % 4 {
                0 => ("INT_MULT", vconst(3, 8)),
                1 => ("INT_XOR", r8("RSI")),
                2 => ("INT_ADD", r8("RCX")),
                _ => ("INT_LEFT", vconst(1, 8)),
            };
            f.asm.emit(vec![op2(mn, r8("RAX"), r8("RAX"), src)]);
        }
        f.lea("RDX", "RAX", 1);
        let t = f.asm.tmp(8);
        let t4 = f.asm.tmp(4);
        let mut ops = vec![op2("INT_ADD", t.clone(), r8("RBP"), vconst_i(Fg::slot_off(2), 8)), op_load(t4.clone(), t)];
        ops.extend(f.cmp_ops(t4, vconst(7, 4), 4));
        f.asm.emit(ops);
        let l = f.asm.label();
        f.jz(l);
        f.asm.emit(vec![op1("COPY", r8("R9"), r8("R9"))]);
        f.asm.bind(l);
        f.st_slot(3, "RDX");
        f.mov_rr("RDI", "RDX");
        f.call_named(&mut pg, "malloc");
    } else {
        f.asm.emit(vec![op1("COPY", r8("RAX"), vconst(0, 8))]);
        f.st("RAX", 8, vconst(0x41, 8));
        f.lea("RDI", "RBP", BUF_OFF);
        let a = pg.ro("/bin/sh");
        f.asm.emit(vec![op1("COPY", r8("RSI"), vconst(a, 8))]);
        f.call_named(&mut pg, "strcpy");
    }
    f.asm.bind(exit_label);
    f.epilogue();
    let asmd = assemble(&f.asm, pg.fn_addr(0));
    let idx = pg.ext_idx(callee).unwrap();
    let externs = vec![extern_symbol_json(&lay, idx, &EXT_USER[idx], pg.rng)];
    let image_base_s = format!("{:08x}", lay.image_base);
    let n_blocks = asmd.blocks.len();
    let project = json!({
        "program": {
            "tid": tidj(&format!("prog_{image_base_s}"), &image_base_s),
            "term": {
                "subs": [{"tid": sub_tid(pg.fn_addr(0)), "term": {"name": "main", "blocks": asmd.blocks, "calling_convention": "__stdcall"}}],
                "extern_symbols": externs,
                "entry_points": [sub_tid(pg.fn_addr(0))],
                "image_base": image_base_s,
            }
        },
        "stack_pointer_register": vreg("RSP", 8),
        "cpu_architecture": "x86_64",
        "register_properties": register_properties(),
        "register_calling_convention": calling_conventions(),
        "datatype_properties": {
            "char_size": 1, "double_size": 8, "float_size": 4, "integer_size": 4, "long_double_size": 16,
            "long_long_size": 8, "long_size": 8, "pointer_size": 8, "short_size": 2
        }
    });
    let elf = build_elf(&lay, &ro_bytes, &data_bytes(&lay), (asmd.end_addr - lay.text_base).max(0x10), false);
    Input {
        pcode: project.to_string(),
        elf,
        kind: ElfKind::Exec,
        loops: 0,
        n_subs: 1,
        n_blocks,
        max_blocks_per_sub: n_blocks,
        expect: if chain { BTreeSet::new() } else { ["CWE676".to_string()].into_iter().collect() },
        features: BTreeSet::new(),
        extern_names: vec![callee.into()],
    }
}

// ---- ELF writer ------------------------------------------------------------------------

fn w16(v: &mut Vec<u8>, x: u16) {
    v.extend_from_slice(&x.to_le_bytes());
}
fn w32(v: &mut Vec<u8>, x: u32) {
    v.extend_from_slice(&x.to_le_bytes());
}
fn w64(v: &mut Vec<u8>, x: u64) {
    v.extend_from_slice(&x.to_le_bytes());
}

struct Sec {
    name: &'static str,
    sh_type: u32,
    flags: u64,
    addr: u64,
    bytes: Vec<u8>,
    /// size in memory for NOBITS
    size: u64,
    align: u64,
}

/// Build the ELF file matching `lay`. For Exec/Pie: 4 PT_LOAD segments (+ optional section table);
/// for Lkm: a relocatable object with the alloc sections in layout order.
pub fn build_elf(lay: &Layout, rodata: &[u8], data: &[u8], text_len: u64, debug_sections: bool) -> Vec<u8> {
    const SHF_WRITE: u64 = 1;
    const SHF_ALLOC: u64 = 2;
    const SHF_EXEC: u64 = 4;
    let delta = match lay.kind {
        ElfKind::Exec => 0,
        ElfKind::Pie | ElfKind::Lkm => lay.image_base,
    };
    // pseudo code bytes (never interpreted by the analyzer)
    let text: Vec<u8> = (0..text_len).map(|i| (mix(i, 0x7e) & 0xff) as u8).collect();
    let mut secs: Vec<Sec> = Vec::new();
    // In a kernel module `.rodata` is the first loaded section (offset 0), so any sh_addralign gives the same layout:
    // vary it, including 1 and 0, which both mean "no alignment constraint" (ELF specification).
    let rodata_align = if lay.kind == ElfKind::Lkm { [16u64, 8, 16, 1, 0, 32, 4][((text_len / 4) % 7) as usize] } else { 16 };
    secs.push(Sec { name: ".rodata", sh_type: 1, flags: SHF_ALLOC, addr: lay.rodata_base - delta, bytes: rodata.to_vec(), size: rodata.len() as u64, align: rodata_align });
    let modinfo_sec = || {
        let mut m = b"license=GPL\0author=vmon\0name=gen\0".to_vec();
        m.resize(MODINFO_LEN as usize, 0);
        Sec { name: ".modinfo", sh_type: 1, flags: SHF_ALLOC, addr: 0, bytes: m, size: MODINFO_LEN, align: 8 }
    };
    let this_module_sec = || Sec { name: ".gnu.linkonce.this_module", sh_type: 1, flags: SHF_ALLOC | SHF_WRITE, addr: 0, bytes: vec![0; THIS_MODULE_LEN as usize], size: THIS_MODULE_LEN, align: 64 };
    if lay.kind == ElfKind::Lkm {
        secs.push(if lay.lkm_swapped { this_module_sec() } else { modinfo_sec() });
    }
    secs.push(Sec { name: ".data", sh_type: 1, flags: SHF_ALLOC | SHF_WRITE, addr: lay.data_base - delta, bytes: data.to_vec(), size: data.len() as u64, align: 8 });
    if lay.kind == ElfKind::Lkm {
        secs.push(if lay.lkm_swapped { modinfo_sec() } else { this_module_sec() });
    }
    secs.push(Sec { name: ".bss", sh_type: 8, flags: SHF_ALLOC | SHF_WRITE, addr: lay.bss_base - delta, bytes: Vec::new(), size: BSS_LEN, align: 8 });
    secs.push(Sec { name: ".text", sh_type: 1, flags: SHF_ALLOC | SHF_EXEC, addr: lay.text_base - delta, bytes: text, size: text_len, align: 16 });
    if debug_sections {
        secs.push(Sec { name: ".debug_info", sh_type: 1, flags: 0, addr: 0, bytes: vec![0x11; 24], size: 24, align: 1 });
        secs.push(Sec { name: ".debug_str", sh_type: 1, flags: 0, addr: 0, bytes: b"main\0".to_vec(), size: 5, align: 1 });
    }
    let is_rel = lay.kind == ElfKind::Lkm;
    let with_sections = is_rel || debug_sections;
    let n_ph: u64 = if is_rel { 0 } else { 4 };
    let mut out = vec![0u8; 64 + 56 * n_ph as usize];
    // place section contents
    let mut offs: Vec<u64> = Vec::new();
    for s in &secs {
        while out.len() as u64 % 16 != 0 {
            out.push(0);
        }
        offs.push(out.len() as u64);
        out.extend_from_slice(&s.bytes);
    }
    // section name table + headers
    let mut shoff = 0u64;
    let mut shnum = 0u16;
    let mut shstrndx = 0u16;
    if with_sections {
        let mut strtab = vec![0u8];
        let mut name_off = Vec::new();
        for s in &secs {
            name_off.push(strtab.len() as u32);
            strtab.extend_from_slice(s.name.as_bytes());
            strtab.push(0);
        }
        let shstr_name = strtab.len() as u32;
        strtab.extend_from_slice(b".shstrtab\0");
        while out.len() % 8 != 0 {
            out.push(0);
        }
        let strtab_off = out.len() as u64;
        out.extend_from_slice(&strtab);
        while out.len() % 8 != 0 {
            out.push(0);
        }
        shoff = out.len() as u64;
        let mut sh = vec![0u8; 64]; // null section
        for (i, s) in secs.iter().enumerate() {
            w32(&mut sh, name_off[i]);
            w32(&mut sh, s.sh_type);
            w64(&mut sh, s.flags);
            w64(&mut sh, if is_rel { 0 } else { s.addr });
            w64(&mut sh, offs[i]);
            w64(&mut sh, s.size);
            w32(&mut sh, 0);
            w32(&mut sh, 0);
            w64(&mut sh, s.align);
            w64(&mut sh, 0);
        }
        w32(&mut sh, shstr_name);
        w32(&mut sh, 3);
        w64(&mut sh, 0);
        w64(&mut sh, 0);
        w64(&mut sh, strtab_off);
        w64(&mut sh, strtab.len() as u64);
        w32(&mut sh, 0);
        w32(&mut sh, 0);
        w64(&mut sh, 1);
        w64(&mut sh, 0);
        shnum = secs.len() as u16 + 2;
        shstrndx = shnum - 1;
        out.extend_from_slice(&sh);
    }
    // ELF header
    let mut h = Vec::new();
    h.extend_from_slice(&[0x7f, b'E', b'L', b'F', 2, 1, 1, 0, 0, 0, 0, 0, 0, 0, 0, 0]);
    w16(&mut h, match lay.kind { ElfKind::Exec => 2, ElfKind::Pie => 3, ElfKind::Lkm => 1 });
    w16(&mut h, 62);
    w32(&mut h, 1);
    w64(&mut h, if is_rel { 0 } else { lay.text_base - delta });
    w64(&mut h, if is_rel { 0 } else { 64 });
    w64(&mut h, shoff);
    w32(&mut h, 0);
    w16(&mut h, 64);
    w16(&mut h, if is_rel { 0 } else { 56 });
    w16(&mut h, n_ph as u16);
    w16(&mut h, 64);
    w16(&mut h, shnum);
    w16(&mut h, shstrndx);
    out[..64].copy_from_slice(&h);
    if !is_rel {
        // PT_LOAD: headers+plt (R X), rodata (R), data+bss (RW), text (R X)
        let find = |n: &str| secs.iter().position(|s| s.name == n).unwrap();
        let (ro, da, tx) = (find(".rodata"), find(".data"), find(".text"));
        let hdr_len = 64 + 56 * n_ph;
        let phs: [(u32, u64, u64, u64, u64); 4] = [
            (5, 0, lay.image_base - delta, hdr_len, 0x1000),
            (4, offs[ro], secs[ro].addr, secs[ro].size, secs[ro].size),
            (6, offs[da], secs[da].addr, secs[da].size, secs[da].size + BSS_LEN),
            (5, offs[tx], secs[tx].addr, secs[tx].size, secs[tx].size),
        ];
        let mut p = Vec::new();
        for (flags, off, vaddr, filesz, memsz) in phs {
            w32(&mut p, 1);
            w32(&mut p, flags);
            w64(&mut p, off);
            w64(&mut p, vaddr);
            w64(&mut p, vaddr);
            w64(&mut p, filesz);
            w64(&mut p, memsz);
            w64(&mut p, 0x1000);
        }
        out[64..64 + p.len()].copy_from_slice(&p);
    }
    out
}

// =====================================================================================
// Part 5: running the real CLI
// =====================================================================================

static TMP_COUNTER: AtomicUsize = AtomicUsize::new(0);

/// A directory under the system temp dir that is removed on drop.
pub struct TempDir {
    pub path: PathBuf,
}

impl TempDir {
    pub fn new() -> std::io::Result<TempDir> {
        let n = TMP_COUNTER.fetch_add(1, Ordering::SeqCst);
        let path = std::env::temp_dir().join(format!("vmon-{}-{}", std::process::id(), n));
        std::fs::create_dir_all(&path)?;
        Ok(TempDir { path })
    }
}

impl Drop for TempDir {
    fn drop(&mut self) {
        let _ = std::fs::remove_dir_all(&self.path);
    }
}

/// Everything needed to run the CLI: binary, configuration directory, module list.
pub struct CliEnv {
    pub bin: PathBuf,
    _cfg_dir: TempDir,
    pub xdg: PathBuf,
    /// (name, version) in the order printed by `--module-versions`
    pub modules: Vec<(String, String)>,
    pub module_versions_raw: String,
}

impl CliEnv {
    pub fn version_of(&self, name: &str) -> Option<&str> {
        self.modules.iter().find(|m| m.0 == name).map(|m| m.1.as_str())
    }
    pub fn names(&self) -> Vec<String> {
        self.modules.iter().map(|m| m.0.clone()).collect()
    }
}

fn repo_dir() -> PathBuf {
    std::env::var("VMON_REPO_DIR").map(PathBuf::from).unwrap_or_else(|_| PathBuf::from("/repo"))
}

/// Prepare the CLI environment. `Err(reason)` = the harness cannot run (inconclusive).
pub fn cli_env(cfg: &Cfg) -> Result<CliEnv, String> {
    let bin = cfg.harness_dir.join("target-cli/release/cwe_checker");
    if !bin.is_file() {
        return Err(format!("cli-binary-missing:{}", bin.display()));
    }
    let dir = TempDir::new().map_err(|e| format!("tempdir:{e}"))?;
    let cdir = dir.path.join("cwe_checker");
    std::fs::create_dir_all(&cdir).map_err(|e| format!("tempdir:{e}"))?;
    for f in ["config.json", "lkm_config.json"] {
        std::fs::copy(repo_dir().join("src").join(f), cdir.join(f)).map_err(|e| format!("config-copy:{f}:{e}"))?;
    }
    let xdg = dir.path.clone();
    let out = Command::new(&bin)
        .arg("--module-versions")
        .env("XDG_CONFIG_HOME", &xdg)
        .env("RUST_BACKTRACE", "0")
        .env("RUST_LIB_BACKTRACE", "0")
        .stdin(Stdio::null())
        .output()
        .map_err(|e| format!("cli-spawn:{e}"))?;
    if !out.status.success() {
        return Err(format!("module-versions-failed:{:?}", out.status.code()));
    }
    let raw = String::from_utf8_lossy(&out.stdout).to_string();
    let modules = parse_module_versions(&raw);
    if modules.is_empty() {
        return Err("module-versions-empty".into());
    }
    Ok(CliEnv { bin, _cfg_dir: dir, xdg, modules, module_versions_raw: raw })
}

/// Lines of the form `"NAME": "VERSION"` after the header line.
pub fn parse_module_versions(raw: &str) -> Vec<(String, String)> {
    let mut v = Vec::new();
    for line in raw.lines() {
        let parts: Vec<&str> = line.split('"').collect();
        // "NAME": "VERSION"  ->  ["", NAME, ": ", VERSION, ""]
        if parts.len() == 5 && parts[2].trim() == ":" {
            v.push((parts[1].to_string(), parts[3].to_string()));
        }
    }
    v
}

#[derive(Clone, Debug, Default)]
pub struct RunOpts {
    /// pin the process to this CPU with `taskset -c N`
    pub cpu: Option<usize>,
    pub valgrind: bool,
    pub timeout: Option<Duration>,
}

#[derive(Clone, Debug)]
pub struct CliOut {
    pub exit: Option<i32>,
    pub signal: Option<i32>,
    pub stdout: Vec<u8>,
    pub stderr: String,
    pub timed_out: bool,
    /// CPU time (user + system, all threads) the process had consumed when the watchdog fired
    pub cpu_ms_at_timeout: Option<u64>,
    /// the wall-clock budget of the run
    pub timeout_ms: u64,
    pub spawn_error: Option<String>,
    /// payloads of the `module_run` events, in order
    pub events: Vec<String>,
    pub wall_ms: u64,
}

/// Files of one input written into a fresh temp dir.
pub struct InputFiles {
    pub dir: TempDir,
    pub elf: PathBuf,
    pub pcode: PathBuf,
}

pub fn write_input(pcode: &str, elf: &[u8]) -> Result<InputFiles, String> {
    let dir = TempDir::new().map_err(|e| format!("tempdir:{e}"))?;
    let elf_p = dir.path.join("input.elf");
    let pc_p = dir.path.join("pcode.json");
    std::fs::write(&elf_p, elf).map_err(|e| format!("write:{e}"))?;
    std::fs::write(&pc_p, pcode).map_err(|e| format!("write:{e}"))?;
    Ok(InputFiles { dir, elf: elf_p, pcode: pc_p })
}

/// Run `cwe_checker <elf> --pcode-raw <json> --json --quiet [extra..]` with a watchdog.
/// CPU time (utime + stime of /proc/<pid>/stat, which covers all threads) in milliseconds.
fn proc_cpu_ms(pid: u32) -> Option<u64> {
    let stat = std::fs::read_to_string(format!("/proc/{pid}/stat")).ok()?;
    // the command name (field 2) may contain spaces: continue after the closing parenthesis
    let rest = &stat[stat.rfind(')')? + 1..];
    let f: Vec<&str> = rest.split_whitespace().collect();
    // rest starts with field 3 (state); utime and stime are fields 14 and 15
    let utime: u64 = f.get(11)?.parse().ok()?;
    let stime: u64 = f.get(12)?.parse().ok()?;
    Some((utime + stime) * 10) // USER_HZ is 100 on Linux
}

/// A run stopped by the watchdog counts as non-termination (and not as a slow machine) when the process itself had
/// been computing for at least a third of its wall-clock budget: 20 s of CPU time for inputs whose normal run
/// takes some ten milliseconds.
pub fn hang_by_cpu_time(out: &CliOut) -> bool {
    out.timed_out && matches!(out.cpu_ms_at_timeout, Some(c) if c * 3 >= out.timeout_ms)
}

pub fn run_cli(env: &CliEnv, files: &InputFiles, extra: &[String], opts: &RunOpts) -> CliOut {
    let n = TMP_COUNTER.fetch_add(1, Ordering::SeqCst);
    let ev_path = files.dir.path.join(format!("events-{n}.jsonl"));
    let out_path = files.dir.path.join(format!("stdout-{n}"));
    let err_path = files.dir.path.join(format!("stderr-{n}"));
    let mut argv: Vec<std::ffi::OsString> = Vec::new();
    if let Some(c) = opts.cpu {
        argv.extend(["taskset".into(), "-c".into(), format!("{c}").into()]);
    }
    if opts.valgrind {
        argv.extend(["valgrind".into(), "--error-exitcode=97".into(), "--quiet".into()]);
    }
    argv.push(env.bin.clone().into());
    argv.push(files.elf.clone().into());
    argv.push("--pcode-raw".into());
    argv.push(files.pcode.clone().into());
    argv.push("--json".into());
    argv.push("--quiet".into());
    for e in extra {
        argv.push(e.into());
    }
    let timeout = opts.timeout.unwrap_or(Duration::from_secs(if opts.valgrind { 600 } else { 60 }));
    let mut res = CliOut { exit: None, signal: None, stdout: Vec::new(), stderr: String::new(), timed_out: false, cpu_ms_at_timeout: None, timeout_ms: timeout.as_millis() as u64, spawn_error: None, events: Vec::new(), wall_ms: 0 };
    let (fo, fe) = match (std::fs::File::create(&out_path), std::fs::File::create(&err_path)) {
        (Ok(a), Ok(b)) => (a, b),
        _ => {
            res.spawn_error = Some("cannot create output files".into());
            return res;
        }
    };
    let start = Instant::now();
    let mut cmd = Command::new(&argv[0]);
    cmd.args(&argv[1..])
        .env("XDG_CONFIG_HOME", &env.xdg)
        .env("CWE_CHECKER_VERIF_EVENTS", &ev_path)
        .env("RUST_BACKTRACE", "0")
        .env("RUST_LIB_BACKTRACE", "0")
        .stdin(Stdio::null())
        .stdout(Stdio::from(fo))
        .stderr(Stdio::from(fe));
    let mut child = match cmd.spawn() {
        Ok(c) => c,
        Err(e) => {
            res.spawn_error = Some(format!("{e}"));
            return res;
        }
    };
    let mut sleep_us = 500u64;
    loop {
        match child.try_wait() {
            Ok(Some(status)) => {
                use std::os::unix::process::ExitStatusExt;
                res.exit = status.code();
                res.signal = status.signal();
                break;
            }
            Ok(None) => {
                if start.elapsed() > timeout {
                    res.cpu_ms_at_timeout = proc_cpu_ms(child.id());
                    let _ = child.kill();
                    let _ = child.wait();
                    res.timed_out = true;
                    break;
                }
                std::thread::sleep(Duration::from_micros(sleep_us));
                sleep_us = (sleep_us * 3 / 2).min(20_000);
            }
            Err(e) => {
                res.spawn_error = Some(format!("wait: {e}"));
                let _ = child.kill();
                let _ = child.wait();
                break;
            }
        }
    }
    res.wall_ms = start.elapsed().as_millis() as u64;
    res.stdout = std::fs::read(&out_path).unwrap_or_default();
    res.stderr = String::from_utf8_lossy(&std::fs::read(&err_path).unwrap_or_default()).to_string();
    if let Ok(text) = std::fs::read_to_string(&ev_path) {
        for line in text.lines() {
            if let Ok(v) = serde_json::from_str::<Value>(line) {
                if v["kind"] == json!("module_run") {
                    if let Some(p) = v["payload"].as_str() {
                        res.events.push(p.to_string());
                    }
                }
            }
        }
    }
    let _ = std::fs::remove_file(&out_path);
    let _ = std::fs::remove_file(&err_path);
    let _ = std::fs::remove_file(&ev_path);
    res
}

pub fn hex(bytes: &[u8]) -> String {
    let mut s = String::with_capacity(bytes.len() * 2);
    for b in bytes {
        s.push_str(&format!("{b:02x}"));
    }
    s
}
pub fn unhex(s: &str) -> Vec<u8> {
    (0..s.len() / 2).filter_map(|i| u8::from_str_radix(&s[2 * i..2 * i + 2], 16).ok()).collect()
}

/// The stored form of an input inside a replay case.
pub fn input_case(inp: &Input) -> Value {
    json!({
        "pcode": serde_json::from_str::<Value>(&inp.pcode).unwrap_or(Value::Null),
        "elf_hex": hex(&inp.elf),
        "kind": format!("{:?}", inp.kind),
    })
}
pub fn input_from_case(case: &Value) -> Option<(String, Vec<u8>)> {
    let pcode = case.get("pcode")?;
    if pcode.is_null() {
        return None;
    }
    Some((pcode.to_string(), unhex(case.get("elf_hex")?.as_str()?)))
}

// =====================================================================================
// Part 6: the C21 oracle
// =====================================================================================

/// Byte-wise lexicographic comparison of two JSON strings (independent of the analyzer's derive(Ord)).
fn cmp_str(a: &Value, b: &Value) -> std::cmp::Ordering {
    let (a, b) = (a.as_str().unwrap_or("").as_bytes(), b.as_str().unwrap_or("").as_bytes());
    let n = a.len().min(b.len());
    for i in 0..n {
        if a[i] != b[i] {
            return a[i].cmp(&b[i]);
        }
    }
    a.len().cmp(&b.len())
}
fn cmp_list(a: &Value, b: &Value, elem: &dyn Fn(&Value, &Value) -> std::cmp::Ordering) -> std::cmp::Ordering {
    let empty = Vec::new();
    let (a, b) = (a.as_array().unwrap_or(&empty), b.as_array().unwrap_or(&empty));
    let n = a.len().min(b.len());
    for i in 0..n {
        let c = elem(&a[i], &b[i]);
        if c != std::cmp::Ordering::Equal {
            return c;
        }
    }
    a.len().cmp(&b.len())
}
/// Documented canonical order: name, version, addresses, tids, symbols, other, description.
pub fn cmp_warning(a: &Value, b: &Value) -> std::cmp::Ordering {
    use std::cmp::Ordering::Equal;
    let strs = |x: &Value, y: &Value| cmp_list(x, y, &cmp_str);
    let c = cmp_str(&a["name"], &b["name"]);
    if c != Equal {
        return c;
    }
    let c = cmp_str(&a["version"], &b["version"]);
    if c != Equal {
        return c;
    }
    for key in ["addresses", "tids", "symbols"] {
        let c = strs(&a[key], &b[key]);
        if c != Equal {
            return c;
        }
    }
    let c = cmp_list(&a["other"], &b["other"], &|x, y| cmp_list(x, y, &cmp_str));
    if c != Equal {
        return c;
    }
    cmp_str(&a["description"], &b["description"])
}

/// Warning names that are documented variants of a check: (variant, owning check).
/// cwe_119 documents CWE-125 (out-of-bounds read) and CWE-787 (out-of-bounds write) as its variants,
/// cwe_416 documents CWE-415 (double free).
pub const ALIASES: &[(&str, &str)] = &[("CWE125", "CWE119"), ("CWE787", "CWE119"), ("CWE415", "CWE416")];

pub fn owner_check(name: &str) -> &str {
    ALIASES.iter().find(|a| a.0 == name).map(|a| a.1).unwrap_or(name)
}

/// Known-finding key: the pointer inference (`Memory` module) reports NULL dereferences under the
/// name CWE476 but with its own version string.
pub const KNOWN_MEMORY_CWE476: &str = "c21-memory-module-emits-cwe476-with-own-version";

/// Discriminator of that finding: name CWE476, version == version of module `Memory` (and != version of
/// CWE476), and the description is the fixed text of `pointer_inference::Context::report_null_deref`.
pub fn is_memory_cwe476(env: &CliEnv, w: &Value) -> bool {
    w["name"] == json!("CWE476")
        && env.version_of("Memory").is_some()
        && w["version"].as_str() == env.version_of("Memory")
        && env.version_of("Memory") != env.version_of("CWE476")
        && w["description"].as_str().map(|d| d.starts_with("(NULL Pointer Dereference) Memory access at ") && d.ends_with(" may result in a NULL dereference")).unwrap_or(false)
        && w["symbols"].as_array().map(|a| a.is_empty()).unwrap_or(false)
}

/// A warning produced by `pointer_inference::Context::report_null_deref` (module `Memory`), recognised by its fixed
/// description text and empty symbol list - independent of the version it carries.
pub fn is_memory_null_deref_warning(w: &Value) -> bool {
    w["name"] == json!("CWE476")
        && w["description"].as_str().map(|d| d.starts_with("(NULL Pointer Dereference) Memory access at ") && d.ends_with(" may result in a NULL dereference")).unwrap_or(false)
        && w["symbols"].as_array().map(|a| a.is_empty()).unwrap_or(false)
}

fn is_str_array(v: &Value) -> bool {
    v.as_array().map(|a| a.iter().all(|x| x.is_string())).unwrap_or(false)
}

/// Does stderr look like a Rust panic / abort?
pub fn panic_text(stderr: &str) -> Option<String> {
    for line in stderr.lines() {
        if line.contains("panicked at") || line.contains("RUST_BACKTRACE") || line.contains("stack overflow") || line.contains("memory allocation of") {
            return Some(line.chars().take(160).collect());
        }
    }
    None
}

/// Coarse site of a panic for the signature: "file.rs" of `panicked at path/file.rs:line:col`.
fn panic_sig(stderr: &str) -> String {
    for line in stderr.lines() {
        if let Some(p) = line.find("panicked at ") {
            let rest = &line[p + 12..];
            let loc = rest.split(':').next().unwrap_or("");
            let file = loc.rsplit('/').next().unwrap_or(loc);
            let lineno = rest.split(':').nth(1).unwrap_or("");
            return format!("{file}:{lineno}");
        }
    }
    "unknown".into()
}

/// Judge one finished run. Returns the parsed warnings when the output was a JSON array.
pub fn judge_output(env: &CliEnv, out: &CliOut, what: &str, rep: &mut Report, case: &dyn Fn() -> Value, size: u64) -> Option<Vec<Value>> {
    rep.eval();
    if let Some(e) = &out.spawn_error {
        rep.inconclusive(&format!("spawn-error:{}", e.chars().take(40).collect::<String>()));
        return None;
    }
    if out.timed_out {
        if hang_by_cpu_time(out) && what != "valgrind" {
            rep.violation(
                format!("{what}:no-termination"),
                None,
                format!("the analyzer was still running after {} s and had consumed {} s of CPU time by then (inputs of this size normally finish within some ten milliseconds); stopped by the watchdog", out.timeout_ms / 1000, out.cpu_ms_at_timeout.unwrap_or(0) / 1000),
                case(),
                size,
            );
        } else {
            rep.inconclusive(&format!("watchdog:{what}"));
        }
        return None;
    }
    if let Some(p) = panic_text(&out.stderr) {
        rep.violation(format!("{what}:panic:{}", panic_sig(&out.stderr)), None, format!("the analyzer panicked (exit {:?}, signal {:?}): {p}", out.exit, out.signal), case(), size);
        return None;
    }
    if out.exit != Some(0) {
        let first: String = out.stderr.lines().next().unwrap_or("").chars().take(200).collect();
        if out.signal == Some(9) {
            rep.inconclusive("killed-by-signal-9");
            return None;
        }
        rep.violation(format!("{what}:exit:{:?}:{:?}", out.exit, out.signal), None, format!("expected exit status 0, observed exit {:?} signal {:?}; stderr: {first}", out.exit, out.signal), case(), size);
        return None;
    }
    let parsed: Result<Value, _> = serde_json::from_slice(&out.stdout);
    let arr = match parsed {
        Ok(Value::Array(a)) => a,
        Ok(other) => {
            rep.violation(format!("{what}:stdout-not-array"), None, format!("stdout is JSON but not an array: {}", other.to_string().chars().take(120).collect::<String>()), case(), size);
            return None;
        }
        Err(e) => {
            let head: String = String::from_utf8_lossy(&out.stdout).chars().take(160).collect();
            rep.violation(format!("{what}:stdout-not-json"), None, format!("stdout of --json --quiet does not parse as JSON ({e}); begins with: {head:?}"), case(), size);
            return None;
        }
    };
    for (i, w) in arr.iter().enumerate() {
        let name = w["name"].as_str();
        let bad = |rep: &mut Report, what2: &str, detail: String| {
            rep.violation(format!("{what}:element:{what2}"), None, format!("warning #{i}: {detail}; element = {}", w.to_string().chars().take(300).collect::<String>()), case(), size)
        };
        match name {
            None => bad(rep, "name-missing", "field `name` is not a string".into()),
            Some(n) => match env.version_of(owner_check(n)) {
                None => bad(rep, "unknown-name", format!("name {n:?} is not in the --module-versions list")),
                Some(ver) => {
                    if w["version"].as_str() != Some(ver) {
                        if is_memory_cwe476(env, w) {
                            rep.violation(
                                "element:version:memory-module-cwe476",
                                Some(KNOWN_MEMORY_CWE476),
                                format!("warning #{i} is named CWE476 but carries version {} (the version of module `Memory`); check CWE476 has version {ver:?} in --module-versions; element = {}", w["version"], w.to_string().chars().take(300).collect::<String>()),
                                case(),
                                size,
                            );
                        } else {
                            bad(rep, "version", format!("check {} has version {ver:?} in --module-versions but the warning says {}", owner_check(n), w["version"]));
                        }
                    }
                }
            },
        }
        if !is_str_array(&w["addresses"]) {
            bad(rep, "addresses-type", "`addresses` is not an array of strings".into());
        }
        if !is_str_array(&w["tids"]) {
            bad(rep, "tids-type", "`tids` is not an array of strings".into());
        }
        if !is_str_array(&w["symbols"]) {
            bad(rep, "symbols-type", "`symbols` is not an array of strings".into());
        }
        if !w["other"].as_array().map(|a| a.iter().all(is_str_array)).unwrap_or(false) {
            bad(rep, "other-type", "`other` is not an array of arrays of strings".into());
        }
        if !w["description"].is_string() {
            bad(rep, "description-type", "`description` is not a string".into());
        }
    }
    for i in 1..arr.len() {
        if cmp_warning(&arr[i - 1], &arr[i]) == std::cmp::Ordering::Greater {
            rep.violation(
                format!("{what}:unsorted"),
                None,
                format!(
                    "warnings #{} and #{} are not in canonical order (name, version, addresses, tids, symbols, other, description):\n  {}\n  {}",
                    i - 1,
                    i,
                    arr[i - 1].to_string().chars().take(260).collect::<String>(),
                    arr[i].to_string().chars().take(260).collect::<String>()
                ),
                case(),
                size,
            );
            break;
        }
    }
    Some(arr)
}

/// The three selection modes of C21.
fn selection_args(rng: &mut Rng, env: &CliEnv, mode: usize) -> (String, Vec<String>) {
    let names = env.names();
    match mode {
        0 => ("default".into(), vec![]),
        1 => ("all".into(), vec!["--partial".into(), names.join(",")]),
        _ => {
            let mut pick: Vec<String> = names.iter().filter(|_| rng.chance(1, 3)).cloned().collect();
            // heavy checks and CWE78 more often
            for h in ["CWE78", "CWE119", "CWE416", "CWE476", "CWE252", "CWE337"] {
                if rng.chance(1, 4) && !pick.iter().any(|p| p == h) && names.iter().any(|n| n == h) {
                    pick.push(h.to_string());
                }
            }
            if pick.is_empty() {
                pick.push(rng.pick(&names).clone());
            }
            rng.shuffle(&mut pick);
            ("partial".into(), vec!["--partial".into(), pick.join(",")])
        }
    }
}

pub fn pick_opts(rng: &mut Rng, allow_lkm: bool) -> GenOpts {
    let kind = match rng.below(10) {
        0..=4 => ElfKind::Exec,
        5..=7 => ElfKind::Pie,
        _ if allow_lkm => ElfKind::Lkm,
        _ => ElfKind::Exec,
    };
    GenOpts { kind, order_bias: rng.chance(1, 4), trigger_bias: rng.chance(1, 3), debug_sections: rng.chance(1, 4) }
}

fn dump_dir() -> Option<PathBuf> {
    std::env::var("VMON_C21_DUMP").ok().map(PathBuf::from)
}

fn check_input(env: &CliEnv, inp: &Input, rng: &mut Rng, rep: &mut Report, modes: &[usize], valgrind_timeout: Option<Duration>) {
    let valgrind = valgrind_timeout.is_some();
    let files = match write_input(&inp.pcode, &inp.elf) {
        Ok(f) => f,
        Err(e) => {
            rep.inconclusive(&format!("harness:{e}"));
            return;
        }
    };
    let size = inp.pcode.len() as u64;
    for &mode in modes {
        let (label, mut args) = selection_args(rng, env, mode);
        if inp.kind == ElfKind::Lkm && mode != 0 {
            // on kernel modules only the documented kernel-module subset is selected explicitly
            let lkm: Vec<String> = env.names().into_iter().filter(|n| cwe_checker_lib::checkers::MODULES_LKM.contains(&n.as_str())).collect();
            let mut pick: Vec<String> = lkm.iter().filter(|_| mode == 1 || rng.bool()).cloned().collect();
            if pick.is_empty() {
                pick.push(lkm[0].clone());
            }
            args = vec!["--partial".into(), pick.join(",")];
        }
        let opts = RunOpts { valgrind, timeout: valgrind_timeout, ..Default::default() };
        let out = run_cli(env, &files, &args, &opts);
        let what = if valgrind { "valgrind".to_string() } else { label.clone() };
        let case = || {
            let mut c = input_case(inp);
            c["args"] = json!(args);
            c["valgrind"] = json!(valgrind);
            c
        };
        if valgrind && out.exit == Some(97) {
            rep.eval();
            let first: String = out.stderr.lines().take(6).collect::<Vec<_>>().join(" | ").chars().take(400).collect();
            rep.violation("valgrind:memcheck-error", None, format!("valgrind memcheck reported errors: {first}"), case(), size);
            continue;
        }
        let warnings = judge_output(env, &out, &what, rep, &case, size);
        rep.obs(&format!("run:{what}:{:?}", inp.kind));
        if out.timed_out {
            // do not spend another watchdog period per selection on the same input
            break;
        }
        if let Some(w) = warnings {
            rep.obs_n("warnings-seen", w.len() as u64);
            for x in &w {
                if let Some(n) = x["name"].as_str() {
                    rep.obs(&format!("warning:{n}"));
                }
            }
            if !w.is_empty() && inp.loops >= 1 {
                rep.nontrivial(mix(hash_str(&inp.pcode), hash_str(&args.join(" "))));
            }
            if rep.wants_sample() && !w.is_empty() && mode == 0 {
                rep.sample(json!({
                    "kind": format!("{:?}", inp.kind), "functions": inp.n_subs, "blocks": inp.n_blocks, "loops": inp.loops,
                    "extern_symbols": inp.extern_names, "features": inp.features, "args": args, "exit": out.exit,
                    "warnings": w.iter().map(|x| format!("{} {}", x["name"].as_str().unwrap_or("?"), x["addresses"])).collect::<Vec<_>>(),
                    "wall_ms": out.wall_ms,
                }));
            }
        }
        let bucket = match out.wall_ms {
            0..=49 => "<50ms",
            50..=199 => "<200ms",
            200..=999 => "<1s",
            1000..=9999 => "<10s",
            _ => ">=10s",
        };
        rep.obs(&format!("wall:{bucket}"));
    }
    for f in &inp.features {
        rep.obs(&format!("feature:{f}"));
    }
    rep.obs(&format!("subs:{}", inp.n_subs));
    rep.obs(&format!("max-blocks-per-sub:{}", (inp.max_blocks_per_sub / 10) * 10));
}

/// In-process self check of the generator: the JSON must deserialize as the extractor's project type.
pub fn generator_selfcheck(inp: &Input) -> Result<(), String> {
    serde_json::from_str::<cwe_checker_lib::pcode::Project>(&inp.pcode).map(|_| ()).map_err(|e| format!("{e}"))
}

/// Wall-clock budget of a tier in seconds: cases that would start after it are skipped (counted in
/// `observed["skipped-after-deadline"]`); the sizes below are tuned so that an idle 16-core machine never gets there.
pub fn deadline_s(cfg: &Cfg) -> f64 {
    cfg.tier.pick(42.0, 690.0)
}

fn run(cfg: &Cfg) -> Report {
    let env = match cli_env(cfg) {
        Ok(e) => e,
        Err(reason) => {
            let mut rep = Report::new();
            rep.inconclusive(&reason);
            rep.note(format!("C21 could not run the CLI: {reason}"));
            return rep;
        }
    };
    let shards = cfg.tier.pick(128usize, 1024usize);
    let per_shard = cfg.tier.pick(8usize, 28usize);
    let n_valgrind = cfg.tier.pick(3usize, 20usize);
    let dump = dump_dir();
    let have_valgrind = which("valgrind");
    let mut rep = par_shards(cfg, "c21", shards + n_valgrind, |idx, rng, rep| {
        if idx < n_valgrind {
            // valgrind layer (first, so that it is never starved by the deadline): one input, default selection
            let opts = pick_opts(rng, false);
            let inp = gen_input(rng, &opts);
            if have_valgrind {
                check_input(&env, &inp, rng, rep, &[0], Some(Duration::from_secs(cfg.tier.pick(45, 600))));
            } else {
                rep.inconclusive("valgrind-not-installed");
            }
            return;
        }
        if idx == n_valgrind {
            // the fixed hand-made minimal pair (sanity anchor of the generator/ELF writer)
            let tiny = tiny_input();
            check_input(&env, &tiny, rng, rep, &[0, 1], None);
            if let Ok(dir) = std::env::var("VMON_WRITE_WITNESS") {
                let mut c = input_case(&tiny);
                c["args"] = json!([]);
                c["valgrind"] = json!(false);
                let _ = std::fs::write(PathBuf::from(&dir).join("C21-memory-cwe476-version.json"), serde_json::to_string(&json!({"case": c})).unwrap());
                let mut c = input_case(&tiny);
                c["args"] = json!(["--partial", "Memory"]);
                c["built_to_trigger"] = json!([]);
                let _ = std::fs::write(PathBuf::from(&dir).join("C22-memory-prints-cwe476.json"), serde_json::to_string(&json!({"case": c})).unwrap());
                let mut c = input_case(&tiny_chain_input());
                c["selection"] = json!(["CWE190"]);
                c["runs"] = json!(16);
                let _ = std::fs::write(PathBuf::from(&dir).join("C23-exprprop-hash-order-cwe190.json"), serde_json::to_string(&json!({"case": c})).unwrap());
            }
        }
        for i in 0..per_shard {
            if cfg.elapsed_s() > deadline_s(cfg) {
                rep.obs("skipped-after-deadline");
                continue;
            }
            let opts = pick_opts(rng, true);
            let inp = gen_input(rng, &opts);
            if let Err(e) = generator_selfcheck(&inp) {
                rep.inconclusive("generator-selfcheck-failed");
                rep.note(format!("generated P-Code JSON does not deserialize: {e}"));
                continue;
            }
            if let Some(d) = &dump {
                if idx < n_valgrind + 8 {
                    let _ = std::fs::create_dir_all(d);
                    let _ = std::fs::write(d.join(format!("{idx}-{i}.json")), &inp.pcode);
                    let _ = std::fs::write(d.join(format!("{idx}-{i}.elf")), &inp.elf);
                }
            }
            // default + all + two random subsets
            check_input(&env, &inp, rng, rep, &[0, 1, 2, 2], None);
        }
    });
    if rep.observed.contains_key("skipped-after-deadline") {
        rep.note(format!("the machine was too slow for the full workload: {} inputs skipped after the {} s deadline", rep.observed["skipped-after-deadline"], deadline_s(cfg)));
    }
    rep.extra.insert("module_versions".into(), json!(env.modules));
    rep
}

pub fn which(prog: &str) -> bool {
    std::env::var_os("PATH").map(|p| std::env::split_paths(&p).any(|d| d.join(prog).is_file())).unwrap_or(false)
}

fn replay(cfg: &Cfg, case: &Value) -> Report {
    let mut rep = Report::new();
    let env = match cli_env(cfg) {
        Ok(e) => e,
        Err(reason) => {
            rep.inconclusive(&reason);
            rep.note(format!("cannot run the CLI: {reason}"));
            return rep;
        }
    };
    let Some((pcode, elf)) = input_from_case(case) else {
        rep.note("replay case has no input");
        return rep;
    };
    let files = match write_input(&pcode, &elf) {
        Ok(f) => f,
        Err(e) => {
            rep.note(e);
            return rep;
        }
    };
    let args: Vec<String> = case["args"].as_array().map(|a| a.iter().filter_map(|x| x.as_str().map(String::from)).collect()).unwrap_or_default();
    let valgrind = case["valgrind"].as_bool().unwrap_or(false);
    let out = run_cli(&env, &files, &args, &RunOpts { valgrind, ..Default::default() });
    let c = || case.clone();
    if valgrind && out.exit == Some(97) {
        rep.eval();
        rep.violation("valgrind:memcheck-error", None, format!("valgrind memcheck reported errors: {}", out.stderr.chars().take(400).collect::<String>()), c(), 1);
        return rep;
    }
    let what = if valgrind { "valgrind" } else if args.is_empty() { "default" } else { "partial" };
    judge_output(&env, &out, what, &mut rep, &c, pcode.len() as u64);
    rep
}
