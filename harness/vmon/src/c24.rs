//! C24 — call-sequence queries return exactly the direct internal calls that lie on some
//! call-graph path from the source function to the target function.
//!
//! Monitor shape: hand-built random `Program`s (the generator keeps the list of call sites it
//! planted = ground truth by construction), the real `get_program_callgraph` +
//! `find_call_sequences_to_target` for every (source, target) pair, and an independent oracle:
//! reflexive-transitive closure of the planted internal call relation by Warshall; a planted
//! internal call u->v is expected iff source ->* u and v ->* target.
//!
//! Reading of the statement ("lie on some call-graph path from source to target"): a path is a
//! walk source = f0 -> f1 -> .. -> fk = target (k >= 0) along direct internal calls; functions may
//! repeat (recursion is a real call sequence). For source == target the empty walk contributes no
//! call, so only calls on cycles through the source are expected — the closure formula gives
//! exactly this.

use crate::core::*;
use crate::prng::{mix, Rng};
use cwe_checker_lib::analysis::callgraph::{find_call_sequences_to_target, get_program_callgraph};
use cwe_checker_lib::intermediate_representation::*;
use serde_json::{json, Value};
use std::collections::{BTreeMap, BTreeSet};

pub fn info() -> CheckInfo {
    CheckInfo {
        id: "C24",
        rule: "one evaluation = one (program, source, target) query of find_call_sequences_to_target on the graph of get_program_callgraph, compared (set equality of call TIDs) with the Warshall-closure oracle over the call sites planted by the generator; additionally one evaluation per program comparing nodes/edges of the call graph with the planted subs / internal call sites (with multiplicity). Programs: exhaustive over all digraphs with self loops on 1..=4 functions (one call site per edge) plus random programs with <= 8 subs, parallel call sites, cycles, self calls, extern calls, indirect calls, calls to non-existent TIDs, non-call jumps aimed at function TIDs. non-trivial = the expected set is non-empty; distinct = hash of (planted jump list, source, target)",
        assumptions: &[
            "a call-graph path is a walk along direct internal calls (functions may repeat); for source == target only calls on cycles through the source are expected",
            "input domain: every key of Program::subs equals the tid of the Sub stored under it, jump TIDs are unique, source and target are functions of the program (the query panics by contract otherwise)",
            "a direct call whose target TID is neither a function nor an extern symbol of the program is not an internal call",
            "verdicts on the release profile",
        ],
        run,
        replay,
    }
}

// ---------------------------------------------------------------------------
// Case description (everything needed to rebuild the program)

#[derive(Clone, Debug, PartialEq, Eq, serde::Serialize, serde::Deserialize)]
pub enum JKind {
    /// direct call to internal function `i`
    Call(usize),
    /// direct call to extern symbol `i`
    Ext(usize),
    /// direct call to a TID that is neither a sub nor an extern symbol
    Missing,
    /// indirect call
    Ind,
    /// `Jmp::Branch` whose target happens to be the TID of function `i` (not a call)
    BranchToSub(usize),
    /// `Jmp::CBranch` whose target happens to be the TID of function `i` (not a call)
    CBranchToSub(usize),
    /// `CallOther` with the return target being the TID of function `i` (not a call)
    OtherRetSub(usize),
    /// return
    Ret,
}

#[derive(Clone, Debug, PartialEq, Eq, serde::Serialize, serde::Deserialize)]
pub struct JSpec {
    /// calling function
    pub sub: usize,
    /// block inside the calling function
    pub blk: usize,
    pub kind: JKind,
    /// whether the call has a return target (irrelevant for the query)
    pub ret: bool,
}

#[derive(Clone, Debug, PartialEq, Eq, serde::Serialize, serde::Deserialize)]
pub struct Spec {
    /// names of the functions (determines the order in `Program::subs`)
    pub names: Vec<String>,
    pub n_ext: usize,
    pub jumps: Vec<JSpec>,
}

fn sub_tid(spec: &Spec, i: usize) -> Tid {
    let mut t = Tid::new(format!("sub_{}", spec.names[i]));
    t.address = format!("{:08x}", 0x1000 + 0x100 * i);
    t
}

fn ext_tid(i: usize) -> Tid {
    let mut t = Tid::new(format!("ext_{i}"));
    t.address = format!("{:08x}", 0x9000 + 0x10 * i);
    t
}

fn jmp_tid(idx: usize) -> Tid {
    let mut t = Tid::new(format!("jmp_{idx}"));
    t.address = format!("{:08x}", 0x20000 + 4 * idx);
    t
}

fn var(name: &str) -> Expression {
    Expression::Var(Variable { name: name.to_string(), size: ByteSize::new(8), is_temp: false })
}

/// Build the program described by `spec`.
pub fn build_program(spec: &Spec) -> Term<Program> {
    let n = spec.names.len();
    let mut blocks: Vec<BTreeMap<usize, Vec<Term<Jmp>>>> = vec![BTreeMap::new(); n];
    for (idx, j) in spec.jumps.iter().enumerate() {
        let ret = if j.ret { Some(Tid::new(format!("blk_{}_{}", spec.names[j.sub], j.blk + 1))) } else { None };
        let term = match &j.kind {
            JKind::Call(t) => Jmp::Call { target: sub_tid(spec, *t), return_: ret },
            JKind::Ext(e) => Jmp::Call { target: ext_tid(*e), return_: ret },
            JKind::Missing => Jmp::Call { target: Tid::new(format!("sub_nowhere_{idx}")), return_: ret },
            JKind::Ind => Jmp::CallInd { target: var("RAX"), return_: ret },
            JKind::BranchToSub(t) => Jmp::Branch(sub_tid(spec, *t)),
            JKind::CBranchToSub(t) => Jmp::CBranch { target: sub_tid(spec, *t), condition: var("ZF") },
            JKind::OtherRetSub(t) => Jmp::CallOther { description: "syscall".into(), return_: Some(sub_tid(spec, *t)) },
            JKind::Ret => Jmp::Return(var("RSP")),
        };
        blocks[j.sub].entry(j.blk).or_default().push(Term { tid: jmp_tid(idx), term });
    }
    let mut subs = BTreeMap::new();
    for i in 0..n {
        let mut blks = Vec::new();
        // always one (possibly jump-free) entry block
        if !blocks[i].contains_key(&0) {
            blocks[i].insert(0, Vec::new());
        }
        for (b, jmps) in std::mem::take(&mut blocks[i]) {
            blks.push(Term {
                tid: Tid::new(format!("blk_{}_{}", spec.names[i], b)),
                term: Blk { defs: Vec::new(), jmps, indirect_jmp_targets: Vec::new() },
            });
        }
        let tid = sub_tid(spec, i);
        subs.insert(
            tid.clone(),
            Term { tid, term: Sub { name: spec.names[i].clone(), blocks: blks, calling_convention: None } },
        );
    }
    let mut extern_symbols = BTreeMap::new();
    for e in 0..spec.n_ext {
        let tid = ext_tid(e);
        extern_symbols.insert(
            tid.clone(),
            ExternSymbol {
                tid,
                addresses: vec![format!("{:08x}", 0x9000 + 0x10 * e)],
                name: format!("ext_{e}"),
                calling_convention: None,
                parameters: Vec::new(),
                return_values: Vec::new(),
                no_return: false,
                has_var_args: false,
            },
        );
    }
    Term {
        tid: Tid::new("program"),
        term: Program { subs, extern_symbols, entry_points: BTreeSet::new(), address_base_offset: 0 },
    }
}

/// The planted internal call sites: (caller, callee, index of the jump).
fn planted_edges(spec: &Spec) -> Vec<(usize, usize, usize)> {
    spec.jumps
        .iter()
        .enumerate()
        .filter_map(|(idx, j)| match j.kind {
            JKind::Call(t) => Some((j.sub, t, idx)),
            _ => None,
        })
        .collect()
}

/// Reflexive-transitive closure (Warshall).
fn closure(n: usize, edges: &[(usize, usize, usize)]) -> Vec<Vec<bool>> {
    let mut r = vec![vec![false; n]; n];
    for (i, row) in r.iter_mut().enumerate() {
        row[i] = true;
    }
    for (u, v, _) in edges {
        r[*u][*v] = true;
    }
    for k in 0..n {
        for i in 0..n {
            if r[i][k] {
                for j in 0..n {
                    if r[k][j] {
                        r[i][j] = true;
                    }
                }
            }
        }
    }
    r
}

fn spec_hash(spec: &Spec) -> u64 {
    let mut h = 0x24u64;
    for (i, name) in spec.names.iter().enumerate() {
        h = mix(h, crate::prng::hash_str(name) ^ i as u64);
    }
    for j in &spec.jumps {
        let k = match j.kind {
            JKind::Call(t) => 16 + t as u64,
            JKind::Ext(e) => 32 + e as u64,
            JKind::Missing => 1,
            JKind::Ind => 2,
            JKind::BranchToSub(t) => 48 + t as u64,
            JKind::CBranchToSub(t) => 64 + t as u64,
            JKind::OtherRetSub(t) => 80 + t as u64,
            JKind::Ret => 3,
        };
        h = mix(h, (j.sub as u64) << 16 | (j.blk as u64) << 8 | k);
    }
    h
}

/// Check one program: call-graph shape and (all | the given) source/target pairs.
/// `track`: record coverage information.
pub fn check_spec(spec: &Spec, only_pair: Option<(usize, usize)>, rep: &mut Report, track: bool) {
    let n = spec.names.len();
    let program = build_program(spec);
    let edges = planted_edges(spec);
    let size = (n + spec.jumps.len()) as u64;
    let case = |s: usize, t: usize| json!({"spec": spec, "source": s, "target": t});
    // --- call graph shape
    rep.eval();
    let graph = match guard(|| get_program_callgraph(&program)) {
        Ok(g) => g,
        Err(p) => {
            rep.violation(
                format!("callgraph:panic:{}", panic_site(&p)),
                None,
                format!("get_program_callgraph panicked on a well-formed program: {p}"),
                case(0, 0),
                size,
            );
            return;
        }
    };
    {
        let nodes: Vec<Tid> = graph.node_indices().map(|i| graph[i].clone()).collect();
        let mut sorted = nodes.clone();
        sorted.sort();
        sorted.dedup();
        let expected_nodes: Vec<Tid> = {
            let mut v: Vec<Tid> = (0..n).map(|i| sub_tid(spec, i)).collect();
            v.sort();
            v
        };
        if sorted != expected_nodes || nodes.len() != n {
            rep.violation(
                "callgraph:nodes",
                None,
                format!("call graph nodes {:?} differ from the functions of the program {:?}", nodes.iter().map(|t| t.to_string()).collect::<Vec<_>>(), expected_nodes.iter().map(|t| t.to_string()).collect::<Vec<_>>()),
                case(0, 0),
                size,
            );
        }
        use petgraph::visit::EdgeRef;
        let mut got_edges: Vec<(Tid, Tid, Tid)> =
            graph.edge_references().map(|e| (graph[e.source()].clone(), graph[e.target()].clone(), e.weight().tid.clone())).collect();
        got_edges.sort();
        let mut exp_edges: Vec<(Tid, Tid, Tid)> = edges.iter().map(|(u, v, idx)| (sub_tid(spec, *u), sub_tid(spec, *v), jmp_tid(*idx))).collect();
        exp_edges.sort();
        if got_edges != exp_edges {
            let show = |v: &Vec<(Tid, Tid, Tid)>| v.iter().map(|(a, b, c)| format!("{a}->{b}@{c}")).collect::<Vec<_>>().join(", ");
            rep.violation(
                "callgraph:edges",
                None,
                format!("call graph edges [{}] differ from the direct internal calls of the program [{}]", show(&got_edges), show(&exp_edges)),
                case(0, 0),
                size,
            );
        }
    }
    // --- queries
    let reach = closure(n, &edges);
    let pairs: Vec<(usize, usize)> = match only_pair {
        Some(p) => vec![p],
        None => (0..n).flat_map(|s| (0..n).map(move |t| (s, t))).collect(),
    };
    let h = if track { spec_hash(spec) } else { 0 };
    for (s, t) in pairs {
        if s >= n || t >= n {
            continue;
        }
        rep.eval();
        let expected: BTreeSet<Tid> = edges.iter().filter(|(u, v, _)| reach[s][*u] && reach[*v][t]).map(|(_, _, idx)| jmp_tid(*idx)).collect();
        let (st, tt) = (sub_tid(spec, s), sub_tid(spec, t));
        match guard(|| find_call_sequences_to_target(&graph, &st, &tt)) {
            Err(p) => rep.violation(
                format!("query:panic:{}", panic_site(&p)),
                None,
                format!("find_call_sequences_to_target({st}, {tt}) panicked: {p}"),
                case(s, t),
                size,
            ),
            Ok(got) => {
                if got != expected {
                    let missing: Vec<String> = expected.difference(&got).map(|t| t.to_string()).collect();
                    let surplus: Vec<String> = got.difference(&expected).map(|t| t.to_string()).collect();
                    let what = match (missing.is_empty(), surplus.is_empty()) {
                        (false, true) => "missing-call",
                        (true, false) => "surplus-call",
                        _ => "missing-and-surplus",
                    };
                    let class = if s == t { "source=target" } else { "source!=target" };
                    rep.violation(
                        format!("query:{what}:{class}"),
                        None,
                        format!(
                            "find_call_sequences_to_target({st} -> {tt}): expected calls on source->target walks {:?}, observed {:?}; missing {missing:?}, surplus {surplus:?}",
                            expected.iter().map(|t| t.to_string()).collect::<Vec<_>>(),
                            got.iter().map(|t| t.to_string()).collect::<Vec<_>>()
                        ),
                        case(s, t),
                        size,
                    );
                }
                if track {
                    if !expected.is_empty() {
                        rep.nontrivial(mix(h, (s as u64) << 8 | t as u64));
                    }
                    let class = if expected.is_empty() {
                        if reach[s][t] {
                            "expected:empty(source=target,no cycle)"
                        } else {
                            "expected:empty(unreachable)"
                        }
                    } else if expected.len() == edges.len() {
                        "expected:all-internal-calls"
                    } else {
                        "expected:proper-nonempty-subset"
                    };
                    rep.obs(class);
                    if s == t && !expected.is_empty() {
                        rep.obs("source=target on a cycle");
                    }
                    if rep.wants_sample() && !expected.is_empty() && expected.len() < edges.len() && n >= 4 && s != t && spec.jumps.iter().any(|j| !matches!(j.kind, JKind::Call(_))) {
                        rep.sample(json!({
                            "planted_internal_calls": edges.iter().map(|(u,v,i)| format!("{}->{} @jmp_{i}", spec.names[*u], spec.names[*v])).collect::<Vec<_>>(),
                            "other_jumps": spec.jumps.iter().filter(|j| !matches!(j.kind, JKind::Call(_))).map(|j| format!("{}:{:?}", spec.names[j.sub], j.kind)).collect::<Vec<_>>(),
                            "source": spec.names[s], "target": spec.names[t],
                            "expected": expected.iter().map(|t| t.to_string()).collect::<Vec<_>>(),
                            "observed": got.iter().map(|t| t.to_string()).collect::<Vec<_>>(),
                        }));
                    }
                }
            }
        }
    }
    if track {
        rep.obs(&format!("subs:{n}"));
        let mut pairs_seen = BTreeSet::new();
        let mut parallel = false;
        let mut selfcall = false;
        for (u, v, _) in &edges {
            if !pairs_seen.insert((*u, *v)) {
                parallel = true;
            }
            if u == v {
                selfcall = true;
            }
        }
        let cyclic = (0..n).any(|i| (0..n).any(|j| i != j && reach[i][j] && reach[j][i]));
        if parallel {
            rep.obs("program:parallel-call-sites");
        }
        if selfcall {
            rep.obs("program:self-call");
        }
        if cyclic {
            rep.obs("program:cycle(len>=2)");
        }
        for j in &spec.jumps {
            let k = match j.kind {
                JKind::Call(_) => "jump:internal-call",
                JKind::Ext(_) => "jump:extern-call",
                JKind::Missing => "jump:call-to-missing-tid",
                JKind::Ind => "jump:indirect-call",
                JKind::BranchToSub(_) => "jump:branch-to-sub-tid",
                JKind::CBranchToSub(_) => "jump:cbranch-to-sub-tid",
                JKind::OtherRetSub(_) => "jump:callother-ret-sub-tid",
                JKind::Ret => "jump:return",
            };
            rep.obs(k);
        }
    }
}

fn random_names(rng: &mut Rng, n: usize) -> Vec<String> {
    // names decide the BTreeMap order of the subs and thereby the node indices
    let mut pool: Vec<String> = ["a", "b", "c", "d", "e", "f", "g", "h", "main", "init", "z9", "A0"].iter().map(|s| s.to_string()).collect();
    rng.shuffle(&mut pool);
    pool.truncate(n);
    pool
}

fn random_spec(rng: &mut Rng) -> Spec {
    let n = rng.range_usize(1, 8);
    let names = random_names(rng, n);
    let n_ext = rng.usize_below(4);
    // shape class
    let density = *rng.pick(&[1usize, 1, 2, 2, 3, 5]);
    let n_jumps = rng.range_usize(0, (n * density).min(28));
    let mut jumps = Vec::new();
    // optional backbone: a chain or a ring so that long paths exist
    let backbone = rng.below(4);
    if n >= 2 && backbone <= 1 {
        let mut order: Vec<usize> = (0..n).collect();
        rng.shuffle(&mut order);
        let len = rng.range_usize(2, n);
        for w in order[..len].windows(2) {
            jumps.push(JSpec { sub: w[0], blk: rng.usize_below(3), kind: JKind::Call(w[1]), ret: rng.bool() });
        }
        if backbone == 1 {
            jumps.push(JSpec { sub: order[len - 1], blk: rng.usize_below(3), kind: JKind::Call(order[0]), ret: rng.bool() });
        }
    }
    for _ in 0..n_jumps {
        let sub = rng.usize_below(n);
        let blk = rng.usize_below(3);
        let kind = match rng.below(20) {
            0..=10 => JKind::Call(rng.usize_below(n)),
            11 => JKind::Call(sub), // self call
            12 => {
                // parallel to an existing call if there is one
                let existing: Vec<(usize, usize)> = jumps.iter().filter_map(|j: &JSpec| if let JKind::Call(t) = j.kind { Some((j.sub, t)) } else { None }).collect();
                if existing.is_empty() {
                    JKind::Call(rng.usize_below(n))
                } else {
                    let (u, v) = *rng.pick(&existing);
                    jumps.push(JSpec { sub: u, blk: rng.usize_below(3), kind: JKind::Call(v), ret: rng.bool() });
                    continue;
                }
            }
            13 | 14 if n_ext > 0 => JKind::Ext(rng.usize_below(n_ext)),
            13 | 14 => JKind::Missing,
            15 => JKind::Missing,
            16 => JKind::Ind,
            17 => JKind::BranchToSub(rng.usize_below(n)),
            18 => {
                if rng.bool() {
                    JKind::CBranchToSub(rng.usize_below(n))
                } else {
                    JKind::OtherRetSub(rng.usize_below(n))
                }
            }
            _ => JKind::Ret,
        };
        jumps.push(JSpec { sub, blk, kind, ret: rng.bool() });
    }
    rng.shuffle(&mut jumps);
    Spec { names, n_ext, jumps }
}

/// Exhaustive part: all digraphs (with self loops) on `n` functions, adjacency bits `lo..hi`.
fn exhaustive_chunk(n: usize, lo: u64, hi: u64, rep: &mut Report) {
    let names: Vec<String> = (0..n).map(|i| format!("f{i}")).collect();
    for bits in lo..hi {
        let mut jumps = Vec::new();
        for u in 0..n {
            for v in 0..n {
                if bits >> (u * n + v) & 1 == 1 {
                    jumps.push(JSpec { sub: u, blk: v % 2, kind: JKind::Call(v), ret: true });
                }
            }
        }
        let spec = Spec { names: names.clone(), n_ext: 0, jumps };
        check_spec(&spec, None, rep, bits % 64 == 0);
        // count every query with a non-empty answer as a distinct case, cheaply
        if bits % 64 != 0 {
            let edges = planted_edges(&spec);
            let reach = closure(n, &edges);
            for s in 0..n {
                for t in 0..n {
                    if edges.iter().any(|(u, v, _)| reach[s][*u] && reach[*v][t]) {
                        rep.nontrivial(mix(0xE0 + n as u64, bits << 8 | (s as u64) << 4 | t as u64));
                    }
                }
            }
        }
    }
}

fn run(cfg: &Cfg) -> Report {
    // shards 0..EXH: exhaustive chunks; rest: random programs
    let mut exh: Vec<(usize, u64, u64)> = vec![(1, 0, 2), (2, 0, 16), (3, 0, 512)];
    let chunks4 = 32u64;
    for c in 0..chunks4 {
        exh.push((4, c * (65536 / chunks4), (c + 1) * (65536 / chunks4)));
    }
    let random_shards = 96usize;
    let per_shard = cfg.tier.pick(1_500u64, 40_000u64);
    let mut rep = par_shards(cfg, "c24", exh.len() + random_shards, |idx, rng, rep| {
        if idx < exh.len() {
            let (n, lo, hi) = exh[idx];
            exhaustive_chunk(n, lo, hi, rep);
        } else {
            for _ in 0..per_shard {
                let spec = random_spec(rng);
                check_spec(&spec, None, rep, true);
            }
        }
    });
    rep.exhaustive_parts.push("all digraphs with self loops on 1..=4 functions (one call site per edge), all (source,target) pairs".into());
    rep
}

fn replay(_cfg: &Cfg, case: &Value) -> Report {
    let mut rep = Report::new();
    match serde_json::from_value::<Spec>(case["spec"].clone()) {
        Ok(spec) => {
            let n = spec.names.len();
            let ok = spec.jumps.iter().all(|j| {
                j.sub < n
                    && match j.kind {
                        JKind::Call(t) | JKind::BranchToSub(t) | JKind::CBranchToSub(t) | JKind::OtherRetSub(t) => t < n,
                        _ => true,
                    }
            });
            if !ok || n == 0 {
                rep.note("replay case refers to functions outside the program");
                return rep;
            }
            let pair = match (case["source"].as_u64(), case["target"].as_u64()) {
                (Some(s), Some(t)) => Some((s as usize, t as usize)),
                _ => None,
            };
            check_spec(&spec, pair, &mut rep, true);
        }
        Err(e) => rep.note(format!("cannot parse replay case: {e}")),
    }
    rep
}
