//! C22 — check selection runs exactly the requested checks.
//!
//! The real CLI (feature `verif`) appends one `module_run` event per executed check to the file named
//! by `CWE_CHECKER_VERIF_EVENTS` (hook H2). The oracle compares that event list with the selection
//! semantics of the statement, written down here independently of `main.rs`.

use crate::c21::*;
use crate::core::*;
use crate::prng::{hash_str, mix, Rng};
use serde_json::{json, Value};
use std::collections::{BTreeMap, BTreeSet};

pub fn info() -> CheckInfo {
    CheckInfo {
        id: "C22",
        rule: "generated programs built to trigger several syntactic checks at once (CWE676 strcpy/memcpy/.., CWE467 size 8, CWE560 umask, CWE782 ioctl, CWE332 rand without srand, CWE243 chroot without chdir, CWE426 setuid+system, CWE367 access/open, CWE215 .debug sections) as ET_EXEC / PIE / kernel-module ELF, run through the real CLI with default selection, random --partial lists (shuffled, with repeated names and empty items), names that are not checks (incl. proper prefixes of check names) and --module-versions. Oracle on the module_run events of hook H2: partial => executed multiset == set of requested names, each once; default => every name of --module-versions except CWE78; kernel module => names of --module-versions that are in MODULES_LKM; every warning's owning check (CWE125/CWE787 -> CWE119, CWE415 -> CWE416) is in the executed set; every executed check the input is built to trigger printed >= 1 warning; a list containing a non-check either is rejected (non-zero exit) or executes nothing that was not listed; --module-versions lists each get_modules() name exactly once. non-trivial = a run with >= 1 event and >= 1 warning; distinct = hash of (P-Code JSON, argument list)",
        assumptions: &[
            "hook H2 (feature verif) reports every executed check before it runs; zero events over the whole run = inconclusive",
            "on kernel modules --partial lists are restricted to the checks that have a section in the shipped lkm_config.json (kernel-module subset plus Memory); other checks panic on their missing configuration",
            "the triggers are purely syntactic patterns whose detection does not depend on analysis precision (documented 'how the check works' sections)",
            "whether a list with an unknown name must be rejected is not demanded: rejected/accepted is recorded; only executing unlisted checks is a violation",
        ],
        run,
        replay,
    }
}

/// Known-finding key: with `--partial Memory` (CWE476 not selected) the pointer inference prints warnings named CWE476.
pub const KNOWN_MEMORY_CWE476_SELECTION: &str = "c22-memory-module-prints-cwe476-warnings";

#[derive(Clone, Debug)]
pub enum Expect {
    /// exactly these names, each once
    Exactly(BTreeSet<String>),
    /// list contains a non-check: rejection is fine, otherwise nothing outside `listed` may run
    Invalid(BTreeSet<String>),
}

/// Checks that have a section in the shipped `lkm_config.json`.
fn lkm_configured_names(env: &CliEnv) -> BTreeSet<String> {
    let keys: BTreeSet<String> = std::fs::read_to_string("/repo/src/lkm_config.json")
        .ok()
        .and_then(|t| serde_json::from_str::<Value>(&t).ok())
        .and_then(|v| v.as_object().map(|o| o.keys().cloned().collect()))
        .unwrap_or_default();
    let mut names: BTreeSet<String> = env.names().into_iter().filter(|n| keys.contains(n)).collect();
    names.extend(lkm_names(env));
    names
}

fn lkm_names(env: &CliEnv) -> BTreeSet<String> {
    env.names().into_iter().filter(|n| cwe_checker_lib::checkers::MODULES_LKM.contains(&n.as_str())).collect()
}

/// Judge one run's events and warnings.
pub fn judge_selection(_env: &CliEnv, out: &CliOut, expect: &Expect, built_to_trigger: &BTreeSet<String>, what: &str, rep: &mut Report, case: &dyn Fn() -> Value, size: u64) -> bool {
    rep.eval();
    if out.spawn_error.is_some() || out.timed_out {
        rep.inconclusive(if out.timed_out { "watchdog" } else { "spawn-error" });
        return false;
    }
    let mut counts: BTreeMap<String, usize> = BTreeMap::new();
    for e in &out.events {
        *counts.entry(e.clone()).or_insert(0) += 1;
    }
    let executed: BTreeSet<String> = counts.keys().cloned().collect();
    match expect {
        Expect::Invalid(listed) => {
            if out.exit != Some(0) {
                rep.obs("invalid-name:rejected");
                if !executed.is_empty() {
                    rep.obs("invalid-name:rejected-after-running-checks");
                }
                return false;
            }
            rep.obs("invalid-name:accepted");
            let extra: Vec<&String> = executed.difference(listed).collect();
            if !extra.is_empty() {
                rep.violation(format!("{what}:executed-unlisted"), None, format!("the list contains a name that is not a check and the run executed checks that were not listed: {extra:?}; listed = {listed:?}, executed = {:?}", out.events), case(), size);
            }
            return false;
        }
        Expect::Exactly(want) => {
            let missing: Vec<&String> = want.difference(&executed).collect();
            let extra: Vec<&String> = executed.difference(want).collect();
            // a run that died cannot be blamed for checks it did not reach, but what it did execute is judged
            if out.exit == Some(0) && !missing.is_empty() {
                rep.violation(format!("{what}:not-executed"), None, format!("expected executed checks {want:?}; not executed: {missing:?}; events = {:?}", out.events), case(), size);
            }
            if !extra.is_empty() {
                rep.violation(format!("{what}:executed-unrequested"), None, format!("expected executed checks {want:?}; additionally executed: {extra:?}; events = {:?}", out.events), case(), size);
            }
            if let Some((n, c)) = counts.iter().find(|(_, c)| **c > 1) {
                rep.violation(format!("{what}:executed-twice"), None, format!("check {n} was executed {c} times; events = {:?}", out.events), case(), size);
            }
            if out.exit != Some(0) {
                rep.inconclusive(&format!("run-failed:{what}:exit-{:?}", out.exit));
                return false;
            }
        }
    }
    // warnings only from executed checks, and triggers honoured
    let Ok(Value::Array(ws)) = serde_json::from_slice::<Value>(&out.stdout) else {
        rep.inconclusive("stdout-not-a-json-array");
        return false;
    };
    let mut warned: BTreeSet<String> = BTreeSet::new();
    for w in &ws {
        let Some(n) = w["name"].as_str() else { continue };
        let owner = owner_check(n).to_string();
        if !executed.contains(&owner) {
            if executed.contains("Memory") && is_memory_null_deref_warning(w) {
                rep.violation("warning-of-unselected-check:memory-module-cwe476", Some(KNOWN_MEMORY_CWE476_SELECTION), format!("check CWE476 was not executed (executed: {executed:?}) but a warning named CWE476 was printed by module Memory: {}", w.to_string().chars().take(240).collect::<String>()), case(), size);
            } else {
                rep.violation(format!("{what}:warning-of-unselected-check"), None, format!("warning named {n} printed although check {owner} was not executed (executed: {executed:?}): {}", w.to_string().chars().take(240).collect::<String>()), case(), size);
            }
        }
        warned.insert(owner);
    }
    for t in built_to_trigger {
        if executed.contains(t) {
            if warned.contains(t) {
                rep.obs(&format!("trigger-honoured:{t}"));
            } else {
                rep.violation(format!("{what}:no-warning-from:{t}"), None, format!("the input is built to trigger {t} and {t} was executed, but no {t} warning was printed ({} warnings of {:?})", ws.len(), warned), case(), size);
            }
        }
    }
    !out.events.is_empty() && !ws.is_empty()
}

fn gen_opts(rng: &mut Rng) -> GenOpts {
    let kind = match rng.below(10) {
        0..=3 => ElfKind::Exec,
        4..=6 => ElfKind::Pie,
        _ => ElfKind::Lkm,
    };
    GenOpts { kind, order_bias: false, trigger_bias: true, debug_sections: rng.bool() }
}

fn random_subset(rng: &mut Rng, pool: &[String]) -> Vec<String> {
    let p = *rng.pick(&[2u64, 3, 5]);
    let mut v: Vec<String> = pool.iter().filter(|_| rng.chance(1, p)).cloned().collect();
    if v.is_empty() {
        v.push(rng.pick(pool).clone());
    }
    rng.shuffle(&mut v);
    v
}

fn check_input(env: &CliEnv, inp: &Input, rng: &mut Rng, rep: &mut Report) {
    let files = match write_input(&inp.pcode, &inp.elf) {
        Ok(f) => f,
        Err(e) => {
            rep.inconclusive(&format!("harness:{e}"));
            return;
        }
    };
    let size = inp.pcode.len() as u64;
    let all: BTreeSet<String> = env.names().into_iter().collect();
    let lkm = inp.kind == ElfKind::Lkm;
    // On kernel modules every check that has a section in the shipped lkm_config.json can be requested with --partial
    // (that is the kernel-module subset plus e.g. `Memory`); checks without a section there panic on their config (user error).
    let pool: Vec<String> = if lkm { lkm_configured_names(env).into_iter().collect() } else { env.names() };
    let mut runs: Vec<(String, Vec<String>, Expect)> = Vec::new();
    // default selection
    let default_expect: BTreeSet<String> = if lkm { lkm_names(env) } else { all.iter().filter(|n| n.as_str() != "CWE78").cloned().collect() };
    runs.push((if lkm { "default-lkm".into() } else { "default".into() }, vec![], Expect::Exactly(default_expect)));
    // two partial lists
    for _ in 0..2 {
        let mut list = random_subset(rng, &pool);
        let want: BTreeSet<String> = list.iter().cloned().collect();
        if rng.chance(1, 4) {
            let dup = rng.pick(&list).clone();
            list.push(dup);
        }
        let mut arg = list.join(",");
        if rng.chance(1, 6) {
            arg.push(',');
        }
        runs.push((if lkm { "partial-lkm".into() } else { "partial".into() }, vec!["--partial".into(), arg], Expect::Exactly(want)));
    }
    // a list with a non-check (sometimes)
    if rng.chance(1, 3) {
        let mut list = random_subset(rng, &pool);
        let listed: BTreeSet<String> = list.iter().cloned().collect();
        let victim = rng.pick(&pool).clone();
        let bogus = match rng.below(4) {
            0 => victim[..victim.len() - 1].to_string(),
            1 => format!("{victim}0"),
            2 => victim.to_lowercase(),
            _ => "CWE457".to_string(),
        };
        if !all.contains(&bogus) && !bogus.is_empty() {
            let at = rng.usize_below(list.len() + 1);
            list.insert(at, bogus);
            runs.push(("invalid".into(), vec!["--partial".into(), list.join(",")], Expect::Invalid(listed)));
        }
    }
    for (what, args, expect) in runs {
        let out = run_cli(env, &files, &args, &RunOpts::default());
        let case = || {
            let mut c = input_case(inp);
            c["args"] = json!(args);
            c["built_to_trigger"] = json!(inp.expect);
            c
        };
        rep.obs_n("events-seen", out.events.len() as u64);
        rep.obs(&format!("run:{what}"));
        if judge_selection(env, &out, &expect, &inp.expect, &what, rep, &case, size) {
            rep.nontrivial(mix(hash_str(&inp.pcode), hash_str(&args.join(" "))));
            if rep.wants_sample() && what.starts_with("partial") {
                rep.sample(json!({"kind": format!("{:?}", inp.kind), "args": args, "events": out.events, "built_to_trigger": inp.expect, "extern_symbols": inp.extern_names,
                    "warning_names": serde_json::from_slice::<Value>(&out.stdout).ok().and_then(|v| v.as_array().map(|a| a.iter().filter_map(|w| w["name"].as_str().map(String::from)).collect::<BTreeSet<_>>()))}));
            }
        }
    }
    for t in &inp.expect {
        rep.obs(&format!("built-to-trigger:{t}"));
    }
}

/// `--module-versions` lists each name returned by get_modules() exactly once.
fn check_module_versions(env: &CliEnv, rep: &mut Report) {
    rep.eval();
    let lib: Vec<String> = cwe_checker_lib::get_modules().iter().map(|m| m.name.to_string()).collect();
    let case = || json!({"kind": "module-versions"});
    for n in &lib {
        let c = env.modules.iter().filter(|m| &m.0 == n).count();
        if c != 1 {
            rep.violation("module-versions:count", None, format!("get_modules() names {n} but --module-versions lists it {c} times; output = {:?}", env.module_versions_raw), case(), 1);
        }
    }
    for m in &env.modules {
        if !lib.contains(&m.0) {
            rep.violation("module-versions:unknown", None, format!("--module-versions lists {} which get_modules() does not return", m.0), case(), 1);
        }
    }
    let lib_set: BTreeSet<&String> = lib.iter().collect();
    if lib_set.len() != lib.len() {
        rep.violation("module-versions:duplicate-in-get_modules", None, format!("get_modules() returns a name twice: {lib:?}"), case(), 1);
    }
    rep.obs("module-versions-checked");
}

/// `--module-versions` combined with other options (a `--partial` list, `--quiet`, `--json`) still lists every known
/// check exactly once (statement: "the module-version listing names every known check once").
fn check_module_versions_with_options(env: &CliEnv, rng: &mut Rng, rep: &mut Report) {
    let lib: Vec<String> = cwe_checker_lib::get_modules().iter().map(|m| m.name.to_string()).collect();
    let mut names = lib.clone();
    rng.shuffle(&mut names);
    names.truncate(rng.range_usize(0, 3));
    let mut extra: Vec<String> = Vec::new();
    match rng.below(4) {
        0 => extra.extend(["--partial".to_string(), names.join(",")]),
        1 => extra.extend(["--partial".to_string(), names.join(","), "--json".to_string()]),
        2 => extra.push("--quiet".to_string()),
        _ => extra.push("--json".to_string()),
    }
    let out = std::process::Command::new(&env.bin)
        .arg("--module-versions")
        .args(&extra)
        .env("XDG_CONFIG_HOME", &env.xdg)
        .env("RUST_BACKTRACE", "0")
        .env("RUST_LIB_BACKTRACE", "0")
        .stdin(std::process::Stdio::null())
        .output();
    rep.eval();
    let case = || json!({"kind": "module-versions-with-options", "extra": extra});
    let Ok(out) = out else {
        rep.inconclusive("module-versions:spawn-failed");
        return;
    };
    if !out.status.success() {
        // rejecting the combination is not covered by the statement; only a listing that is printed is judged
        rep.obs("module-versions-with-options:rejected");
        return;
    }
    let listed = parse_module_versions(&String::from_utf8_lossy(&out.stdout));
    for n in &lib {
        let c = listed.iter().filter(|m| &m.0 == n).count();
        if c != 1 {
            rep.violation("module-versions:with-options:count", None, format!("`--module-versions {}` lists check {n} {c} times (expected once); listed: {:?}", extra.join(" "), listed.iter().map(|m| m.0.clone()).collect::<Vec<_>>()), case(), 1);
            break;
        }
    }
    rep.obs("module-versions-with-options-checked");
    rep.nontrivial(hash_str(&extra.join(" ")) ^ 0x4d56);
}

fn run(cfg: &Cfg) -> Report {
    let env = match cli_env(cfg) {
        Ok(e) => e,
        Err(reason) => {
            let mut rep = Report::new();
            rep.inconclusive(&reason);
            return rep;
        }
    };
    let shards = cfg.tier.pick(128usize, 1024usize);
    let per_shard = cfg.tier.pick(8usize, 30usize);
    let mut rep = par_shards(cfg, "c22", shards, |idx, rng, rep| {
        if idx == 0 {
            check_module_versions(&env, rep);
        }
        if idx % 8 == 0 {
            check_module_versions_with_options(&env, rng, rep);
        }
        for _ in 0..per_shard {
            if cfg.elapsed_s() > deadline_s(cfg) {
                rep.obs("skipped-after-deadline");
                continue;
            }
            let opts = gen_opts(rng);
            let inp = gen_input(rng, &opts);
            check_input(&env, &inp, rng, rep);
        }
    });
    if rep.observed.get("events-seen").copied().unwrap_or(0) == 0 {
        rep.inconclusive("no-module_run-events-observed(hook-not-reached)");
        rep.nontrivial.clear();
    }
    if rep.observed.contains_key("skipped-after-deadline") {
        rep.note(format!("machine too slow for the full workload: {} inputs skipped after the deadline", rep.observed["skipped-after-deadline"]));
    }
    rep.extra.insert("module_versions".into(), json!(env.modules));
    rep
}

fn replay(cfg: &Cfg, case: &Value) -> Report {
    let mut rep = Report::new();
    let env = match cli_env(cfg) {
        Ok(e) => e,
        Err(reason) => {
            rep.inconclusive(&reason);
            return rep;
        }
    };
    if case["kind"] == json!("module-versions-with-options") {
        let mut rng = Rng::derive(cfg.seed, "c22-mv-replay", 0);
        for _ in 0..40 {
            check_module_versions_with_options(&env, &mut rng, &mut rep);
        }
        return rep;
    }
    if case["kind"] == json!("module-versions") {
        check_module_versions(&env, &mut rep);
        return rep;
    }
    let Some((pcode, elf)) = input_from_case(case) else {
        rep.note("replay case has no input");
        return rep;
    };
    let Ok(files) = write_input(&pcode, &elf) else {
        rep.note("cannot write input files");
        return rep;
    };
    let args: Vec<String> = case["args"].as_array().map(|a| a.iter().filter_map(|x| x.as_str().map(String::from)).collect()).unwrap_or_default();
    let built: BTreeSet<String> = case["built_to_trigger"].as_array().map(|a| a.iter().filter_map(|x| x.as_str().map(String::from)).collect()).unwrap_or_default();
    let lkm = case["kind"] == json!("Lkm");
    let all: BTreeSet<String> = env.names().into_iter().collect();
    let expect = if args.len() >= 2 {
        let listed: Vec<String> = args[1].split(',').filter(|s| !s.is_empty()).map(String::from).collect();
        if listed.iter().all(|n| all.contains(n)) {
            Expect::Exactly(listed.into_iter().collect())
        } else {
            Expect::Invalid(listed.into_iter().filter(|n| all.contains(n)).collect())
        }
    } else if lkm {
        Expect::Exactly(lkm_names(&env))
    } else {
        Expect::Exactly(all.iter().filter(|n| n.as_str() != "CWE78").cloned().collect())
    };
    let out = run_cli(&env, &files, &args, &RunOpts::default());
    let c = || case.clone();
    judge_selection(&env, &out, &expect, &built, "replay", &mut rep, &c, pcode.len() as u64);
    rep
}
