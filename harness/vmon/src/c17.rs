//! C17 — monitor not built yet (stub so that the registry is complete).
use crate::core::*;

pub fn info() -> CheckInfo {
    CheckInfo {
        id: "C17",
        rule: "(monitor not built yet)",
        assumptions: &[],
        run: |_cfg| Report::new(),
        replay: |_cfg, _case| Report::new(),
    }
}
