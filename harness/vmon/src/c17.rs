//! C17 — reachability-based checkers follow their path specification.
//!
//! Monitor shape: CWE367 (TOCTOU) and CWE243 (chroot) are run through `CWE_MODULE.run` on an
//! `AnalysisResults` built as the CLI builds it. The oracle is a block-level reachability search
//! over the harness's own intraprocedural graph of the (normalized) program, written from the
//! property statement.

use crate::core::*;
use crate::irb::*;
use crate::prng::Rng;
use cwe_checker_lib::analysis::graph;
use cwe_checker_lib::intermediate_representation::*;
use cwe_checker_lib::pipeline::AnalysisResults;
use cwe_checker_lib::utils::log::CweWarning;
use serde_json::{json, Value};
use std::collections::{BTreeMap, BTreeSet};


/// Report a violation, building detail and case only if it would replace the stored witness of its signature.
macro_rules! viol {
    ($rep:expr, $sig:expr, $size:expr, $detail:expr, $case:expr) => {{
        let sig: String = $sig.into();
        let keep = match $rep.violations.get(&sig) {
            Some(old) => old.size > $size,
            None => true,
        };
        if keep {
            $rep.violation(sig, None, $detail, $case, $size);
        } else {
            $rep.violation_count += 1;
        }
    }};
}

pub fn info() -> CheckInfo {
    CheckInfo {
        id: "C17",
        rule: "random x86-64-style programs (1..4 functions of 2..9 blocks: branches, conditional branches, loops, indirect jumps with target hints, returns, dead ends, internal calls to returning and non-returning functions, recursion, indirect calls, extern calls to configured check/use symbols, chroot, chdir, privilege droppers and decoys; return-less calls for chroot and non-configured symbols; calls as second jump after a conditional branch; jumps into other functions before normalization) with a random import table (chdir/chroot/check/use symbols present or absent) are normalized (basic; basic+optimize in half of the cases) and given with random configurations (1..4 (check,use) pairs sharing symbols; subsets of privilege droppers) to CWE367 and CWE243 via CWE_MODULE.run. Oracle: reachability over the harness's own intraprocedural block graph from the return-site block of the check/chroot call, not passing another call to the check function/chroot. CWE367: multiset of (check symbol, use symbol, return-site block tid+address) must match and the reported use call must be one of the reachable ones; CWE243: multiset of (call tid, address, function name). A panic is a violation. non-trivial = the program contains at least one check/chroot call that must be reported and at least one that must not; distinct = hash of (program, configurations)",
        assumptions: &[
            "names in the import table are unique and every extern symbol is stored under its own tid",
            "domain guard: calls to symbols occurring in a configured (check,use) pair and to chdir always carry a return site and these symbols are ordinary returning functions; return-less calls are generated for chroot, privilege droppers and non-configured symbols only; check != use within a pair",
            "an internal call is followed to its return site iff the callee contains a return instruction (the notion of 'callee can return' of the control flow graph and of normalize_basic); indirect calls and extern calls are followed to their return site; CALLOTHER is not generated",
            "the program judged is the normalized one the check modules receive; after normalization every jump target lies in the function of the jump (cases where not are counted inconclusive)",
            "a block contains at most one call and it is the last jump of the block",
        ],
        run,
        replay,
    }
}

// ---------------------------------------------------------------------------
// The harness's own view of the program

struct B<'a> {
    sub: usize,
    blk: &'a Term<Blk>,
}

#[derive(Clone, Copy, PartialEq, Eq)]
struct Mode {
    /// do not traverse the return edge of another call to the source symbol (the specified behaviour)
    stop_at_source: bool,
    /// additionally follow internal calls into the callee and returns back to every return site (NOT the specified behaviour)
    interprocedural: bool,
}
const SPEC: Mode = Mode { stop_at_source: true, interprocedural: false };

pub struct Prog<'a> {
    project: &'a Project,
    subs: Vec<&'a Term<Sub>>,
    blocks: Vec<B<'a>>,
    index: BTreeMap<(usize, &'a Tid), usize>,
    any_index: BTreeMap<&'a Tid, usize>,
    sub_index: BTreeMap<&'a Tid, usize>,
    sub_returns: Vec<bool>,
    entry: Vec<Option<usize>>,
    /// per function: block ids of the return sites of calls to it
    return_sites: Vec<Vec<usize>>,
    externs: BTreeSet<&'a Tid>,
    pub cross_sub_jump: std::cell::Cell<bool>,
}

impl<'a> Prog<'a> {
    pub fn new(project: &'a Project) -> Prog<'a> {
        let prog = &project.program.term;
        let subs: Vec<&Term<Sub>> = prog.subs.values().collect();
        let mut blocks = Vec::new();
        let mut index = BTreeMap::new();
        let mut any_index = BTreeMap::new();
        let mut sub_index = BTreeMap::new();
        let mut sub_returns = Vec::new();
        let mut entry = Vec::new();
        for (si, s) in subs.iter().enumerate() {
            sub_index.insert(&s.tid, si);
            entry.push(if s.term.blocks.is_empty() { None } else { Some(blocks.len()) });
            let mut returns = false;
            for b in &s.term.blocks {
                index.insert((si, &b.tid), blocks.len());
                any_index.entry(&b.tid).or_insert(blocks.len());
                returns |= b.term.jmps.iter().any(|j| matches!(j.term, Jmp::Return(_)));
                blocks.push(B { sub: si, blk: b });
            }
            sub_returns.push(returns);
        }
        let externs: BTreeSet<&Tid> = prog.extern_symbols.values().map(|e| &e.tid).collect();
        let mut p = Prog { project, subs, blocks, index, any_index, sub_index, sub_returns, entry, return_sites: Vec::new(), externs, cross_sub_jump: std::cell::Cell::new(false) };
        let mut return_sites = vec![Vec::new(); p.subs.len()];
        for b in &p.blocks {
            for j in &b.blk.term.jmps {
                if let Jmp::Call { target, return_: Some(r) } = &j.term {
                    if let (Some(callee), Some(site)) = (p.sub_index.get(target), p.index.get(&(b.sub, r))) {
                        return_sites[*callee].push(*site);
                    }
                }
            }
        }
        p.return_sites = return_sites;
        p
    }

    pub fn extern_tid(&self, name: &str) -> Option<&'a Tid> {
        self.project.program.term.extern_symbols.values().find(|e| e.name == name).map(|e| &e.tid)
    }

    fn resolve(&self, sub: usize, t: &Tid) -> Option<usize> {
        match self.index.get(&(sub, t)) {
            Some(i) => Some(*i),
            None => {
                if self.any_index.contains_key(t) {
                    self.cross_sub_jump.set(true);
                }
                None
            }
        }
    }

    /// Successor blocks of `b` with the call (if any) whose return edge leads there.
    fn successors(&self, b: usize, source: &Tid, mode: Mode) -> Vec<usize> {
        let blk = &self.blocks[b];
        let mut out = Vec::new();
        let push = |t: &Tid, out: &mut Vec<usize>| {
            if let Some(i) = self.resolve(blk.sub, t) {
                out.push(i);
            }
        };
        for j in &blk.blk.term.jmps {
            match &j.term {
                Jmp::Branch(t) | Jmp::CBranch { target: t, .. } => push(t, &mut out),
                Jmp::BranchInd(_) => {
                    for t in &blk.blk.term.indirect_jmp_targets {
                        push(t, &mut out);
                    }
                }
                Jmp::Call { target, return_ } => {
                    if self.externs.contains(target) {
                        if mode.stop_at_source && target == source {
                            continue; // passing another call to the check function is not allowed
                        }
                        if let Some(r) = return_ {
                            push(r, &mut out);
                        }
                    } else if let Some(callee) = self.sub_index.get(target) {
                        if self.sub_returns[*callee] {
                            if let Some(r) = return_ {
                                push(r, &mut out);
                            }
                        }
                        if mode.interprocedural {
                            if let Some(e) = self.entry[*callee] {
                                out.push(e);
                            }
                        }
                    }
                }
                Jmp::CallInd { return_, .. } => {
                    if let Some(r) = return_ {
                        push(r, &mut out);
                    }
                }
                Jmp::Return(_) => {
                    if mode.interprocedural {
                        out.extend(self.return_sites[blk.sub].iter().cloned());
                    }
                }
                Jmp::CallOther { .. } => (),
            }
        }
        out
    }

    /// Calls to `sink` in blocks reachable from block `start` (inclusive).
    fn reach(&self, start: usize, source: &Tid, sink: &Tid, mode: Mode) -> BTreeSet<&'a Tid> {
        let mut found = BTreeSet::new();
        let mut visited = vec![false; self.blocks.len()];
        visited[start] = true;
        let mut work = vec![start];
        while let Some(b) = work.pop() {
            let blk: &'a Term<Blk> = self.blocks[b].blk;
            for j in &blk.term.jmps {
                if let Jmp::Call { target, .. } = &j.term {
                    if target == sink {
                        found.insert(&j.tid);
                    }
                }
            }
            for s in self.successors(b, source, mode) {
                if !visited[s] {
                    visited[s] = true;
                    work.push(s);
                }
            }
        }
        found
    }

    /// All calls to the extern symbol `target`: (block id, jump).
    fn calls_to(&self, target: &Tid) -> Vec<(usize, &'a Term<Jmp>)> {
        let mut v = Vec::new();
        for (i, b) in self.blocks.iter().enumerate() {
            let blk: &'a Term<Blk> = b.blk;
            for j in &blk.term.jmps {
                if matches!(&j.term, Jmp::Call { target: t, .. } if t == target) {
                    v.push((i, j));
                }
            }
        }
        v
    }

    fn sub_calls(&self, sub: usize, target: &Tid) -> bool {
        self.calls_to(target).iter().any(|(b, _)| self.blocks[*b].sub == sub)
    }
}

// ---------------------------------------------------------------------------
// Expected results

/// CWE367: (check, use, return-site block tid, its address) -> (count, allowed use calls (tid, address), class)
type Key367 = (String, String, String, String);
pub struct Exp367 {
    entries: BTreeMap<Key367, (usize, BTreeSet<(String, String)>)>,
    /// keys that would only be reported by a search that passes a second check call / leaves the function
    only_past_source: BTreeSet<Key367>,
    only_interprocedural: BTreeSet<Key367>,
    reported: usize,
    silent: usize,
    out_of_domain: bool,
}

fn pairs_of(config: &Value) -> Vec<(String, String)> {
    config["pairs"].as_array().map(|a| a.iter().map(|p| (p[0].as_str().unwrap_or("").to_string(), p[1].as_str().unwrap_or("").to_string())).collect()).unwrap_or_default()
}

pub fn expected_367(p: &Prog, config: &Value, rep: &mut Report) -> Exp367 {
    let mut e = Exp367 { entries: BTreeMap::new(), only_past_source: BTreeSet::new(), only_interprocedural: BTreeSet::new(), reported: 0, silent: 0, out_of_domain: false };
    for (check, use_) in pairs_of(config) {
        let (Some(src), Some(snk)) = (p.extern_tid(&check), p.extern_tid(&use_)) else {
            rep.obs("367:pair-not-imported");
            continue;
        };
        if src == snk {
            e.out_of_domain = true;
            continue;
        }
        for (b, j) in p.calls_to(src) {
            let Jmp::Call { return_, .. } = &j.term else { continue };
            let site = match return_.as_ref().and_then(|r| p.resolve(p.blocks[b].sub, r).map(|i| (r, i))) {
                Some(s) => s,
                None => {
                    e.out_of_domain = true; // check call without (resolvable) return site
                    continue;
                }
            };
            let key: Key367 = (check.clone(), use_.clone(), format!("{}", site.0), site.0.address.clone());
            let found = p.reach(site.1, src, snk, SPEC);
            if !found.is_empty() {
                let entry = e.entries.entry(key).or_insert((0, BTreeSet::new()));
                entry.0 += 1;
                entry.1.extend(found.iter().map(|t| (format!("{t}"), t.address.clone())));
                e.reported += 1;
                rep.obs("367:check-call:use-reachable");
            } else {
                e.silent += 1;
                let past = !p.reach(site.1, src, snk, Mode { stop_at_source: false, interprocedural: false }).is_empty();
                let inter = !p.reach(site.1, src, snk, Mode { stop_at_source: true, interprocedural: true }).is_empty();
                if past {
                    e.only_past_source.insert(key.clone());
                    rep.obs("367:check-call:use-only-behind-second-check");
                }
                if inter {
                    e.only_interprocedural.insert(key.clone());
                    rep.obs("367:check-call:use-only-via-call-or-return-edges");
                }
                if !past && !inter {
                    rep.obs("367:check-call:use-unreachable");
                }
            }
        }
    }
    e
}

type Key243 = (Vec<String>, Vec<String>, Vec<String>);
pub struct Exp243 {
    entries: Vec<Key243>,
    reported: usize,
    silent: usize,
    /// call tids with the class of the decision (for diagnostics)
    class: BTreeMap<String, &'static str>,
}

pub fn expected_243(p: &Prog, config: &Value, rep: &mut Report) -> Exp243 {
    let mut e = Exp243 { entries: Vec::new(), reported: 0, silent: 0, class: BTreeMap::new() };
    let Some(chroot) = p.extern_tid("chroot") else {
        rep.obs("243:chroot-not-imported");
        return e;
    };
    let chdir = p.extern_tid("chdir");
    let droppers: Vec<&Tid> = config["priviledge_dropping_functions"].as_array().map(|a| a.iter().filter_map(|n| n.as_str().and_then(|n| p.extern_tid(n))).collect()).unwrap_or_default();
    for (b, j) in p.calls_to(chroot) {
        let sub = p.blocks[b].sub;
        let Jmp::Call { return_, .. } = &j.term else { continue };
        let two_jump = p.blocks[b].blk.term.jmps.len() > 1;
        let (report, class): (bool, &'static str) = match chdir {
            None => (true, "chdir-not-imported"),
            Some(chdir) => {
                let reachable = match return_.as_ref().and_then(|r| p.resolve(sub, r)) {
                    Some(site) => !p.reach(site, chroot, chdir, SPEC).is_empty(),
                    None => false, // nothing is reachable after a call without return site
                };
                let excused = p.sub_calls(sub, chdir) && droppers.iter().any(|d| p.sub_calls(sub, d));
                if reachable {
                    (false, "chdir-reachable")
                } else if excused {
                    (false, "function-calls-chdir-and-dropper")
                } else if return_.is_none() {
                    (true, "no-return-site")
                } else {
                    (true, "chdir-unreachable")
                }
            }
        };
        let class: &'static str = match (class, two_jump) {
            ("chdir-not-imported", true) => "chdir-not-imported:in-two-jump-block",
            ("chdir-reachable", true) => "chdir-reachable:in-two-jump-block",
            ("function-calls-chdir-and-dropper", true) => "function-calls-chdir-and-dropper:in-two-jump-block",
            ("no-return-site", true) => "no-return-site:in-two-jump-block",
            ("chdir-unreachable", true) => "chdir-unreachable:in-two-jump-block",
            (c, _) => c,
        };
        rep.obs(&format!("243:chroot-call:{class}"));
        e.class.insert(format!("{}", j.tid), class);
        if report {
            e.reported += 1;
            e.entries.push((vec![j.tid.address.clone()], vec![format!("{}", j.tid)], vec![p.subs[sub].term.name.clone()]));
        } else {
            e.silent += 1;
        }
    }
    e.entries.sort();
    e
}

// ---------------------------------------------------------------------------
// Running the real modules and comparing

fn run_module(project: &Project, module: &cwe_checker_lib::CweModule, params: &Value) -> Result<Vec<CweWarning>, String> {
    guard(|| {
        let cfg = graph::get_program_cfg(&project.program);
        let binary: Vec<u8> = Vec::new();
        let results = AnalysisResults::new(&binary, &cfg, project);
        let (_logs, warnings) = (module.run)(&results, params);
        warnings
    })
}

fn size_of(project: &Project) -> u64 {
    project.program.term.subs.values().map(|s| 2 + s.term.blocks.iter().map(|b| 1 + b.term.jmps.len() as u64).sum::<u64>()).sum::<u64>() + project.program.term.extern_symbols.len() as u64
}

/// Shape of the chroot blocks of the program (for panic signatures).
fn chroot_shape(p: &Prog) -> &'static str {
    let Some(chroot) = p.extern_tid("chroot") else { return "no-chroot" };
    let calls = p.calls_to(chroot);
    let two = calls.iter().any(|(b, _)| p.blocks[*b].blk.term.jmps.len() > 1);
    let noret = calls.iter().any(|(_, j)| matches!(&j.term, Jmp::Call { return_: None, .. }));
    match (two, noret) {
        (true, _) => "chroot-in-two-jump-block",
        (false, true) => "chroot-without-return-site",
        (false, false) => "plain",
    }
}

pub fn check_case(project: &Project, configs: &Value, rep: &mut Report) -> bool {
    let p = Prog::new(project);
    let size = size_of(project);
    let case = || json!({"project": project_to_json(project), "configs": configs});
    let text = || format!("config: {}\n{}", configs, show_program(&project.program.term));
    let mut tmp = Report::new(); // observations are only merged if the case is inside the domain
    let e367 = expected_367(&p, &configs["CWE367"], &mut tmp);
    let e243 = expected_243(&p, &configs["CWE243"], &mut tmp);
    if p.cross_sub_jump.get() {
        rep.inconclusive("jump-target-outside-function-after-normalization");
        return false;
    }
    if e367.out_of_domain {
        rep.inconclusive("case-outside-domain-guard");
        return false;
    }
    rep.merge(tmp);

    // ---- CWE367
    rep.eval();
    match run_module(project, &cwe_checker_lib::checkers::cwe_367::CWE_MODULE, &configs["CWE367"]) {
        Err(msg) => viol!(rep, format!("CWE367:panic:{}", panic_site(&msg)), size, format!("CWE367 panicked: {msg}\n{}", text()), case()),
        Ok(ws) => {
            let mut got: BTreeMap<Key367, Vec<(String, String)>> = BTreeMap::new();
            for w in &ws {
                if w.name != "CWE367" || w.tids.len() != 2 || w.addresses.len() != 2 || w.symbols.len() != 2 {
                    viol!(rep, "CWE367:malformed-warning", size, format!("CWE367 warning without (check, use) tids/addresses/symbols: {w:?}\n{}", text()), case());
                    continue;
                }
                got.entry((w.symbols[0].clone(), w.symbols[1].clone(), w.tids[0].clone(), w.addresses[0].clone())).or_default().push((w.tids[1].clone(), w.addresses[1].clone()));
            }
            let mut ok = true;
            for (key, (n, allowed)) in &e367.entries {
                let g = got.get(key).map(|v| v.len()).unwrap_or(0);
                if g < *n {
                    ok = false;
                    viol!(rep, "CWE367:missing-warning", size, format!("pair ({},{}) check call returning to block {} @{}: a use call is reachable without passing another check call (reachable use calls {:?}); expected {n} warning(s), observed {g}\n{}", key.0, key.1, key.2, key.3, allowed, text()), case());
                }
            }
            for (key, uses) in &got {
                let n = e367.entries.get(key).map(|e| e.0).unwrap_or(0);
                if uses.len() > n {
                    ok = false;
                    let why = if e367.only_past_source.contains(key) {
                        "use-only-behind-second-check-call"
                    } else if e367.only_interprocedural.contains(key) {
                        "use-only-via-call-or-return-edges"
                    } else {
                        "other"
                    };
                    viol!(rep, format!("CWE367:surplus-warning:{why}"), size, format!("pair ({},{}) return-site block {} @{}: expected {n} warning(s), observed {} (reported use calls {:?}); class: {why}\n{}", key.0, key.1, key.2, key.3, uses.len(), uses, text()), case());
                }
                if let Some((_, allowed)) = e367.entries.get(key) {
                    for u in uses {
                        if !allowed.contains(u) {
                            ok = false;
                            viol!(rep, "CWE367:reported-use-call-not-reachable", size, format!("pair ({},{}) return-site block {}: reported use call {:?} is not among the reachable use calls {:?}\n{}", key.0, key.1, key.2, u, allowed, text()), case());
                        }
                    }
                }
            }
            if ok {
                rep.obs(&format!("CWE367:agree:{}", match ws.len() { 0 => "0", 1 => "1", 2..=3 => "2-3", _ => "4+" }));
            }
        }
    }

    // ---- CWE243
    rep.eval();
    match run_module(project, &cwe_checker_lib::checkers::cwe_243::CWE_MODULE, &configs["CWE243"]) {
        Err(msg) => viol!(rep, format!("CWE243:panic:{}:{}", chroot_shape(&p), panic_site(&msg)), size, format!("CWE243 panicked (must handle every program): {msg}\n{}", text()), case()),
        Ok(ws) => {
            let mut got: Vec<Key243> = ws.iter().map(|w| (w.addresses.clone(), w.tids.clone(), w.symbols.clone())).collect();
            got.sort();
            if let Some(w) = ws.iter().find(|w| w.name != "CWE243") {
                viol!(rep, "CWE243:wrong-check-name", size, format!("CWE243 produced a warning named {}", w.name), case());
            }
            if got != e243.entries {
                let missing: Vec<&Key243> = e243.entries.iter().filter(|k| count(&e243.entries, k) > count(&got, k)).collect();
                let surplus: Vec<&Key243> = got.iter().filter(|k| count(&got, k) > count(&e243.entries, k)).collect();
                let class_of = |k: &Key243| -> &'static str { k.1.first().and_then(|t| e243.class.get(t)).copied().unwrap_or("no-such-chroot-call") };
                let (what, class) = if let Some(k) = missing.first() {
                    // a surplus with the same tid means a wrong address/symbol only
                    if surplus.iter().any(|s| s.1 == k.1) { ("wrong-fields", class_of(k)) } else { ("missing-warning", class_of(k)) }
                } else {
                    ("surplus-warning", surplus.first().map(|k| class_of(k)).unwrap_or("?"))
                };
                viol!(rep, format!("CWE243:{what}:{class}"), size, format!("CWE243: expected {} warning(s), observed {}.\n  expected but not reported (addresses, tids, symbols): {:?}\n  reported but not expected: {:?}\n  oracle class of each chroot call: {:?}\n{}", e243.entries.len(), got.len(), missing, surplus, e243.class, text()), case());
            } else {
                rep.obs(&format!("CWE243:agree:{}", match ws.len() { 0 => "0", 1 => "1", 2..=3 => "2-3", _ => "4+" }));
            }
        }
    }
    let nontrivial = e367.reported + e243.reported > 0 && e367.silent + e243.silent > 0;
    if nontrivial {
        rep.nontrivial(crate::prng::mix(fp_of(&project.program), fp_json(configs)));
    }
    nontrivial
}

fn count<T: PartialEq>(v: &[T], x: &T) -> usize {
    v.iter().filter(|y| *y == x).count()
}

// ---------------------------------------------------------------------------
// Generator

pub const CHECKS: &[&str] = &["access", "stat", "lstat", "faccessat"];
pub const USES: &[&str] = &["open", "fopen", "unlink", "chmod"];
pub const DROPPERS: &[&str] = &["setresuid", "seteuid", "setreuid", "setuid"];
pub const DECOYS: &[&str] = &["printf", "malloc", "exit", "chroot2", "fchdir", "open64", "access_", "xstat", "setgid", "chdir2"];

pub struct Case {
    pub project: Project,
    pub configs: Value,
}

pub fn gen_case(rng: &mut Rng) -> Case {
    // ---- configurations first (they determine which symbols need return sites)
    let mut pairs: Vec<(String, String)> = Vec::new();
    if rng.chance(1, 3) {
        pairs.push(("access".into(), "open".into()));
    }
    let n_pairs = rng.range_usize(if pairs.is_empty() { 1 } else { 0 }, 3);
    // small name universe so that pairs share symbols
    let k = rng.range_usize(1, 3);
    for _ in 0..n_pairs {
        let (mut a, mut b) = (rng.pick(&CHECKS[..k + 1]).to_string(), rng.pick(&USES[..k + 1]).to_string());
        if rng.chance(1, 10) {
            a = rng.pick(USES).to_string(); // a use symbol of one pair is the check symbol of another
        }
        if rng.chance(1, 10) {
            b = rng.pick(CHECKS).to_string();
        }
        if rng.chance(1, 12) {
            b = rng.pick(DECOYS).to_string();
        }
        if a != b {
            pairs.push((a, b));
        }
    }
    if !pairs.is_empty() && rng.chance(1, 12) {
        let p = rng.pick(&pairs).clone();
        pairs.push(p);
    }
    let droppers: Vec<String> = match rng.below(6) {
        0 => Vec::new(),
        1 | 2 => DROPPERS.iter().map(|s| s.to_string()).collect(),
        _ => {
            let mut v: Vec<String> = DROPPERS.iter().filter(|_| rng.bool()).map(|s| s.to_string()).collect();
            if rng.chance(1, 4) {
                v.push(rng.pick(DECOYS).to_string());
            }
            v
        }
    };
    let must_return: BTreeSet<String> = pairs.iter().flat_map(|(a, b)| [a.clone(), b.clone()]).chain(std::iter::once("chdir".to_string())).collect();
    // ---- import table
    let mut names: Vec<String> = Vec::new();
    if rng.chance(5, 6) {
        names.push("chroot".into());
    }
    if rng.chance(3, 4) {
        names.push("chdir".into());
    }
    for (a, b) in &pairs {
        for n in [a, b] {
            if rng.chance(7, 8) {
                names.push(n.clone());
            }
        }
    }
    for n in DROPPERS {
        if rng.chance(1, 2) {
            names.push(n.to_string());
        }
    }
    for _ in 0..rng.below(4) {
        names.push(rng.pick(DECOYS).to_string());
    }
    for _ in 0..rng.below(2) {
        names.push(rng.pick(CHECKS).to_string());
        names.push(rng.pick(USES).to_string());
    }
    let mut seen = BTreeSet::new();
    names.retain(|n| seen.insert(n.clone()));
    rng.shuffle(&mut names);
    let mut externs = Vec::new();
    let mut ext: Vec<(String, Tid)> = Vec::new();
    for (i, n) in names.iter().enumerate() {
        let t = tid(&format!("sub_ext_{:03}_{}", rng.below(1000), i), &format!("{:08x}", 0x500000 + i * 16));
        let no_return = n == "exit";
        externs.push(extern_symbol(n, t.clone(), &["RDI"], Some("RAX"), no_return));
        ext.push((n.clone(), t));
    }
    // weights: interesting symbols are called more often
    let mut call_pool: Vec<usize> = Vec::new();
    for (i, (n, _)) in ext.iter().enumerate() {
        let w = if n == "chroot" {
            4
        } else if n == "chdir" {
            5
        } else if must_return.contains(n) {
            4
        } else if DROPPERS.contains(&n.as_str()) {
            3
        } else {
            1
        };
        for _ in 0..w {
            call_pool.push(i);
        }
    }
    // ---- functions
    let n_subs = rng.range_usize(1, 4);
    let sub_tids: Vec<Tid> = (0..n_subs).map(|i| tid(&format!("sub_{:08x}", 0x400000 + i * 0x100), &format!("{:08x}", 0x400000 + i * 0x100))).collect();
    let blk_counts: Vec<usize> = (0..n_subs).map(|_| rng.range_usize(2, 9)).collect();
    let blk_tids: Vec<Vec<Tid>> = (0..n_subs)
        .map(|s| (0..blk_counts[s]).map(|b| tid(&format!("blk_{:08x}", 0x400000 + s * 0x100 + b * 8), &format!("{:08x}", 0x400000 + s * 0x100 + b * 8))).collect())
        .collect();
    let mut counter = 0u32;
    let mut fresh = |rng: &mut Rng| -> Tid {
        counter += 1;
        let addr = 0x401000 + counter * 4 - if rng.chance(1, 10) { 4 } else { 0 };
        tid(&format!("instr_{addr:08x}_{counter}"), &format!("{addr:08x}"))
    };
    let mut subs = Vec::new();
    for s in 0..n_subs {
        let n = blk_counts[s];
        let non_returning = rng.chance(1, 6);
        let linear = rng.chance(1, 2); // mostly fall-through chains: long paths
        let mut blocks = Vec::new();
        for b in 0..n {
            let target = |rng: &mut Rng| -> Tid {
                if rng.chance(1, 30) {
                    let o = rng.usize_below(n_subs);
                    blk_tids[o][rng.usize_below(blk_counts[o])].clone()
                } else if b + 1 < n && (linear || rng.chance(1, 2)) && rng.chance(5, 6) {
                    blk_tids[s][b + 1].clone()
                } else if b + 1 < n && rng.chance(2, 3) {
                    blk_tids[s][rng.range_usize(b + 1, n - 1)].clone()
                } else {
                    blk_tids[s][rng.usize_below(n)].clone()
                }
            };
            let cond = || e_var(&var("ZF", 1));
            let mut jmps = Vec::new();
            let last = b + 1 == n;
            let kind = if last && !non_returning && rng.chance(2, 3) { 100 } else { rng.below(100) };
            match kind {
                0..=44 if !call_pool.is_empty() => {
                    // extern call
                    if rng.chance(1, 25) {
                        jmps.push(jmp(fresh(rng), Jmp::CBranch { target: target(rng), condition: cond() }));
                    }
                    let (name, t) = &ext[*rng.pick(&call_pool)];
                    let may_be_returnless = !must_return.contains(name);
                    let p_none = if name == "chroot" { 5 } else { 8 };
                    let ret = if may_be_returnless && rng.chance(1, p_none) { None } else { Some(target(rng)) };
                    jmps.push(jmp(fresh(rng), Jmp::Call { target: t.clone(), return_: ret }));
                }
                45..=52 => {
                    let t = sub_tids[rng.usize_below(n_subs)].clone();
                    let ret = if rng.chance(1, 8) { None } else { Some(target(rng)) };
                    jmps.push(jmp(fresh(rng), Jmp::Call { target: t, return_: ret }));
                }
                53..=56 => {
                    let ret = if rng.chance(1, 6) { None } else { Some(target(rng)) };
                    jmps.push(jmp(fresh(rng), Jmp::CallInd { target: e_reg("RAX"), return_: ret }));
                }
                57..=68 => jmps.push(jmp(fresh(rng), Jmp::Branch(target(rng)))),
                69..=88 => {
                    jmps.push(jmp(fresh(rng), Jmp::CBranch { target: target(rng), condition: cond() }));
                    jmps.push(jmp(fresh(rng), Jmp::Branch(target(rng))));
                }
                89..=92 => jmps.push(jmp(fresh(rng), Jmp::BranchInd(e_reg("RAX")))),
                93 => (), // dead end
                _ => {
                    if non_returning {
                        jmps.push(jmp(fresh(rng), Jmp::Branch(target(rng))));
                    } else {
                        if rng.chance(1, 12) {
                            jmps.push(jmp(fresh(rng), Jmp::CBranch { target: target(rng), condition: cond() }));
                        }
                        jmps.push(jmp(fresh(rng), Jmp::Return(e_reg("RAX"))));
                    }
                }
            }
            let mut defs = Vec::new();
            if rng.chance(1, 3) {
                defs.push(assign(fresh(rng), reg("RDI"), e_const(rng.below(64) as i64, 8)));
            }
            let mut block = blk(blk_tids[s][b].clone(), defs, jmps);
            if matches!(block.term.jmps.last().map(|j| &j.term), Some(Jmp::BranchInd(_))) {
                for _ in 0..rng.range_usize(0, 3) {
                    block.term.indirect_jmp_targets.push(target(rng));
                }
            }
            blocks.push(block);
        }
        subs.push(sub(sub_tids[s].clone(), &format!("fn_{s}"), blocks));
    }
    let mut project = project_x64(program(subs, externs, Some(sub_tids[0].clone())));
    let _ = project.normalize_basic();
    if rng.bool() {
        let _ = project.normalize_optimize();
    }
    let configs = json!({
        "CWE367": {"pairs": pairs},
        "CWE243": {"_comment": "generated", "pairs": [["chroot", "chdir"]], "priviledge_dropping_functions": droppers},
    });
    Case { project, configs }
}

fn run(cfg: &Cfg) -> Report {
    let shards = cfg.tier.pick(128usize, 1024usize);
    let per_shard = cfg.tier.pick(1000usize, 2500usize);
    let mut rep = par_shards(cfg, "c17", shards, |idx, rng, rep| {
        for i in 0..per_shard {
            let case = match guard(|| gen_case(rng)) {
                Ok(c) => c,
                Err(msg) => {
                    rep.inconclusive(&format!("generator-or-normalization-panic:{}", panic_site(&msg)));
                    continue;
                }
            };
            let nt = check_case(&case.project, &case.configs, rep);
            if idx == 0 && nt && i < 60 && rep.wants_sample() {
                let p = Prog::new(&case.project);
                let mut scratch = Report::new();
                let e367 = expected_367(&p, &case.configs["CWE367"], &mut scratch);
                let e243 = expected_243(&p, &case.configs["CWE243"], &mut scratch);
                rep.sample(json!({
                    "program": show_program(&case.project.program.term), "configs": case.configs,
                    "expected_CWE367 (check,use,return-site block,address) -> (count, reachable use calls)": format!("{:?}", e367.entries),
                    "expected_CWE243 (addresses,tids,symbols)": format!("{:?}", e243.entries),
                }));
            }
        }
    });
    fixed_cases(&mut rep);
    rep
}

/// Hand-written cases: one per clause of the statement.
fn fixed_cases(rep: &mut Report) {
    let ext = |n: &str, i: usize| extern_symbol(n, tid(&format!("sub_ext_{n}"), &format!("ext{i}")), &["RDI"], Some("RAX"), false);
    let (access, open, chroot, chdir, setuid) = (ext("access", 0), ext("open", 1), ext("chroot", 2), ext("chdir", 3), ext("setuid", 4));
    let call = |id: &str, target: &Tid, ret: Option<&str>| jmp(tid(id, &format!("a_{id}")), Jmp::Call { target: target.clone(), return_: ret.map(|r| tid(r, r)) });
    let b = |id: &str, j: Vec<Term<Jmp>>| blk(tid(id, id), vec![], j);
    let ret = |id: &str| jmp(tid(id, id), Jmp::Return(e_reg("RAX")));
    // f: access; access; open   (first access is blocked by the second), then g() which opens (not intraprocedural)
    let f = sub(
        tid("sub_f", "f"),
        "f",
        vec![
            b("f0", vec![call("c0", &access.tid, Some("f1"))]),
            b("f1", vec![call("c1", &access.tid, Some("f2"))]),
            b("f2", vec![call("c2", &open.tid, Some("f3"))]),
            b("f3", vec![call("c3", &access.tid, Some("f4"))]),
            b("f4", vec![call("c4", &tid("sub_g", "g"), Some("f5"))]),
            b("f5", vec![ret("r0")]),
        ],
    );
    // g: open; chroot (no return site)
    let g = sub(tid("sub_g", "g"), "g", vec![b("g0", vec![call("d0", &open.tid, Some("g1"))]), b("g1", vec![ret("r1")]), b("g2", vec![call("d2", &chroot.tid, None)])]);
    // h: chroot; chdir   /  chroot; (loop)   / setuid, chdir before
    let h = sub(
        tid("sub_h", "h"),
        "h",
        vec![b("h0", vec![call("e0", &chroot.tid, Some("h1"))]), b("h1", vec![call("e1", &chdir.tid, Some("h2"))]), b("h2", vec![call("e2", &chroot.tid, Some("h3"))]), b("h3", vec![ret("r2")])],
    );
    let k = sub(
        tid("sub_k", "k"),
        "k",
        vec![b("k0", vec![call("k_0", &chdir.tid, Some("k1"))]), b("k1", vec![call("k_1", &setuid.tid, Some("k2"))]), b("k2", vec![call("k_2", &chroot.tid, Some("k3"))]), b("k3", vec![ret("r3")])],
    );
    let mut project = project_x64(program(vec![f, g, h, k], vec![access, open, chroot, chdir, setuid], None));
    let _ = project.normalize_basic();
    let configs = json!({"CWE367": {"pairs": [["access", "open"]]}, "CWE243": {"priviledge_dropping_functions": ["setuid", "seteuid"]}});
    check_case(&project, &configs, rep);
    // chroot as second jump of a two-jump block, (a) with and (b) without return site, chdir imported
    let ext = |n: &str, i: usize| extern_symbol(n, tid(&format!("sub_ext_{n}"), &format!("ext{i}")), &["RDI"], Some("RAX"), false);
    let cb = |id: &str, t: &str| jmp(tid(id, id), Jmp::CBranch { target: tid(t, t), condition: e_var(&var("ZF", 1)) });
    for with_return in [true, false] {
        let (chroot, chdir) = (ext("chroot", 0), ext("chdir", 1));
        let f = sub(
            tid("sub_f", "f"),
            "f",
            vec![
                b("b0", vec![cb("j0", "b1"), call("c0", &chroot.tid, if with_return { Some("b1") } else { None })]),
                b("b1", vec![call("c1", &chdir.tid, Some("b2"))]),
                b("b2", vec![ret("r0")]),
            ],
        );
        let mut project = project_x64(program(vec![f], vec![chroot, chdir], None));
        let _ = project.normalize_basic();
        check_case(&project, &configs, rep);
    }
}

fn replay(_cfg: &Cfg, case: &Value) -> Report {
    let mut rep = Report::new();
    match project_from_json(&case["project"]) {
        Ok(project) => {
            check_case(&project, &case["configs"], &mut rep);
        }
        Err(e) => rep.note(format!("cannot parse replay case: {e}")),
    }
    rep
}
