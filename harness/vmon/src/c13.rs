//! C13 — pointer inference never excludes values that can occur at runtime.
//!
//! Monitor shape: concrete executions (reference interpreter `irx`) of random single-function
//! programs are compared, at every block start they reach, with the abstract state the real
//! pointer inference computed for that block: every concrete register value (and every stack
//! slot content, and every value/address the analysis publishes per Def) has to be a member of
//! the concretisation γ of the corresponding abstract value. γ is written here from the
//! documentation of `DataDomain`/`IntervalDomain`/`AbstractIdentifier`; none of the crate's
//! transfer functions is used by the oracle.

use crate::core::*;
use crate::irb::*;
use crate::irx::{Ev, Machine, Observer, State as XState};
use crate::pref::V;
use crate::prng::{mix, Rng};
use cwe_checker_lib::abstract_domain::{
    AbstractIdentifier, AbstractLocation, AbstractMemoryLocation, IntervalDomain, SizedDomain, TryToInterval,
};
use cwe_checker_lib::analysis::graph::{self, Node};
use cwe_checker_lib::analysis::interprocedural_fixpoint_generic::NodeValue;
use cwe_checker_lib::analysis::pointer_inference::Data;
use cwe_checker_lib::analysis::vsa_results::VsaResult;
use cwe_checker_lib::intermediate_representation::*;
use cwe_checker_lib::pipeline::AnalysisResults;
use serde_json::{json, Value};
use std::collections::{BTreeMap, BTreeSet};
use std::sync::OnceLock;

pub fn info() -> CheckInfo {
    CheckInfo {
        id: "C13",
        rule: "random single-function x86-64-style programs (prologue with optional frame pointer / red zone / stack alignment mask, register arithmetic and masks, 4/8-byte loads and stores at constant offsets from RSP/RBP incl. overlapping slots and stack-parameter reads, push/pop, flags computed into ZF/CF/SF/OF and used later, compare-and-branch with all six comparison kinds in both operand orders and polarities on registers, sub-registers, loaded values and compound conditions, register and stack-slot counters with constant steps in loops) are normalised (basic; plus optimising passes in half the cases), analysed by the real pipeline (CFG, function signatures, pointer inference with the shipped Memory config) and then executed by the interpreter irx from boundary-biased initial states; at every block start reached: node value exists, every register and every stack slot of the program's slot pool is a member of gamma(abstract value); per executed Def: loaded/assigned/stored value and the access address are members of gamma(eval_value_at_def / eval_address_at_def). non-trivial = a run that reaches at least two block starts and checks at least one non-Top abstract register other than the stack pointer; distinct = hash of (program, initial state)",
        assumptions: &[
            "irx/pref are a correct reading of the IR / P-Code semantics",
            "gamma(DataDomain<IntervalDomain>) = Top flag => everything; absolute part = signed strided interval; (sub, Register v) => entry value of v; (sub, Pointer path) => value found by walking the path through the entry memory; global id with address 0 => base 0; any other identifier is not concretised (comparison counted inconclusive)",
            "memory is accessed only through RSP, or through RBP after the prologue copied RSP into it (no access through parameters, no aliasing between parameter objects and the frame); no calls",
            "flags (1-byte registers) hold 0/1; the stack pointer is a multiple of 2^16 at function entry and far away from the NULL range; accesses to (-1024,1024) abort the run",
            "programs whose pointer-inference log says 'Fixpoint did not stabilize' are inconclusive",
            "signatures carry a cause hint (how many identifiers the predecessor's branch condition is relative to); a program whose violations all disappear when the branch conditions over values relative to >= 2 different identifiers are made opaque is tagged with the proposed known-finding key c13-intersection-of-values-relative-to-different-ids (DataDomain::intersect, documented as unsound in the code)",
            "verdicts on the release profile",
        ],
        run,
        replay,
    }
}

// ---------------------------------------------------------------------------------------------
// gamma: decoding of abstract values

#[derive(Clone, Debug)]
pub struct Itv {
    pub start: i128,
    pub end: i128,
    pub stride: u64,
}

#[derive(Clone, Debug)]
pub enum Base {
    /// entry value of a register
    Reg(Variable),
    /// root register, offsets of the pointers to follow, final offset, size of the value
    Mem(Variable, Vec<i64>, i64, u32),
    GlobalZero,
    Unknown(String),
}

#[derive(Clone, Debug)]
pub struct AbsVal {
    pub w: u32,
    pub top: bool,
    pub abs: Option<Itv>,
    pub rel: Vec<(Base, u32, Itv)>,
    pub text: String,
}

#[derive(Clone, Copy, PartialEq, Eq, Debug)]
pub enum Member {
    Yes,
    No,
    /// not a member of any part that could be concretised, but some identifier could not be concretised
    Unknown,
}

fn itv_of(d: &IntervalDomain) -> Itv {
    let w = u64::from(d.bytesize()) as u32;
    match d.try_to_interval() {
        Ok(i) => Itv { start: crate::conv::from_bv(&i.start).s(), end: crate::conv::from_bv(&i.end).s(), stride: i.stride },
        Err(_) => {
            let top = V::new(1u128 << (8 * w - 1), w);
            Itv { start: top.s(), end: -(top.s() + 1), stride: 1 }
        }
    }
}

impl Itv {
    pub fn contains(&self, s: i128) -> bool {
        if self.start > self.end {
            return true; // not a well-formed signed interval (C02's matter): nothing can be refuted
        }
        if s < self.start || s > self.end {
            return false;
        }
        if self.stride <= 1 || self.start == self.end {
            // (stride 0 with start != end is ill-formed: lenient, only the bounds are applied)
            return true;
        }
        (s - self.start) % (self.stride as i128) == 0
    }
    pub fn is_top(&self, w: u32) -> bool {
        let min = V::new(1u128 << (8 * w - 1), w).s();
        self.start == min && self.end == -(min + 1) && self.stride == 1
    }
}

fn base_of(id: &AbstractIdentifier, sub_tid: &Tid) -> Base {
    if id.get_tid() != sub_tid || !id.get_path_hints().is_empty() {
        return Base::Unknown(format!("{id}"));
    }
    match id.get_location() {
        AbstractLocation::Register(v) => Base::Reg(v.clone()),
        AbstractLocation::Pointer(v, loc) => {
            let mut ptrs = Vec::new();
            let mut cur = loc;
            loop {
                match cur {
                    AbstractMemoryLocation::Location { offset, size } => {
                        return Base::Mem(v.clone(), ptrs, *offset, u64::from(*size) as u32);
                    }
                    AbstractMemoryLocation::Pointer { offset, target } => {
                        ptrs.push(*offset);
                        cur = target;
                    }
                }
            }
        }
        AbstractLocation::GlobalAddress { address: 0, .. } => Base::GlobalZero,
        _ => Base::Unknown(format!("{id}")),
    }
}

pub fn decode(d: &Data, sub_tid: &Tid) -> AbsVal {
    let w = u64::from(d.bytesize()) as u32;
    AbsVal {
        w,
        top: d.contains_top(),
        abs: d.get_absolute_value().map(itv_of),
        rel: d
            .get_relative_values()
            .iter()
            .map(|(id, off)| (base_of(id, sub_tid), u64::from(id.bytesize()) as u32, itv_of(off)))
            .collect(),
        text: d.to_json_compact().to_string(),
    }
}

fn concretise(base: &Base, entry: &XState, m: &Machine) -> Option<u128> {
    match base {
        Base::Reg(v) => m.read_var(entry, v).ok().map(|x| x.v),
        Base::Mem(v, ptrs, off, size) => {
            let mut p = m.read_var(entry, v).ok()?.v as u64;
            for o in ptrs {
                p = m.load_mem(entry, p.wrapping_add(*o as u64), 8) as u64;
            }
            Some(m.load_mem(entry, p.wrapping_add(*off as u64), *size))
        }
        Base::GlobalZero => Some(0),
        Base::Unknown(_) => None,
    }
}

impl AbsVal {
    pub fn is_top(&self) -> bool {
        self.top || self.abs.as_ref().is_some_and(|i| i.is_top(self.w) || i.start > i.end)
    }
    pub fn shape(&self) -> &'static str {
        match (self.abs.is_some(), !self.rel.is_empty()) {
            (true, true) => "mixed",
            (true, false) => "abs",
            (false, true) => "rel",
            (false, false) => "empty",
        }
    }
    pub fn member(&self, c: V, entry: &XState, m: &Machine) -> Member {
        if self.top {
            return Member::Yes;
        }
        if self.w != c.w {
            return Member::No;
        }
        if let Some(i) = &self.abs {
            if i.contains(c.s()) {
                return Member::Yes;
            }
        }
        let mut unknown = false;
        for (base, idw, off) in &self.rel {
            if *idw != self.w {
                unknown = true;
                continue;
            }
            match concretise(base, entry, m) {
                Some(b) => {
                    if off.contains(V::new(c.v.wrapping_sub(b), self.w).s()) {
                        return Member::Yes;
                    }
                }
                None => unknown = true,
            }
        }
        if unknown {
            Member::Unknown
        } else {
            Member::No
        }
    }
}

// ---------------------------------------------------------------------------------------------
// Generator

const DATA_REGS: &[&str] = &["RAX", "RBX", "RCX", "RDX", "RSI", "RDI", "R8", "R12"];
const CMP_OPS: &[BinOpType] = &[
    BinOpType::IntEqual,
    BinOpType::IntNotEqual,
    BinOpType::IntLess,
    BinOpType::IntSLess,
    BinOpType::IntLessEqual,
    BinOpType::IntSLessEqual,
];

#[derive(Clone, Debug, Default)]
pub struct Meta {
    /// constants the program compares against / assigns (initial states are biased around them)
    pub consts: Vec<i64>,
    /// stack slots (offset relative to the entry stack pointer, size) the program may touch
    pub slots: Vec<(i64, u32)>,
    pub optimized: bool,
}

impl Meta {
    pub fn to_json(&self) -> Value {
        json!({"consts": self.consts, "slots": self.slots, "optimized": self.optimized})
    }
    pub fn from_json(v: &Value) -> Meta {
        Meta {
            consts: v["consts"].as_array().map(|a| a.iter().filter_map(|x| x.as_i64()).collect()).unwrap_or_default(),
            slots: v["slots"]
                .as_array()
                .map(|a| a.iter().filter_map(|x| Some((x.get(0)?.as_i64()?, x.get(1)?.as_u64()? as u32))).collect())
                .unwrap_or_default(),
            optimized: v["optimized"].as_bool().unwrap_or(false),
        }
    }
}

struct Counter {
    reg: &'static str,
    slot: Option<(i64, u32)>,
    init: i64,
    step: i64,
    bound: i64,
    op: BinOpType,
    const_left: bool,
    via_flag: bool,
    negate: bool,
}

struct Gen<'a> {
    rng: &'a mut Rng,
    n: u32,
    consts: Vec<i64>,
    slots: Vec<(i64, u32)>,
    regs: Vec<&'static str>,
    has_fp: bool,
    rbp_off: i64,
    exotic: bool,
}

impl<'a> Gen<'a> {
    fn t(&mut self, p: &str) -> Tid {
        self.n += 1;
        tid(&format!("{p}{}", self.n), &format!("{:04x}", 0x1000 + self.n * 4))
    }
    fn reg(&mut self) -> &'static str {
        *self.rng.pick(&self.regs)
    }
    fn c(&mut self) -> i64 {
        let base = *self.rng.pick(&self.consts);
        base.wrapping_add(*self.rng.pick(&[0i64, 0, 0, 0, 1, -1, 2]))
    }
    fn flag(&mut self) -> Variable {
        var(*self.rng.pick(FLAGS), 1)
    }

    fn addr(&mut self, off: i64, sp_now: i64) -> Expression {
        let via_fp = self.has_fp && (self.rng.bool() || off >= 0);
        let (base, k) = if via_fp { ("RBP", off - self.rbp_off) } else { ("RSP", off - sp_now) };
        if k == 0 {
            return e_reg(base);
        }
        match self.rng.below(10) {
            0..=6 => e_bin(BinOpType::IntAdd, e_reg(base), e_const(k, 8)),
            7 | 8 => e_bin(BinOpType::IntSub, e_reg(base), e_const(k.wrapping_neg(), 8)),
            _ => e_bin(BinOpType::IntAdd, e_const(k, 8), e_reg(base)),
        }
    }

    fn sub4(&mut self, r: &str) -> Expression {
        e_subpiece(0, 4, e_reg(r))
    }

    fn e8(&mut self, depth: u32) -> Expression {
        use BinOpType::*;
        if depth == 0 {
            return if self.rng.chance(3, 5) { e_reg(self.reg()) } else { e_const(self.c(), 8) };
        }
        match self.rng.below(14) {
            0..=3 => {
                let op = *self.rng.pick(&[IntAdd, IntAdd, IntSub]);
                let c = if self.rng.bool() { self.c() } else { *self.rng.pick(&[1i64, 1, 2, 3, 4, 8, -1, 16]) };
                e_bin(op, e_reg(self.reg()), e_const(c, 8))
            }
            4 | 5 => {
                let op = *self.rng.pick(&[IntAdd, IntSub]);
                let l = self.e8(depth - 1);
                let r = self.e8(depth - 1);
                e_bin(op, l, r)
            }
            6 => {
                let m = *self.rng.pick(&[0xffi64, 0xffff, 0x7, 0xf, 0xffff_ffff, -16, -256, 0x7fff_ffff, 1]);
                let a = self.e8(depth - 1);
                if self.rng.chance(1, 5) {
                    e_bin(IntAnd, e_const(m, 8), a)
                } else {
                    e_bin(IntAnd, a, e_const(m, 8))
                }
            }
            7 => {
                let op = *self.rng.pick(&[IntOr, IntXOr, IntXOr]);
                let a = e_reg(self.reg());
                let b = if self.rng.bool() { e_reg(self.reg()) } else { e_const(self.c(), 8) };
                e_bin(op, a, b)
            }
            8 => {
                let a = self.e8(depth - 1);
                match self.rng.below(4) {
                    0 => e_bin(IntMult, a, e_const(*self.rng.pick(&[2i64, 3, 4, 8, -1, 10]), 8)),
                    1 => e_bin(IntLeft, a, e_const(*self.rng.pick(&[1i64, 2, 3, 4, 63]), 1)),
                    2 => e_bin(IntRight, a, e_const(*self.rng.pick(&[1i64, 2, 8, 32, 63]), 1)),
                    _ => e_bin(IntSRight, a, e_const(*self.rng.pick(&[1i64, 2, 8, 63]), 1)),
                }
            }
            9 | 10 => {
                let op = *self.rng.pick(&[CastOpType::IntZExt, CastOpType::IntSExt]);
                let r = self.reg();
                let inner = if self.rng.chance(1, 3) {
                    e_bin(*self.rng.pick(&[IntAdd, IntSub, IntAnd]), self.sub4(r), e_const(self.c(), 4))
                } else {
                    self.sub4(r)
                };
                e_cast(op, 8, inner)
            }
            11 => e_un(*self.rng.pick(&[UnOpType::Int2Comp, UnOpType::IntNegate]), e_reg(self.reg())),
            12 => e_cast(CastOpType::IntZExt, 8, e_var(&self.flag())),
            _ => e_const(self.c(), 8),
        }
    }

    fn cmp(&mut self) -> Expression {
        use BinOpType::*;
        let op = *self.rng.pick(CMP_OPS);
        match self.rng.below(14) {
            13 => {
                // comparison with a value at the edge of the signed or unsigned range, on either side; the constant joins
                // the pool the initial states are biased around, so both outcomes are driven
                let k = *self.rng.pick(&[i64::MAX, i64::MIN, -1, 0, i64::MAX - 1, i64::MIN + 1, -2, 1]);
                self.consts.push(k);
                let r = self.reg();
                if self.rng.bool() {
                    e_bin(op, e_const(k, 8), e_reg(r))
                } else {
                    e_bin(op, e_reg(r), e_const(k, 8))
                }
            }
            12 => {
                // both sides derived from the SAME register by constant offsets: (R + k1) cmp (R + k2).
                // The truth value depends on wrap-around for entry values in a tiny window, so the constants
                // that put R into that window join the pool the initial states are biased around.
                let r = self.reg();
                let k1 = *self.rng.pick(&[1i64, 2, 5, 8, 16, -1, -4]);
                let k2 = *self.rng.pick(&[3i64, 10, 7, 24, -2, -8, 0]);
                for k in [k1, k2] {
                    self.consts.push(k.wrapping_neg());
                    self.consts.push(i64::MAX.wrapping_sub(k).wrapping_add(1));
                }
                let side = |k: i64| if k == 0 { e_reg(r) } else { e_bin(IntAdd, e_reg(r), e_const(k, 8)) };
                e_bin(op, side(k1), side(k2))
            }
            0..=3 => e_bin(op, e_reg(self.reg()), e_const(self.c(), 8)),
            4 | 5 => e_bin(op, e_const(self.c(), 8), e_reg(self.reg())),
            6 => e_bin(op, e_reg(self.reg()), e_reg(self.reg())),
            7 | 8 => {
                let r = self.reg();
                let c = e_const(self.c(), 4);
                if self.rng.chance(1, 3) {
                    e_bin(op, c, self.sub4(r))
                } else {
                    e_bin(op, self.sub4(r), c)
                }
            }
            9 => {
                let aop = *self.rng.pick(&[IntAdd, IntSub]);
                let k = *self.rng.pick(&[1i64, 2, 3, 8, -1, 100]);
                let inner = e_bin(aop, e_reg(self.reg()), e_const(k, 8));
                e_bin(op, inner, e_const(self.c(), 8))
            }
            10 => {
                let a = e_reg(self.reg());
                let b = if self.rng.bool() { e_reg(self.reg()) } else { e_const(self.c(), 8) };
                let z = e_const(*self.rng.pick(&[0i64, 0, 0, 1, -1]), 8);
                e_bin(op, e_bin(IntSub, a, b), z)
            }
            _ => {
                // comparison of an extended sub-register
                let r = self.reg();
                let cast = *self.rng.pick(&[CastOpType::IntZExt, CastOpType::IntSExt]);
                e_bin(op, e_cast(cast, 8, self.sub4(r)), e_const(self.c(), 8))
            }
        }
    }

    fn cond(&mut self, depth: u32) -> Expression {
        use BinOpType::*;
        if depth == 0 {
            return if self.rng.chance(2, 3) { self.cmp() } else { e_var(&self.flag()) };
        }
        match self.rng.below(12) {
            0..=4 => self.cmp(),
            5 | 6 => e_var(&self.flag()),
            7 => e_un(UnOpType::BoolNegate, self.cond(depth - 1)),
            8 => {
                let op = *self.rng.pick(&[BoolAnd, BoolOr]);
                let a = self.cond(depth - 1);
                let b = self.cond(depth - 1);
                e_bin(op, a, b)
            }
            9 => {
                // (a - b s< 0) != sborrow(a, b)  <=>  a s< b
                let a = e_reg(self.reg());
                let b = if self.rng.bool() { e_reg(self.reg()) } else { e_const(self.c(), 8) };
                let lt = e_bin(IntSLess, e_bin(IntSub, a.clone(), b.clone()), e_const(0, 8));
                let ov = e_bin(IntSBorrow, a, b);
                e_bin(*self.rng.pick(&[IntNotEqual, IntEqual]), lt, ov)
            }
            10 => {
                let f = e_var(&self.flag());
                match self.rng.below(3) {
                    0 => e_bin(BoolXOr, f, e_const(1, 1)),
                    1 => e_bin(IntEqual, f, e_const(0, 1)),
                    _ => e_bin(IntNotEqual, f, e_const(0, 1)),
                }
            }
            _ => {
                // unsigned "below or equal": CF | ZF
                let a = e_var(&var("CF", 1));
                let b = e_var(&var("ZF", 1));
                e_bin(BoolOr, a, b)
            }
        }
    }

    fn load_slot(&mut self, defs: &mut Vec<Term<Def>>, slot: (i64, u32), target: &str, sp_now: i64) {
        let a = self.addr(slot.0, sp_now);
        if slot.1 == 8 {
            defs.push(load(self.t("d"), reg(target), a));
        } else {
            let tv = tmp(&format!("$U{}", self.n), 4);
            defs.push(load(self.t("d"), tv.clone(), a));
            let cast = *self.rng.pick(&[CastOpType::IntZExt, CastOpType::IntSExt]);
            defs.push(assign(self.t("d"), reg(target), e_cast(cast, 8, e_var(&tv))));
        }
    }

    fn store_slot(&mut self, defs: &mut Vec<Term<Def>>, slot: (i64, u32), value: Expression, sp_now: i64) {
        let a = self.addr(slot.0, sp_now);
        defs.push(store(self.t("d"), a, value));
    }

    fn def(&mut self, defs: &mut Vec<Term<Def>>, sp_now: &mut i64, pending_pops: &mut Vec<&'static str>) {
        match self.rng.below(20) {
            0..=3 => {
                let r = self.reg();
                let depth = self.rng.range_usize(1, 2) as u32;
                let e = self.e8(depth);
                defs.push(assign(self.t("d"), reg(r), e));
            }
            4 => {
                let r = self.reg();
                let c = self.c();
                defs.push(assign(self.t("d"), reg(r), e_const(c, 8)));
            }
            5..=7 if !self.slots.is_empty() => {
                let s = *self.rng.pick(&self.slots);
                let r = self.reg();
                self.load_slot(defs, s, r, *sp_now);
            }
            8..=10 if !self.slots.is_empty() => {
                let s = *self.rng.pick(&self.slots);
                let v = if s.1 == 8 {
                    if self.rng.chance(2, 3) {
                        e_reg(self.reg())
                    } else {
                        e_const(self.c(), 8)
                    }
                } else if self.rng.chance(2, 3) {
                    let r = self.reg();
                    self.sub4(r)
                } else {
                    e_const(self.c(), 4)
                };
                self.store_slot(defs, s, v, *sp_now);
            }
            11..=13 => {
                let f = self.flag();
                let e = if self.rng.chance(3, 4) { self.cmp() } else { self.cond(1) };
                defs.push(assign(self.t("d"), f, e));
            }
            14 => {
                // push
                let r = self.reg();
                defs.push(assign(self.t("d"), reg("RSP"), e_bin(BinOpType::IntSub, e_reg("RSP"), e_const(8, 8))));
                defs.push(store(self.t("d"), e_reg("RSP"), e_reg(r)));
                *sp_now -= 8;
                let popped = if self.rng.chance(2, 3) { r } else { self.reg() };
                pending_pops.push(popped);
            }
            15 if !pending_pops.is_empty() => self.pop(defs, sp_now, pending_pops),
            16 | 17 => {
                let r = self.reg();
                let step = *self.rng.pick(&[1i64, 1, -1, 2, 3, 4, 8, -2]);
                let op = if self.rng.chance(1, 4) { BinOpType::IntSub } else { BinOpType::IntAdd };
                defs.push(assign(self.t("d"), reg(r), e_bin(op, e_reg(r), e_const(step, 8))));
            }
            _ => {
                let a = self.reg();
                let b = self.reg();
                defs.push(assign(self.t("d"), reg(a), e_reg(b)));
            }
        }
    }

    fn pop(&mut self, defs: &mut Vec<Term<Def>>, sp_now: &mut i64, pending_pops: &mut Vec<&'static str>) {
        if let Some(r) = pending_pops.pop() {
            defs.push(load(self.t("d"), reg(r), e_reg("RSP")));
            defs.push(assign(self.t("d"), reg("RSP"), e_bin(BinOpType::IntAdd, e_reg("RSP"), e_const(8, 8))));
            *sp_now += 8;
        }
    }

    fn function(&mut self) -> Term<Sub> {
        let nblk = self.rng.range_usize(2, 6);
        let blk_tids: Vec<Tid> = (0..nblk).map(|i| tid(&format!("blk{i}"), &format!("b{i:02}0"))).collect();
        // ---- frame layout
        let frame: i64 = *self.rng.pick(&[0i64, 16, 16, 32, 48, 64]);
        self.has_fp = self.rng.chance(3, 5);
        let pushed = self.has_fp && self.rng.chance(4, 5);
        let mask = frame > 0 && self.rng.chance(1, 8);
        self.rbp_off = if pushed { -8 } else { 0 };
        let mut base_sp = -(frame + if pushed { 8 } else { 0 });
        if mask {
            base_sp &= -16;
        }
        let lo = if frame == 0 { base_sp - 64 } else { base_sp };
        let nslots = self.rng.range_usize(2, 4);
        for _ in 0..nslots {
            if !self.slots.is_empty() && self.rng.chance(1, 4) {
                // overlapping / adjacent sibling of an existing slot
                let (o, s) = *self.rng.pick(&self.slots);
                let sib = if s == 8 { (o + *self.rng.pick(&[0i64, 4]), 4) } else { (o & -8, 8) };
                if sib.0 + sib.1 as i64 <= 0 && sib.0 >= lo && !self.slots.contains(&sib) {
                    self.slots.push(sib);
                    continue;
                }
            }
            let size = *self.rng.pick(&[8u32, 8, 4]);
            let span = (-(lo) / size as i64).max(1);
            let o = -(self.rng.range_i64(1, span) * size as i64);
            if !self.slots.contains(&(o, size)) {
                self.slots.push((o, size));
            }
        }
        if self.rng.chance(1, 4) {
            // stack parameter area / return address
            let o = *self.rng.pick(&[0i64, 8, 8, 16, 24]);
            let size = *self.rng.pick(&[8u32, 8, 4]);
            self.slots.push((o, size));
        }
        // ---- counter
        let counter = if self.rng.chance(3, 5) && nblk >= 2 {
            let step = *self.rng.pick(&[1i64, 1, 1, 2, 3, 4, 8, -1, -1, -2, -3]);
            let init = if self.rng.chance(2, 3) { *self.rng.pick(&[0i64, 0, 1, 10, -5, 100]) } else { self.c() };
            let dist = *self.rng.pick(&[3i64, 5, 8, 10, 10, 16, 100]);
            let bound = if self.rng.chance(3, 4) { init.wrapping_add(step.wrapping_mul(dist)) } else { self.c() };
            self.consts.push(bound);
            self.consts.push(init);
            let slot = if self.rng.chance(1, 3) {
                self.slots.iter().copied().find(|(o, _)| *o < 0)
            } else {
                None
            };
            Some(Counter {
                reg: self.reg(),
                slot,
                init,
                step,
                bound,
                op: *self.rng.pick(CMP_OPS),
                const_left: self.rng.chance(1, 4),
                via_flag: self.rng.chance(1, 3),
                negate: self.rng.chance(1, 4),
            })
        } else {
            None
        };
        let loop_blk = if counter.is_some() { self.rng.range_usize(1, nblk - 1) } else { usize::MAX };

        let mut blocks = Vec::new();
        for i in 0..nblk {
            let mut defs = Vec::new();
            let mut sp_now = base_sp;
            let mut pops: Vec<&'static str> = Vec::new();
            if i == 0 {
                // prologue
                if pushed {
                    defs.push(assign(self.t("d"), reg("RSP"), e_bin(BinOpType::IntSub, e_reg("RSP"), e_const(8, 8))));
                    defs.push(store(self.t("d"), e_reg("RSP"), e_reg("RBP")));
                }
                if self.has_fp {
                    defs.push(assign(self.t("d"), reg("RBP"), e_reg("RSP")));
                }
                if frame > 0 {
                    if self.rng.chance(1, 5) {
                        defs.push(assign(self.t("d"), reg("RSP"), e_bin(BinOpType::IntAdd, e_reg("RSP"), e_const(-frame, 8))));
                    } else {
                        defs.push(assign(self.t("d"), reg("RSP"), e_bin(BinOpType::IntSub, e_reg("RSP"), e_const(frame, 8))));
                    }
                }
                if mask {
                    defs.push(assign(self.t("d"), reg("RSP"), e_bin(BinOpType::IntAnd, e_reg("RSP"), e_const(-16, 8))));
                }
                if let Some(c) = &counter {
                    match c.slot {
                        Some(s) => {
                            let v = e_const(c.init, s.1);
                            self.store_slot(&mut defs, s, v, sp_now);
                        }
                        None => defs.push(assign(self.t("d"), reg(c.reg), e_const(c.init, 8))),
                    }
                }
            }
            let nd = self.rng.below(5);
            let counter_pos = self.rng.below(nd + 1);
            for k in 0..=nd {
                if i == loop_blk && k == counter_pos {
                    let c = counter.as_ref().unwrap();
                    if let Some(s) = c.slot {
                        self.load_slot(&mut defs, s, c.reg, sp_now);
                        defs.push(assign(self.t("d"), reg(c.reg), e_bin(BinOpType::IntAdd, e_reg(c.reg), e_const(c.step, 8))));
                        let v = if s.1 == 8 { e_reg(c.reg) } else { self.sub4(c.reg) };
                        self.store_slot(&mut defs, s, v, sp_now);
                    } else if c.step < 0 && self.rng.bool() {
                        defs.push(assign(self.t("d"), reg(c.reg), e_bin(BinOpType::IntSub, e_reg(c.reg), e_const(-c.step, 8))));
                    } else {
                        defs.push(assign(self.t("d"), reg(c.reg), e_bin(BinOpType::IntAdd, e_reg(c.reg), e_const(c.step, 8))));
                    }
                }
                if k < nd {
                    self.def(&mut defs, &mut sp_now, &mut pops);
                }
            }
            // balance the stack pointer (exotic programs may leave it unbalanced)
            while !pops.is_empty() {
                if self.exotic && self.rng.chance(1, 3) {
                    break;
                }
                self.pop(&mut defs, &mut sp_now, &mut pops);
            }
            // ---- terminator
            let last = i + 1 == nblk;
            let rng_target = |g: &mut Gen, back_ok: bool| -> Tid {
                if i + 1 < nblk && (!back_ok || g.rng.chance(7, 10)) {
                    blk_tids[g.rng.range_usize(i + 1, nblk - 1)].clone()
                } else {
                    let lo = if g.exotic && g.rng.chance(1, 4) { 0 } else { 1 };
                    blk_tids[g.rng.range_usize(lo, nblk - 1)].clone()
                }
            };
            let mut jmps = Vec::new();
            if i == loop_blk {
                let c = counter.as_ref().unwrap();
                let (l, r) = if c.const_left { (e_const(c.bound, 8), e_reg(c.reg)) } else { (e_reg(c.reg), e_const(c.bound, 8)) };
                let mut cond = e_bin(c.op, l, r);
                if c.via_flag {
                    let f = self.flag();
                    defs.push(assign(self.t("d"), f.clone(), cond));
                    cond = e_var(&f);
                }
                if c.negate {
                    cond = e_un(UnOpType::BoolNegate, cond);
                }
                let back = blk_tids[self.rng.range_usize(1, i)].clone();
                let fwd = if last { blk_tids[self.rng.range_usize(1, nblk - 1)].clone() } else { rng_target(self, false) };
                let (t1, t2) = if self.rng.chance(4, 5) { (back, fwd) } else { (fwd, back) };
                jmps.push(jmp(self.t("j"), Jmp::CBranch { target: t1, condition: cond }));
                jmps.push(jmp(self.t("j"), Jmp::Branch(t2)));
            } else {
                let choice = self.rng.below(20);
                match choice {
                    0..=9 if !last => {
                        let cond = self.cond(2);
                        let t1 = rng_target(self, true);
                        let t2 = rng_target(self, true);
                        jmps.push(jmp(self.t("j"), Jmp::CBranch { target: t1, condition: cond }));
                        jmps.push(jmp(self.t("j"), Jmp::Branch(t2)));
                    }
                    10..=16 if !last => {
                        let t = rng_target(self, true);
                        jmps.push(jmp(self.t("j"), Jmp::Branch(t)));
                    }
                    _ => {
                        // epilogue + return
                        if self.has_fp && self.rng.chance(2, 3) {
                            defs.push(assign(self.t("d"), reg("RSP"), e_reg("RBP")));
                        } else if sp_now != self.rbp_off && !(self.rng.chance(1, 10)) {
                            defs.push(assign(self.t("d"), reg("RSP"), e_bin(BinOpType::IntAdd, e_reg("RSP"), e_const(self.rbp_off - sp_now, 8))));
                        }
                        if pushed {
                            defs.push(load(self.t("d"), reg("RBP"), e_reg("RSP")));
                            defs.push(assign(self.t("d"), reg("RSP"), e_bin(BinOpType::IntAdd, e_reg("RSP"), e_const(8, 8))));
                        }
                        let rv = tmp(&format!("$Uret{}", self.n), 8);
                        defs.push(load(self.t("d"), rv.clone(), e_reg("RSP")));
                        defs.push(assign(self.t("d"), reg("RSP"), e_bin(BinOpType::IntAdd, e_reg("RSP"), e_const(8, 8))));
                        jmps.push(jmp(self.t("j"), Jmp::Return(e_var(&rv))));
                    }
                }
            }
            blocks.push(blk(blk_tids[i].clone(), defs, jmps));
        }
        sub(tid("sub_f", "f000"), "f", blocks)
    }
}

fn pool_const(rng: &mut Rng) -> i64 {
    match rng.below(20) {
        0..=6 => rng.range_i64(0, 20),
        7 | 8 => -rng.range_i64(1, 20),
        9..=14 => *rng.pick(&[
            0x7fi64,
            0x80,
            0xff,
            0x100,
            0x7fff,
            0xffff,
            0x7fff_ffff,
            0x8000_0000,
            0xffff_ffff,
            0x1_0000_0000,
            i64::MAX,
            i64::MIN,
            -1,
            -0x8000_0000,
            1000,
        ]),
        _ => rng.biased(8) as i64,
    }
}

/// Generate one program; returns the project after basic (and optionally optimising) normalisation.
pub fn gen_program(rng: &mut Rng, optimize: bool, exotic: bool) -> (Project, Meta) {
    let nconst = rng.range_usize(2, 4);
    let consts: Vec<i64> = (0..nconst).map(|_| pool_const(rng)).collect();
    let nregs = rng.range_usize(2, 5);
    let mut all: Vec<&'static str> = DATA_REGS.to_vec();
    rng.shuffle(&mut all);
    all.truncate(nregs);
    let mut g = Gen { rng, n: 0, consts, slots: Vec::new(), regs: all, has_fp: false, rbp_off: 0, exotic };
    let f = g.function();
    let mut meta = Meta { consts: g.consts.clone(), slots: g.slots.clone(), optimized: optimize };
    meta.consts.sort();
    meta.consts.dedup();
    let entry = f.tid.clone();
    let mut project = project_x64(program(vec![f], vec![], Some(entry)));
    let _ = project.normalize_basic();
    if optimize {
        let _ = project.normalize_optimize();
    }
    (project, meta)
}

/// Template workload "pointer or NULL": a register holds a small constant of the NULL range on one path and a stack
/// address on the other; after the join the program accesses memory through it. A run on the NULL path is aborted by
/// the interpreter's guard (the analysis may assume it does not happen); a run on the pointer path completes the access
/// and must find the following blocks reachable for the analysis, with all values represented.
pub fn gen_maybe_null_program(rng: &mut Rng, optimize: bool) -> (Project, Meta) {
    let mut n = 0u32;
    let mut t = |p: &str| -> Tid {
        n += 1;
        tid(&format!("{p}{n}"), &format!("{:04x}", 0x2000 + n * 4))
    };
    let frame = *rng.pick(&[0x20i64, 0x30, 0x40]);
    let k = *rng.pick(&[0i64, 8, 16, 24]);
    let nullish = *rng.pick(&[0i64, 0, 0, 8, -8, 1, 1000]);
    let preg = *rng.pick(&["RAX", "RBX", "RCX", "RDX"]);
    let creg = *rng.pick(&["RDI", "RSI", "R8"]);
    let cmp_const = *rng.pick(&[0i64, 1, 5, -1]);
    let cmp = *rng.pick(&[BinOpType::IntEqual, BinOpType::IntNotEqual, BinOpType::IntSLess, BinOpType::IntLess]);
    let b: Vec<Tid> = (0..4).map(|i| tid(&format!("blk_n{i}"), &format!("n{i:02}"))).collect();
    // b0
    let mut d0 = vec![assign(t("d"), reg("RSP"), e_bin(BinOpType::IntSub, e_reg("RSP"), e_const(frame, 8)))];
    let via_slot = rng.chance(1, 3);
    let pslot = (-frame + 32 - 8, 8u32); // slot that may hold the pointer
    d0.push(assign(t("d"), reg(preg), e_const(nullish, 8)));
    if via_slot {
        d0.push(store(t("d"), e_reg_off("RSP", 24), e_reg(preg)));
    }
    let cond = e_bin(cmp, e_reg(creg), e_const(cmp_const, 8));
    let (t1, t2) = if rng.bool() { (b[1].clone(), b[2].clone()) } else { (b[2].clone(), b[1].clone()) };
    let cond = if t1 == b[1] { cond } else { e_un(UnOpType::BoolNegate, cond) };
    let j0 = vec![jmp(t("j"), Jmp::CBranch { target: b[1].clone(), condition: cond }), jmp(t("j"), Jmp::Branch(b[2].clone()))];
    let _ = (t1, t2);
    // b1: pointer path
    let mut d1 = vec![assign(t("d"), reg(preg), e_reg_off("RSP", k))];
    if via_slot {
        d1.push(store(t("d"), e_reg_off("RSP", 24), e_reg(preg)));
    }
    let j1 = vec![jmp(t("j"), Jmp::Branch(b[2].clone()))];
    // b2: join + access
    let mut d2 = Vec::new();
    if via_slot {
        d2.push(load(t("d"), reg(preg), e_reg_off("RSP", 24)));
    }
    let other = *rng.pick(&["R9", "R10", "R11"]);
    match rng.below(3) {
        0 => d2.push(store(t("d"), e_reg(preg), e_const(rng.range_i64(1, 100), 8))),
        1 => d2.push(load(t("d"), reg(other), e_reg(preg))),
        _ => {
            d2.push(store(t("d"), e_reg(preg), e_reg(creg)));
            d2.push(load(t("d"), reg(other), e_reg(preg)));
        }
    }
    d2.push(assign(t("d"), reg("R12"), e_const(1, 8)));
    let j2 = vec![jmp(t("j"), Jmp::Branch(b[3].clone()))];
    // b3: epilogue
    let rv = tmp("$Uretn", 8);
    let d3 = vec![
        assign(t("d"), reg("R13"), e_bin(BinOpType::IntAdd, e_reg("R12"), e_const(1, 8))),
        assign(t("d"), reg("RSP"), e_bin(BinOpType::IntAdd, e_reg("RSP"), e_const(frame, 8))),
        load(t("d"), rv.clone(), e_reg("RSP")),
        assign(t("d"), reg("RSP"), e_bin(BinOpType::IntAdd, e_reg("RSP"), e_const(8, 8))),
    ];
    let j3 = vec![jmp(t("j"), Jmp::Return(e_var(&rv)))];
    let f = sub(tid("sub_f", "f000"), "f", vec![blk(b[0].clone(), d0, j0), blk(b[1].clone(), d1, j1), blk(b[2].clone(), d2, j2), blk(b[3].clone(), d3, j3)]);
    let mut slots = vec![(-frame + k, 8u32)];
    if via_slot && !slots.contains(&pslot) {
        slots.push((-frame + 24, 8));
    }
    let meta = Meta { consts: vec![cmp_const, nullish, 1], slots, optimized: optimize };
    let entry = f.tid.clone();
    let mut project = project_x64(program(vec![f], vec![], Some(entry)));
    let _ = project.normalize_basic();
    if optimize {
        let _ = project.normalize_optimize();
    }
    (project, meta)
}

// ---------------------------------------------------------------------------------------------
// Running the analysis and extracting what it claims

fn memory_config() -> &'static Value {
    static CFG: OnceLock<Value> = OnceLock::new();
    CFG.get_or_init(|| {
        let path = std::env::var("CWE_CHECKER_CONFIG").unwrap_or_else(|_| "/repo/src/config.json".to_string());
        std::fs::read_to_string(&path)
            .ok()
            .and_then(|t| serde_json::from_str::<Value>(&t).ok())
            .map(|v| v["Memory"].clone())
            .filter(|v| v.is_object())
            .unwrap_or_else(|| json!({"allocation_symbols": ["malloc", "calloc", "realloc", "reallocarray", "xmalloc", "strdup", "operator.new", "operator.new[]"]}))
    })
}

pub struct BlockAbs {
    pub regs: Vec<(Variable, AbsVal)>,
    pub slots: Vec<((i64, u32), AbsVal)>,
}

pub struct Extract {
    pub sub_tid: Tid,
    /// per block of the function: Some(values) or None if the analysis has no state for the block start
    pub blocks: BTreeMap<Tid, Option<BlockAbs>>,
    pub def_vals: BTreeMap<Tid, AbsVal>,
    pub def_addrs: BTreeMap<Tid, AbsVal>,
    pub stabilized: bool,
    pub ill_formed: u64,
    /// per block: how many distinct identifiers the values of the variables of its branch condition are relative to (at the block end)
    pub cond_ids: BTreeMap<Tid, usize>,
}

fn count_ill_formed(a: &AbsVal) -> u64 {
    let bad = |i: &Itv| (i.start > i.end || (i.start == i.end) != (i.stride == 0) || (i.stride != 0 && (i.end - i.start) % i.stride as i128 != 0)) as u64;
    a.abs.as_ref().map(bad).unwrap_or(0) + a.rel.iter().map(|(_, _, i)| bad(i)).sum::<u64>()
}

/// The pipeline as the command line tool runs it (after normalisation): CFG, function signatures, pointer inference.
pub fn analyse(project: &Project, meta: &Meta) -> Extract {
    let (cfg_graph, _logs) = graph::get_program_cfg_with_logs(&project.program);
    let binary: Vec<u8> = Vec::new();
    let ar = AnalysisResults::new(&binary, &cfg_graph, project);
    let (sigs, _sig_logs) = ar.compute_function_signatures();
    let ar = ar.with_function_signatures(Some(&sigs));
    let pi = ar.compute_pointer_inference(memory_config(), false);
    let stabilized = !pi.collected_logs.0.iter().any(|l| l.text.contains("Fixpoint did not stabilize"));
    let main_sub = project.program.term.subs.values().find(|s| !s.tid.is_artificial_sink_sub()).expect("no function");
    let sub_tid = main_sub.tid.clone();
    let mut ex = Extract { sub_tid: sub_tid.clone(), blocks: BTreeMap::new(), def_vals: BTreeMap::new(), def_addrs: BTreeMap::new(), stabilized, ill_formed: 0, cond_ids: BTreeMap::new() };
    for b in &main_sub.term.blocks {
        ex.blocks.insert(b.tid.clone(), None);
    }
    let g = pi.get_graph();
    let regs: Vec<Variable> = project.register_set.iter().cloned().collect();
    for idx in g.node_indices() {
        if let Node::BlkStart(blk, sub) = g[idx] {
            if sub.tid != sub_tid {
                continue;
            }
            let state = match pi.get_node_value(idx) {
                Some(NodeValue::Value(s)) => s,
                _ => continue,
            };
            let mut ba = BlockAbs { regs: Vec::new(), slots: Vec::new() };
            for r in &regs {
                if let Some(d) = pi.eval_at_node(idx, &Expression::Var(r.clone())) {
                    let a = decode(&d, &sub_tid);
                    ex.ill_formed += count_ill_formed(&a);
                    ba.regs.push((r.clone(), a));
                }
            }
            for (off, size) in &meta.slots {
                let address = Data::from_target(state.stack_id.clone(), IntervalDomain::from(crate::conv::bv_i(*off, 8)));
                let a = match state.load_value_from_address(&address, crate::conv::bs(*size), &project.runtime_memory_image) {
                    Ok(d) => decode(&d, &sub_tid),
                    Err(_) => AbsVal { w: *size, top: true, abs: None, rel: vec![], text: "unreadable (treated as Top)".into() },
                };
                ex.ill_formed += count_ill_formed(&a);
                ba.slots.push(((*off, *size), a));
            }
            ex.blocks.insert(blk.tid.clone(), Some(ba));
        }
    }
    for b in &main_sub.term.blocks {
        if let Some(Term { tid: jtid, term: Jmp::CBranch { condition, .. } }) = b.term.jmps.first() {
            let mut ids = BTreeSet::new();
            for v in condition.input_vars() {
                if let Some(d) = pi.eval_at_jmp(jtid, &Expression::Var(v.clone())) {
                    ids.extend(d.referenced_ids().cloned());
                }
            }
            ex.cond_ids.insert(b.tid.clone(), ids.len());
        }
        for d in &b.term.defs {
            if let Some(v) = pi.eval_value_at_def(&d.tid) {
                ex.def_vals.insert(d.tid.clone(), decode(&v, &sub_tid));
            }
            if let Some(v) = pi.eval_address_at_def(&d.tid) {
                ex.def_addrs.insert(d.tid.clone(), decode(&v, &sub_tid));
            }
        }
    }
    ex
}

// ---------------------------------------------------------------------------------------------
// Executions and the oracle

fn around(rng: &mut Rng, meta: &Meta, w: u32) -> u128 {
    match rng.below(10) {
        0..=5 if !meta.consts.is_empty() => {
            let c = *rng.pick(&meta.consts);
            let d = *rng.pick(&[0i64, 0, 1, -1, 2, -2, 3, 8, -8]);
            V::from_i(c.wrapping_add(d) as i128, w).v
        }
        6 => rng.below(24) as u128,
        7 => V::from_i(-(rng.below(24) as i128), w).v,
        _ => rng.biased(w),
    }
}

pub fn initial_state(rng: &mut Rng, project: &Project, meta: &Meta) -> XState {
    let mut st = XState::default();
    for r in project.register_set.iter() {
        let w = u64::from(r.size) as u32;
        let v = if w == 1 {
            rng.below(2) as u128
        } else if r.name == "RSP" {
            ((rng.next_u64() >> 20) << 16) as u128 | 0x7000_0000_0000
        } else {
            around(rng, meta, w)
        };
        st.vars.insert(r.clone(), V::new(v, w));
    }
    if rng.chance(1, 3) {
        // two registers equal / adjacent
        let a = reg(*rng.pick(DATA_REGS));
        let b = reg(*rng.pick(DATA_REGS));
        let va = st.vars[&a];
        st.vars.insert(b, V::new(va.v.wrapping_add(*rng.pick(&[0u128, 0, 1, u64::MAX as u128])), 8));
    }
    let sp = st.vars[&reg("RSP")].v as u64;
    let m = Machine::new(0);
    for (off, size) in &meta.slots {
        if rng.bool() {
            let v = around(rng, meta, *size);
            m.store_mem(&mut st, sp.wrapping_add(*off as u64), *size, v);
        }
    }
    st
}

struct Finding {
    sig: String,
    detail: String,
}

struct Obs<'a> {
    ex: &'a Extract,
    m: &'a Machine,
    entry: &'a XState,
    entry_sp: u64,
    finding: Option<Finding>,
    incon: BTreeMap<String, u64>,
    evals: u64,
    blocks_seen: u64,
    nontop_checked: bool,
    cur_block_has_value: bool,
    prev_block: Option<Tid>,
}

impl<'a> Obs<'a> {
    fn check(&mut self, what: &str, sig: &str, a: &AbsVal, c: V, is_sp: bool) {
        if self.finding.is_some() {
            return;
        }
        self.evals += 1;
        match a.member(c, self.entry, self.m) {
            Member::Yes => {
                if !is_sp && !a.is_top() {
                    self.nontop_checked = true;
                }
            }
            Member::Unknown => *self.incon.entry("identifier-not-concretisable".to_string()).or_insert(0) += 1,
            Member::No => {
                self.finding = Some(Finding {
                    sig: format!("{sig}:{}", a.shape()),
                    detail: format!("{what}: concrete value {:#x} (signed {}) of {} bytes is not represented by the abstract value {}", c.v, c.s(), c.w, a.text),
                });
            }
        }
    }
}

impl<'a> Observer for Obs<'a> {
    fn block_start(&mut self, blk: &Term<Blk>, st: &XState) {
        if self.finding.is_some() {
            return;
        }
        self.blocks_seen += 1;
        let prev = self.prev_block.replace(blk.tid.clone());
        let ex = self.ex;
        match ex.blocks.get(&blk.tid) {
            Some(Some(ba)) => {
                self.cur_block_has_value = true;
                for (r, a) in &ba.regs {
                    let c = match self.m.read_var(st, r) {
                        Ok(c) => c,
                        Err(_) => continue,
                    };
                    let sig = if r.size == ByteSize::new(1) { "blk-start:flag" } else { "blk-start:reg" };
                    self.check(&format!("register {} at the start of block {}", r.name, blk.tid), sig, a, c, r.name == "RSP");
                }
                for ((off, size), a) in &ba.slots {
                    let c = V::new(self.m.load_mem(st, self.entry_sp.wrapping_add(*off as u64), *size), *size);
                    self.check(&format!("stack slot [entry RSP{off:+}]:{size} at the start of block {}", blk.tid), "blk-start:slot", a, c, false);
                }
            }
            _ => {
                self.cur_block_has_value = false;
                self.evals += 1;
                let hint = match prev.as_ref().and_then(|p| ex.cond_ids.get(p)) {
                    None => "no-condition",
                    Some(0) => "condition-on-absolute-values",
                    Some(1) => "condition-on-values-relative-to-one-id",
                    Some(_) => "condition-on-values-relative-to-different-ids",
                };
                self.finding = Some(Finding {
                    sig: format!("unreachable-block-reached:{hint}"),
                    detail: format!("the run reaches block {} (coming from {}) but the analysis has no state for its start (considers it unreachable)", blk.tid, prev.as_ref().map(|t| format!("{t}")).unwrap_or("the entry".into())),
                });
            }
        }
    }

    fn before_def(&mut self, def: &Term<Def>, st: &XState) {
        if self.finding.is_some() || !self.cur_block_has_value {
            return;
        }
        let ex = self.ex;
        let (address, value) = match &def.term {
            Def::Load { address, .. } => (Some(address), None),
            Def::Store { address, value } => (Some(address), Some(value)),
            Def::Assign { .. } => (None, None),
        };
        if let Some(address) = address {
            if let (Some(a), Ok(c)) = (ex.def_addrs.get(&def.tid), self.m.eval(st, address)) {
                self.check(&format!("address of {} ({})", def.tid, def.term), "def:address", a, c, true);
            }
        }
        if let Some(value) = value {
            if let (Some(a), Ok(c)) = (ex.def_vals.get(&def.tid), self.m.eval(st, value)) {
                self.check(&format!("stored value of {} ({})", def.tid, def.term), "def:store-value", a, c, false);
            }
        }
    }

    fn after_def(&mut self, def: &Term<Def>, st: &XState) {
        if self.finding.is_some() || !self.cur_block_has_value {
            return;
        }
        let ex = self.ex;
        let (var, sig) = match &def.term {
            Def::Load { var, .. } => (var, "def:load-value"),
            Def::Assign { var, .. } => (var, "def:assign-value"),
            Def::Store { .. } => {
                if !ex.def_vals.contains_key(&def.tid) {
                    self.evals += 1;
                    self.finding = Some(Finding {
                        sig: "def-without-state-completed".into(),
                        detail: format!("the run completes {} ({}) but the analysis has no value for it although the block start has a state (an earlier access of the block is treated as a certain NULL dereference)", def.tid, def.term),
                    });
                }
                return;
            }
        };
        match ex.def_vals.get(&def.tid) {
            Some(a) => {
                if let Some(c) = st.get(var) {
                    self.check(&format!("value of {} ({})", def.tid, def.term), sig, a, c, var.name == "RSP");
                }
            }
            None => {
                self.evals += 1;
                self.finding = Some(Finding {
                    sig: "def-without-state-completed".into(),
                    detail: format!("the run completes {} ({}) but the analysis has no value for it although the block start has a state (an earlier access of the block is treated as a certain NULL dereference)", def.tid, def.term),
                });
            }
        }
    }
}

fn program_size(sub: &Term<Sub>) -> u64 {
    sub.term.blocks.iter().map(|b| 3 + b.term.defs.len() as u64 + b.term.jmps.len() as u64).sum()
}

fn regs_text(st: &XState) -> String {
    st.vars.iter().filter(|(v, _)| !v.is_temp).map(|(v, x)| format!("{}={:#x}", v.name, x.v)).collect::<Vec<_>>().join(" ")
}

fn check_program_inner(project: &Project, meta: &Meta, state_seed: u64, n_states: usize, max_blocks: usize, rep: &mut Report) -> Option<BTreeMap<Tid, usize>> {
    let case = || json!({"project": project_to_json(project), "meta": meta.to_json(), "state_seed": state_seed, "n_states": n_states, "max_blocks": max_blocks});
    let main_sub = match project.program.term.subs.values().find(|s| !s.tid.is_artificial_sink_sub()) {
        Some(s) if !s.term.blocks.is_empty() => s,
        _ => {
            rep.inconclusive("program-without-function-after-normalisation");
            return None;
        }
    };
    let size = program_size(main_sub);
    let ex = match guard(|| analyse(project, meta)) {
        Ok(ex) => ex,
        Err(p) => {
            rep.eval();
            rep.violation(format!("analysis:panic:{}", panic_site(&p)), None, format!("the analysis pipeline panicked: {p}\n{}", show_sub(main_sub)), case(), size);
            return None;
        }
    };
    if ex.ill_formed > 0 {
        rep.obs_n("ill-formed-interval-in-result(not judged here)", ex.ill_formed);
    }
    if !ex.stabilized {
        rep.inconclusive("fixpoint-did-not-stabilize");
        return None;
    }
    let prog_fp = fp_of(&main_sub.term);
    let unreachable = ex.blocks.values().filter(|b| b.is_none()).count();
    if unreachable > 0 {
        rep.obs("program:has-block-without-state");
    }
    let mut nontrivial_runs = 0u64;
    for k in 0..n_states {
        let mut rng = Rng::derive(state_seed, "c13-state", k as u64);
        let entry = initial_state(&mut rng, project, meta);
        let mut m = Machine::new(rng.next_u64());
        m.max_blocks = max_blocks;
        m.null_guard = Some((-1024, 1024));
        let entry_sp = entry.vars[&reg("RSP")].v as u64;
        let mut st = entry.clone();
        let mut obs = Obs { ex: &ex, m: &m, entry: &entry, entry_sp, finding: None, incon: BTreeMap::new(), evals: 0, blocks_seen: 0, nontop_checked: false, cur_block_has_value: false, prev_block: None };
        let trace = m.run_sub(main_sub, &mut st, &mut obs);
        rep.evals(obs.evals);
        for (k2, n) in &obs.incon {
            *rep.inconclusive.entry(k2.clone()).or_insert(0) += n;
        }
        if let Some(f) = obs.finding {
            let detail = format!(
                "{}\n  initial state #{k} (state seed {state_seed}): {}\n  events before: {}\n--- function ({}):\n{}",
                f.detail,
                regs_text(&entry),
                trace.len(),
                if meta.optimized { "after normalize_basic + normalize_optimize" } else { "after normalize_basic" },
                show_sub(main_sub)
            );
            rep.violation(f.sig, None, detail, case(), size);
            continue;
        }
        match trace.last() {
            Some(Ev::Return { .. }) => rep.obs("run:return"),
            Some(Ev::Capped) => rep.obs("run:step-cap"),
            Some(Ev::DeadEnd { .. }) => rep.obs("run:dead-end"),
            Some(Ev::NullAbort { .. }) => rep.obs("run:null-abort"),
            Some(Ev::Undefined { what }) => {
                rep.obs("run:undefined");
                rep.note(format!("a generated program did something undefined: {what}"));
            }
            _ => rep.obs("run:other"),
        }
        if obs.blocks_seen >= 2 && obs.nontop_checked {
            rep.nontrivial(mix(prog_fp, k as u64 ^ state_seed.rotate_left(17)));
            nontrivial_runs += 1;
        }
    }
    if nontrivial_runs > 0 {
        rep.obs("program:with-nontrivial-runs");
    }
    Some(ex.cond_ids)
}

/// Key of the proposed known finding: `DataDomain::intersect` (documented as unsound in its own comment) treats
/// values relative to different identifiers as disjoint, so a branch condition that relates two parameters
/// (`a == b`, `(a - b) == c`, ...) makes the feasible branch unreachable for the analysis.
pub const KNOWN_MIXED_IDS: &str = "c13-intersection-of-values-relative-to-different-ids";

/// The same program with every branch condition whose variables are relative to two or more different
/// identifiers replaced by an opaque flag (a register the program never writes and the analysis knows nothing about).
/// A comparison whose two operands are plain variables (possibly cast / sub-pieced / negated as a whole).
/// On such conditions the recorded defect (arithmetic on a value relative to one identifier is propagated into an
/// operand relative to another identifier and then intersected) has no arithmetic to decompose; a wrong verdict there
/// is a different defect and must not hide behind the known finding.
fn is_bare_comparison(e: &Expression) -> bool {
    fn simple(e: &Expression) -> bool {
        match e {
            Expression::Var(_) | Expression::Const(_) => true,
            Expression::Cast { arg, .. } | Expression::Subpiece { arg, .. } => simple(arg),
            _ => false,
        }
    }
    match e {
        Expression::UnOp { op: UnOpType::BoolNegate, arg } => is_bare_comparison(arg),
        Expression::BinOp { op, lhs, rhs } if CMP_OPS.contains(op) => simple(lhs) && simple(rhs),
        _ => false,
    }
}

fn opaque_variant(project: &Project, cond_ids: &BTreeMap<Tid, usize>) -> Project {
    let mut p = project.clone();
    for sub in p.program.term.subs.values_mut() {
        for b in sub.term.blocks.iter_mut() {
            if cond_ids.get(&b.tid).copied().unwrap_or(0) >= 2 {
                if let Some(Term { term: Jmp::CBranch { condition, .. }, .. }) = b.term.jmps.first_mut() {
                    if !is_bare_comparison(condition) {
                        *condition = Expression::Var(var("PF", 1));
                    }
                }
            }
        }
    }
    p
}

/// Analyse one (already normalised) project and run it from `n_states` initial states.
/// Discriminator for the known-finding proposal `KNOWN_MIXED_IDS`: the program has a branch condition over values
/// relative to different identifiers AND no violation is left when exactly those conditions are made opaque.
pub fn check_program(project: &Project, meta: &Meta, state_seed: u64, n_states: usize, max_blocks: usize, rep: &mut Report) {
    let mut tmp = Report::new();
    let cond_ids = check_program_inner(project, meta, state_seed, n_states, max_blocks, &mut tmp);
    if !tmp.violations.is_empty() {
        if let Some(ci) = cond_ids.filter(|ci| ci.values().any(|n| *n >= 2)) {
            let variant = opaque_variant(project, &ci);
            let mut tmp2 = Report::new();
            check_program_inner(&variant, meta, state_seed, n_states, max_blocks, &mut tmp2);
            let explained = tmp2.violations.is_empty();
            tmp.obs(if explained { "violation-explained-by-mixed-identifier-condition" } else { "violation-not-explained-by-mixed-identifier-condition" });
            if explained {
                let old = std::mem::take(&mut tmp.violations);
                for (sig, mut v) in old {
                    v.signature = format!("mixed-ids:{sig}");
                    v.known_key = Some(KNOWN_MIXED_IDS.to_string());
                    tmp.violations.insert(v.signature.clone(), v);
                }
            }
        }
    }
    rep.merge(tmp);
}

fn observe_program(project: &Project, meta: &Meta, rep: &mut Report) {
    rep.obs(if meta.optimized { "pipeline:basic+optimize" } else { "pipeline:basic" });
    for s in project.program.term.subs.values().filter(|s| !s.tid.is_artificial_sink_sub()) {
        rep.obs(&format!("blocks:{}", s.term.blocks.len()));
        let mut back_edges = false;
        let index: BTreeMap<&Tid, usize> = s.term.blocks.iter().enumerate().map(|(i, b)| (&b.tid, i)).collect();
        for (i, b) in s.term.blocks.iter().enumerate() {
            for d in &b.term.defs {
                match &d.term {
                    Def::Load { var, .. } => rep.obs(&format!("def:load{}", u64::from(var.size))),
                    Def::Store { value, .. } => rep.obs(&format!("def:store{}", u64::from(value.bytesize()))),
                    Def::Assign { var, .. } if var.size == ByteSize::new(1) => rep.obs("def:flag"),
                    Def::Assign { var, .. } if var.name == "RSP" => rep.obs("def:rsp"),
                    Def::Assign { .. } => rep.obs("def:assign"),
                }
            }
            for j in &b.term.jmps {
                match &j.term {
                    Jmp::CBranch { target, condition } => {
                        if index.get(target).is_some_and(|t| *t <= i) {
                            back_edges = true;
                        }
                        let mut ops = BTreeSet::new();
                        collect_cmp_ops(condition, &mut ops);
                        if ops.is_empty() {
                            rep.obs("cbranch:on-flag");
                        }
                        for o in ops {
                            rep.obs(&format!("cbranch:{o}"));
                        }
                    }
                    Jmp::Branch(target) => {
                        if index.get(target).is_some_and(|t| *t <= i) {
                            back_edges = true;
                        }
                    }
                    Jmp::Return(_) => rep.obs("jmp:return"),
                    _ => (),
                }
            }
        }
        if back_edges {
            rep.obs("program:has-loop");
        }
    }
}

fn collect_cmp_ops(e: &Expression, out: &mut BTreeSet<String>) {
    match e {
        Expression::BinOp { op, lhs, rhs } => {
            if CMP_OPS.contains(op) {
                out.insert(format!("{op:?}"));
            }
            collect_cmp_ops(lhs, out);
            collect_cmp_ops(rhs, out);
        }
        Expression::UnOp { op, arg } => {
            if *op == UnOpType::BoolNegate {
                out.insert("negated".into());
            }
            collect_cmp_ops(arg, out);
        }
        Expression::Cast { arg, .. } | Expression::Subpiece { arg, .. } => collect_cmp_ops(arg, out),
        _ => (),
    }
}

fn run(cfg: &Cfg) -> Report {
    let shards = cfg.tier.pick(768usize, 1024usize);
    let per_shard = cfg.tier.pick(16usize, 12usize);
    let n_states = cfg.tier.pick(64usize, 1024usize);
    let max_blocks = cfg.tier.pick(64usize, 96usize);
    par_shards(cfg, "c13", shards, |idx, rng, rep| {
        for i in 0..per_shard {
            let optimize = (idx + i) % 2 == 0;
            let exotic = rng.chance(1, 8);
            let (project, meta) = match guard(|| gen_program(rng, optimize, exotic)) {
                Ok(p) => p,
                Err(msg) => {
                    rep.inconclusive(&format!("generator-or-normalisation-panic:{}", panic_site(&msg)));
                    continue;
                }
            };
            let state_seed = rng.next_u64();
            observe_program(&project, &meta, rep);
            check_program(&project, &meta, state_seed, n_states, max_blocks, rep);
            if idx < 3 && i == 0 {
                rep.sample(json!({"program": show_program(&project.program.term), "meta": meta.to_json(), "state_seed": state_seed, "initial_states": n_states}));
            }
        }
        // template workload: pointer-or-NULL register dereferenced after a join
        for i in 0..2usize {
            if let Ok((project, meta)) = guard(|| gen_maybe_null_program(rng, (idx + i) % 2 == 0)) {
                let state_seed = rng.next_u64();
                observe_program(&project, &meta, rep);
                check_program(&project, &meta, state_seed, n_states.min(128), max_blocks, rep);
                rep.obs("workload:pointer-or-null-template");
            }
        }
    })
}

fn replay(_cfg: &Cfg, case: &Value) -> Report {
    let mut rep = Report::new();
    match project_from_json(&case["project"]) {
        Ok(project) => {
            let meta = Meta::from_json(&case["meta"]);
            let seed = case["state_seed"].as_u64().unwrap_or(1);
            let n = case["n_states"].as_u64().unwrap_or(64) as usize;
            let mb = case["max_blocks"].as_u64().unwrap_or(64) as usize;
            check_program(&project, &meta, seed, n, mb, &mut rep);
        }
        Err(e) => rep.note(format!("cannot parse replay case: {e}")),
    }
    rep
}
