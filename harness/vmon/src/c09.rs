//! C09 — `Project::normalize_basic` establishes the IR invariants the analyses rely on.
//!
//! Monitor shape: invariant checker. Raw projects in the shape the P-Code extractor emits
//! (generator of C08 with the irregularity knobs switched on) are normalized by the real
//! `normalize_basic`; the result is judged against the documented contract of the four passes
//! (duplicate removal, dangling references, block-to-function uniqueness, non-returning calls)
//! and handed to the real CFG builder, whose output is judged by C08's specification.

use crate::c08::{self, Knobs};
use crate::core::*;
use crate::irb::*;
use crate::prng::Rng;
use cwe_checker_lib::analysis::graph;
use cwe_checker_lib::intermediate_representation::*;
use serde_json::{json, Value};
use std::collections::{BTreeMap, BTreeSet};

pub fn info() -> CheckInfo {
    CheckInfo {
        id: "C09",
        rule: "random raw projects (<= 6 functions, <= 8 blocks each, sub_*/blk_*/instr_* tids) with injected dangling branch/call/return/hint targets, blocks (entry and non-entry) jumped to from other functions, duplicated def/jmp/non-entry-block tids (same block emitted twice or a different block under the same tid), returning calls to no_return externs and to functions without Return, empty functions and recursion; after normalize_basic: (1) all tids unique, (2) every function still exists and starts with its original entry block, blocks/defs/jmps whose tid was not a duplicate are still there in order and the first occurrence of a duplicated def/jmp tid survives, (3) every branch/call/return/hint target exists, (4) every intraprocedural target is a block of the same function, (5) a target is the original one, its function-specific copy, or an artificial sink exactly where the contract says so, hints lose exactly the nonexisting entries, (6) copies of foreign blocks equal the original up to the tid suffix, (7) every returning call to a no_return extern or to a function without Return instruction returns to the caller's own artificial sink block, which exists, (8) get_program_cfg does not panic and, judged by C08's specification, is the right graph. non-trivial = normalization had to change something besides adding the sink function; distinct = hash of the raw program",
        assumptions: &[
            "domain guards: tids of functions and of entry blocks are never duplicated (two functions sharing an entry tid cannot keep both 'unique ids' and 'original entry'); duplicates stay within their class (def with def, jmp with jmp, block with block); at most two jumps per block; no raw tid uses the 'Artificial Sink' names; cases violating a guard (possible only in hand-edited replays) are inconclusive",
            "'removal of duplicate TIDs' is read as: a term is a duplicate if an earlier term in program order (functions in map order, blocks in list order, defs then jmps) carries the same tid; the earlier one stays. Tids that also occur inside a block whose own tid is duplicated may disappear with that block, so nothing is demanded about them beyond uniqueness",
            "'function without Return' is decided on the normalized program by the existence of a Return jump in any block of the callee (find_non_returning_subs documentation); the artificial sink function is not a callee in this sense; calls whose target was dangling may lose their return site",
            "C08's specification is a correct reading of the CFG documentation",
        ],
        run,
        replay,
    }
}

pub fn knobs_c09(rng: &mut Rng) -> Knobs {
    Knobs {
        max_subs: 6,
        max_blocks: 8,
        shared: *rng.pick(&[0u32, 1, 1, 2, 3]),
        listed_shared: false,
        dangling: rng.chance(3, 4),
        dup_tids: rng.chance(2, 3),
        unknown_calls: true,
        callother: rng.chance(1, 3),
        two_jump_variants: rng.chance(1, 2),
    }
}

fn sfx(sub: &Tid) -> String {
    format!("_{sub}")
}

fn is_any_sink_block(t: &Tid) -> bool {
    t.is_artificial_sink_block("")
}

/// Same jump up to retargeting: same tid (plus `suffix`), same kind, same expressions.
fn same_jump_modulo_targets(raw: &Term<Jmp>, norm: &Term<Jmp>, suffix: &str) -> bool {
    if raw.tid.clone().with_id_suffix(suffix) != norm.tid {
        return false;
    }
    match (&raw.term, &norm.term) {
        (Jmp::Branch(_), Jmp::Branch(_)) => true,
        (Jmp::CBranch { condition: a, .. }, Jmp::CBranch { condition: b, .. }) => a == b,
        (Jmp::BranchInd(a), Jmp::BranchInd(b)) => a == b,
        (Jmp::Return(a), Jmp::Return(b)) => a == b,
        (Jmp::Call { .. }, Jmp::Call { .. }) => true,
        (Jmp::CallInd { target: a, .. }, Jmp::CallInd { target: b, .. }) => a == b,
        (Jmp::CallOther { description: a, .. }, Jmp::CallOther { description: b, .. }) => a == b,
        _ => false,
    }
}

fn intra_target(j: &Jmp) -> Option<&Tid> {
    match j {
        Jmp::Branch(t) | Jmp::CBranch { target: t, .. } => Some(t),
        Jmp::Call { return_, .. } | Jmp::CallInd { return_, .. } | Jmp::CallOther { return_, .. } => return_.as_ref(),
        _ => None,
    }
}

#[derive(Clone, Copy, PartialEq, Eq, Debug)]
enum Keep {
    Must,
    Optional,
    Absent,
}

struct RawFacts<'a> {
    subs: Vec<&'a Term<Sub>>,
    block_count: BTreeMap<Tid, usize>,
    /// tids of defs/jmps that occur inside a block whose own tid is duplicated
    wild: BTreeSet<Tid>,
    callables: BTreeSet<Tid>,
}

fn raw_facts(raw: &Project) -> Result<RawFacts<'_>, String> {
    let p = &raw.program.term;
    let subs: Vec<&Term<Sub>> = p.subs.values().collect();
    let mut block_count: BTreeMap<Tid, usize> = BTreeMap::new();
    let mut instr_tids: BTreeSet<Tid> = BTreeSet::new();
    for s in &subs {
        for b in &s.term.blocks {
            *block_count.entry(b.tid.clone()).or_insert(0) += 1;
            if b.term.jmps.len() > 2 {
                return Err("more than two jumps in a block".into());
            }
            for t in b.term.defs.iter().map(|d| &d.tid).chain(b.term.jmps.iter().map(|j| &j.tid)) {
                instr_tids.insert(t.clone());
            }
        }
    }
    let mut wild = BTreeSet::new();
    for s in &subs {
        for b in &s.term.blocks {
            if block_count[&b.tid] > 1 {
                wild.extend(b.term.defs.iter().map(|d| d.tid.clone()));
                wild.extend(b.term.jmps.iter().map(|j| j.tid.clone()));
            }
        }
    }
    // guards
    for s in &subs {
        if block_count.contains_key(&s.tid) || instr_tids.contains(&s.tid) || s.tid == raw.program.tid {
            return Err("a function tid is duplicated".into());
        }
        if let Some(e) = s.term.blocks.first() {
            if block_count[&e.tid] != 1 {
                return Err("an entry block tid is duplicated".into());
            }
        }
        if format!("{}", s.tid).starts_with("Artificial Sink") {
            return Err("raw program uses an artificial sink name".into());
        }
    }
    for t in block_count.keys() {
        if instr_tids.contains(t) || *t == raw.program.tid {
            return Err("duplicate across classes".into());
        }
        if format!("{t}").starts_with("Artificial Sink") {
            return Err("raw program uses an artificial sink name".into());
        }
    }
    if instr_tids.contains(&raw.program.tid) {
        return Err("duplicate across classes".into());
    }
    let mut callables: BTreeSet<Tid> = p.subs.keys().cloned().collect();
    callables.extend(p.extern_symbols.keys().cloned());
    Ok(RawFacts { subs, block_count, wild, callables })
}

/// Match the surviving terms `norm` (tid, equality test done by `same`) against the raw list with keep-status.
fn match_survivors<T>(raw: &[(&Term<T>, Keep)], norm: &[Term<T>], same: &dyn Fn(&Term<T>, &Term<T>) -> bool) -> Result<Vec<usize>, String> {
    let mut at = 0usize;
    let mut mapping = Vec::new();
    for n in norm {
        loop {
            if at >= raw.len() {
                return Err(format!("term {} is not an original term of the block at this position (new, reordered or altered)", n.tid));
            }
            let (r, keep) = raw[at];
            at += 1;
            if keep != Keep::Absent && same(r, n) {
                mapping.push(at - 1);
                break;
            }
            if keep == Keep::Must {
                return Err(format!("term {} was removed or altered although its tid is not a duplicate of an earlier term", r.tid));
            }
        }
    }
    for (r, keep) in &raw[at..] {
        if *keep == Keep::Must {
            return Err(format!("term {} was removed although its tid is not a duplicate of an earlier term", r.tid));
        }
    }
    Ok(mapping)
}

fn strip<'a>(id: &'a str, suffix: &str) -> &'a str {
    id.strip_suffix(suffix).unwrap_or(id)
}

pub fn check_normalize(raw: &Project, rep: &mut Report) -> bool {
    rep.eval();
    let case = || json!({"project": project_to_json(raw)});
    let size = raw.program.term.subs.values().map(|s| 1 + s.term.blocks.iter().map(|b| 1 + b.term.defs.len() as u64 + b.term.jmps.len() as u64).sum::<u64>()).sum::<u64>();
    let facts = match raw_facts(raw) {
        Ok(f) => f,
        Err(why) => {
            rep.inconclusive(&format!("outside-domain:{why}"));
            return false;
        }
    };
    let mut norm = raw.clone();
    if let Err(p) = guard(|| {
        let _ = norm.normalize_basic();
    }) {
        rep.violation(format!("normalize_basic:panic:{}", panic_site(&p)), None, format!("normalize_basic panicked: {p}\n--- raw program:\n{}", show_program(&raw.program.term)), case(), size);
        return true;
    }
    let np = &norm.program.term;
    let mut violated = false;
    let mut complain = |rep: &mut Report, sig: &str, detail: String| {
        rep.violation(sig.to_string(), None, format!("{detail}\n--- raw program:\n{}--- after normalize_basic:\n{}", show_program(&raw.program.term), show_program(np)), case(), size);
        violated = true;
    };

    // (1) unique tids
    {
        let mut seen: BTreeSet<Tid> = BTreeSet::new();
        let mut dups: Vec<String> = Vec::new();
        let mut add = |t: &Tid, what: &str| {
            if !seen.insert(t.clone()) {
                dups.push(format!("{what} {t}"));
            }
        };
        add(&norm.program.tid, "program");
        for s in np.subs.values() {
            add(&s.tid, "function");
            for b in &s.term.blocks {
                add(&b.tid, "block");
                for d in &b.term.defs {
                    add(&d.tid, "def");
                }
                for j in &b.term.jmps {
                    add(&j.tid, "jmp");
                }
            }
        }
        if let Some(first) = dups.first() {
            let class = first.split(' ').next().unwrap_or("");
            complain(rep, &format!("tid-not-unique:{class}"), format!("tids are not unique after normalization: {}", dups.join(", ")));
        }
    }

    // (2) functions, entry blocks, preservation of non-duplicate terms; (5) retargeting; hints
    let raw_block_exists = |t: &Tid| facts.block_count.contains_key(t);
    let mut seen_instr: BTreeSet<Tid> = BTreeSet::new();
    // callee classification on the normalized program
    let callee_never_returns = |target: &Tid| -> bool {
        if let Some(e) = np.extern_symbols.get(target) {
            return e.no_return;
        }
        match np.subs.get(target) {
            Some(s) if !s.tid.is_artificial_sink_sub() => !s.term.blocks.iter().any(|b| b.term.jmps.iter().any(|j| matches!(j.term, Jmp::Return(_)))),
            _ => false,
        }
    };
    for rs in &facts.subs {
        let s = &rs.tid;
        let suffix = sfx(s);
        let Some(ns) = np.subs.get(s) else {
            complain(rep, "function-removed", format!("function {s} does not exist after normalization"));
            // keep the program-order bookkeeping going
            for b in &rs.term.blocks {
                if facts.block_count[&b.tid] == 1 {
                    seen_instr.extend(b.term.defs.iter().map(|d| d.tid.clone()));
                    seen_instr.extend(b.term.jmps.iter().map(|j| j.tid.clone()));
                }
            }
            continue;
        };
        if let Some(entry) = rs.term.blocks.first() {
            match ns.term.blocks.first() {
                Some(ne) if ne.tid == entry.tid => (),
                Some(ne) => complain(rep, "entry-block-changed", format!("function {s} started with block {} and now starts with {}", entry.tid, ne.tid)),
                None => complain(rep, "entry-block-changed", format!("function {s} started with block {} and is now empty", entry.tid)),
            }
        }
        let mut last_pos: Option<usize> = None;
        for (bi, rb) in rs.term.blocks.iter().enumerate() {
            if facts.block_count[&rb.tid] != 1 {
                continue; // duplicated block tid: only uniqueness is demanded
            }
            // keep-status of defs and jmps in program order
            let mut status = |t: &Tid| -> Keep {
                if facts.wild.contains(t) {
                    Keep::Optional
                } else if seen_instr.insert(t.clone()) {
                    Keep::Must
                } else {
                    Keep::Absent
                }
            };
            let defs: Vec<(&Term<Def>, Keep)> = rb.term.defs.iter().map(|d| (d, status(&d.tid))).collect();
            let jmps: Vec<(&Term<Jmp>, Keep)> = rb.term.jmps.iter().map(|j| (j, status(&j.tid))).collect();
            let Some(pos) = ns.term.blocks.iter().position(|b| b.tid == rb.tid) else {
                complain(rep, "block-removed", format!("block {} of {s} was removed although its tid is not duplicated", rb.tid));
                continue;
            };
            if let Some(lp) = last_pos {
                if pos < lp {
                    complain(rep, "blocks-reordered", format!("block {} of {s} moved before an earlier original block", rb.tid));
                }
            }
            last_pos = Some(pos);
            let nb = &ns.term.blocks[pos];
            let what = if bi == 0 { "entry-block-content" } else { "block-content" };
            if let Err(e) = match_survivors(&defs, &nb.term.defs, &|r, n| r == n) {
                complain(rep, &format!("{what}:defs"), format!("defs of block {} in {s}: {e}", rb.tid));
            }
            match match_survivors(&jmps, &nb.term.jmps, &|r, n| same_jump_modulo_targets(r, n, "")) {
                Err(e) => complain(rep, &format!("{what}:jmps"), format!("jmps of block {} in {s}: {e}", rb.tid)),
                Ok(mapping) => {
                    // (5) every target is the original, its copy for this function, or a sink where the contract says so
                    for (nj, ri) in nb.term.jmps.iter().zip(mapping) {
                        let rj = jmps[ri].0;
                        let mut call_target_dangling = false;
                        if let (Jmp::Call { target: rt, .. }, Jmp::Call { target: nt, .. }) = (&rj.term, &nj.term) {
                            if facts.callables.contains(rt) {
                                if nt != rt {
                                    complain(rep, "retarget:call-target-changed", format!("call {} in {s}: existing target {rt} became {nt}", nj.tid));
                                }
                            } else {
                                call_target_dangling = true;
                                if !nt.is_artificial_sink_sub() {
                                    complain(rep, "retarget:dangling-call-target", format!("call {} in {s}: nonexisting target {rt} became {nt}, expected the artificial sink function", nj.tid));
                                }
                            }
                        }
                        match (intra_target(&rj.term), intra_target(&nj.term)) {
                            (None, None) => (),
                            (None, Some(x)) => complain(rep, "retarget:target-invented", format!("jump {} in {s} had no target/return site and now has {x}", nj.tid)),
                            (Some(r), None) => {
                                if !call_target_dangling {
                                    complain(rep, "retarget:target-lost", format!("jump {} in {s} lost its target/return site {r}", nj.tid));
                                }
                            }
                            (Some(r), Some(x)) => {
                                let own_sink = Tid::artificial_sink_block(&suffix);
                                let is_call = matches!(nj.term, Jmp::Call { .. });
                                let sink_by_noreturn = if let Jmp::Call { target, .. } = &nj.term { callee_never_returns(target) } else { false };
                                if raw_block_exists(r) {
                                    let copy = r.clone().with_id_suffix(&suffix);
                                    let ok = x == r || *x == copy || (is_call && sink_by_noreturn && *x == own_sink);
                                    if !ok {
                                        complain(rep, "retarget:existing-target-changed", format!("jump {} in {s}: target/return site {r} exists but became {x} (allowed: {r}, {copy}{})", nj.tid, if is_call { ", own sink if the callee never returns" } else { "" }));
                                    }
                                } else if !is_any_sink_block(x) {
                                    complain(rep, "retarget:dangling-target", format!("jump {} in {s}: nonexisting target/return site {r} became {x}, expected an artificial sink block", nj.tid));
                                }
                            }
                        }
                    }
                }
            }
            // hints: exactly the existing ones, in order, possibly with the function suffix
            let want: Vec<&Tid> = rb.term.indirect_jmp_targets.iter().filter(|t| raw_block_exists(t)).collect();
            let got = &nb.term.indirect_jmp_targets;
            let ok = want.len() == got.len() && want.iter().zip(got).all(|(w, g)| *w == g || (*w).clone().with_id_suffix(&suffix) == *g);
            if !ok {
                complain(rep, "hints-changed", format!("indirect jump hints of block {} in {s}: expected {:?} (each possibly with suffix {suffix}), observed {:?}", rb.tid, want.iter().map(|t| format!("{t}")).collect::<Vec<_>>(), got.iter().map(|t| format!("{t}")).collect::<Vec<_>>()));
            }
        }
    }

    // (3) targets exist, (4) intraprocedural targets stay inside the function, (7) non-returning calls, (6) copies
    let all_blocks: BTreeMap<&Tid, &Term<Blk>> = np.subs.values().flat_map(|s| s.term.blocks.iter().map(|b| (&b.tid, b))).collect();
    for ns in np.subs.values() {
        let s = &ns.tid;
        let suffix = sfx(s);
        let own: BTreeSet<&Tid> = ns.term.blocks.iter().map(|b| &b.tid).collect();
        let own_sink = Tid::artificial_sink_block(&suffix);
        let raw_listed: BTreeSet<&Tid> = raw.program.term.subs.get(s).map(|r| r.term.blocks.iter().map(|b| &b.tid).collect()).unwrap_or_default();
        for b in &ns.term.blocks {
            let mut intra: Vec<(&Tid, String)> = Vec::new();
            for j in &b.term.jmps {
                match &j.term {
                    Jmp::Branch(t) | Jmp::CBranch { target: t, .. } => intra.push((t, format!("target of {}", j.tid))),
                    Jmp::Call { target, return_ } => {
                        if !np.subs.contains_key(target) && !np.extern_symbols.contains_key(target) {
                            complain(rep, "dangling:call-target", format!("call {} in {s} targets {target}, which is neither a function nor an extern symbol", j.tid));
                        }
                        if let Some(r) = return_ {
                            intra.push((r, format!("return site of {}", j.tid)));
                            if !s.is_artificial_sink_sub() && callee_never_returns(target) {
                                rep.obs("result:returning-call-to-non-returning-callee");
                                if *r != own_sink {
                                    complain(rep, "non-returning-call-not-retargeted", format!("call {} in {s} to {target} (no_return extern or function without Return) returns to {r}, expected {own_sink}", j.tid));
                                } else if !own.contains(&own_sink) {
                                    complain(rep, "sink-block-missing", format!("call {} in {s} returns to {own_sink}, but {s} has no such block", j.tid));
                                }
                            }
                        }
                    }
                    Jmp::CallInd { return_: Some(r), .. } | Jmp::CallOther { return_: Some(r), .. } => intra.push((r, format!("return site of {}", j.tid))),
                    _ => (),
                }
            }
            for t in &b.term.indirect_jmp_targets {
                intra.push((t, format!("indirect jump hint of block {}", b.tid)));
            }
            for (t, what) in intra {
                if !all_blocks.contains_key(t) {
                    complain(rep, "dangling:intraprocedural-target", format!("{what} in {s} is {t}, which is not a block of the program"));
                } else if !own.contains(t) {
                    complain(rep, "target-in-other-function", format!("{what} in {s} is {t}, which is a block of another function"));
                }
            }
            // (6) blocks that the function did not list originally
            if s.is_artificial_sink_sub() || raw_listed.contains(&b.tid) {
                continue;
            }
            let id = format!("{}", b.tid);
            if is_any_sink_block(&b.tid) && b.tid.has_id_suffix(&suffix) {
                if !b.term.defs.is_empty() || !b.term.jmps.is_empty() || !b.term.indirect_jmp_targets.is_empty() {
                    complain(rep, "sink-block-not-empty", format!("artificial sink block {} of {s} is not empty", b.tid));
                }
                rep.obs("result:function-with-sink-block");
                continue;
            }
            let home = id.strip_suffix(suffix.as_str()).and_then(|base| all_blocks.iter().find(|(t, _)| format!("{t}") == base && t.address == b.tid.address).map(|(_, hb)| *hb));
            let Some(home) = home else {
                complain(rep, "unexpected-block", format!("block {} of {s} is neither an original block of {s}, nor its sink, nor a copy '<block>{suffix}' of a block of the program", b.tid));
                continue;
            };
            rep.obs("result:copied-block");
            let home_sub = np.subs.values().find(|x| x.term.blocks.iter().any(|hb| hb.tid == home.tid)).map(|x| sfx(&x.tid)).unwrap_or_default();
            let defs_ok = home.term.defs.len() == b.term.defs.len() && home.term.defs.iter().zip(&b.term.defs).all(|(h, c)| h.term == c.term && h.tid.clone().with_id_suffix(&suffix) == c.tid);
            let jmps_ok = home.term.jmps.len() == b.term.jmps.len()
                && home.term.jmps.iter().zip(&b.term.jmps).all(|(h, c)| {
                    same_jump_modulo_targets(h, c, &suffix)
                        && match (intra_target(&h.term), intra_target(&c.term)) {
                            (None, None) => true,
                            (Some(ht), Some(ct)) => strip(&format!("{ht}"), &home_sub) == strip(&format!("{ct}"), &suffix),
                            _ => false,
                        }
                        && match (&h.term, &c.term) {
                            (Jmp::Call { target: a, .. }, Jmp::Call { target: b, .. }) => a == b,
                            _ => true,
                        }
                });
            let hints_ok = home.term.indirect_jmp_targets.len() == b.term.indirect_jmp_targets.len()
                && home.term.indirect_jmp_targets.iter().zip(&b.term.indirect_jmp_targets).all(|(h, c)| strip(&format!("{h}"), &home_sub) == strip(&format!("{c}"), &suffix));
            if !(defs_ok && jmps_ok && hints_ok) {
                complain(rep, "copy-differs-from-original", format!("block {} of {s} is not a copy of block {} (defs equal: {defs_ok}, jmps equal up to retargeting: {jmps_ok}, hints equal up to retargeting: {hints_ok})", b.tid, home.tid));
            }
        }
    }

    // (8) the CFG builder accepts the result and builds the right graph
    match guard(|| graph::get_program_cfg(&norm.program).node_count()) {
        Err(p) => complain(rep, &format!("cfg-panic:{}", panic_site(&p)), format!("get_program_cfg panicked on the normalized program: {p}")),
        Ok(_) => {
            let case_n = || json!({"project": project_to_json(raw), "note": "C08 specification applied to the graph of the normalized program"});
            let o = c08::check_cfg(&norm.program, "cfg-after-normalize", rep, &case_n);
            violated |= o.violated;
        }
    }

    // bookkeeping
    let changed = np.subs.iter().filter(|(t, _)| !t.is_artificial_sink_sub()).map(|(_, s)| s).ne(raw.program.term.subs.values());
    if changed {
        rep.nontrivial(fp_of(&raw.program));
    }
    observe_irregularities(raw, &facts, rep);
    violated
}

fn observe_irregularities(raw: &Project, facts: &RawFacts, rep: &mut Report) {
    let p = &raw.program.term;
    let mut seen: BTreeSet<&Tid> = BTreeSet::new();
    let mut feats: BTreeSet<&'static str> = BTreeSet::new();
    for s in &facts.subs {
        if s.term.blocks.is_empty() {
            feats.insert("raw:empty-function");
        }
        let listed: BTreeSet<&Tid> = s.term.blocks.iter().map(|b| &b.tid).collect();
        let entries: BTreeSet<&Tid> = facts.subs.iter().filter_map(|x| x.term.blocks.first().map(|b| &b.tid)).collect();
        for b in &s.term.blocks {
            if facts.block_count[&b.tid] > 1 {
                feats.insert("raw:duplicated-block-tid");
            }
            for d in &b.term.defs {
                if !seen.insert(&d.tid) {
                    feats.insert("raw:duplicated-def-tid");
                }
            }
            for j in &b.term.jmps {
                if !seen.insert(&j.tid) {
                    feats.insert("raw:duplicated-jmp-tid");
                }
                if let Some(t) = intra_target(&j.term) {
                    if !facts.block_count.contains_key(t) {
                        feats.insert(if matches!(j.term, Jmp::Branch(_) | Jmp::CBranch { .. }) { "raw:dangling-branch-target" } else { "raw:dangling-return-site" });
                    } else if !listed.contains(t) {
                        feats.insert(if entries.contains(t) { "raw:target-is-entry-block-of-other-function" } else { "raw:target-in-other-function" });
                    }
                }
                if let Jmp::Call { target, return_ } = &j.term {
                    if !facts.callables.contains(target) {
                        feats.insert("raw:dangling-call-target");
                    }
                    if *target == s.tid {
                        feats.insert("raw:self-recursion");
                    }
                    if return_.is_some() && p.extern_symbols.get(target).map(|e| e.no_return).unwrap_or(false) {
                        feats.insert("raw:returning-call-to-no_return-extern");
                    }
                }
            }
            for t in &b.term.indirect_jmp_targets {
                if !facts.block_count.contains_key(t) {
                    feats.insert("raw:dangling-hint");
                } else if !listed.contains(t) {
                    feats.insert("raw:hint-in-other-function");
                }
            }
        }
    }
    for f in feats {
        rep.obs(f);
    }
}

fn run(cfg: &Cfg) -> Report {
    let shards = cfg.tier.pick(256usize, 2048usize);
    let per_shard = cfg.tier.pick(700usize, 2500usize);
    par_shards(cfg, "c09", shards, |idx, rng, rep| {
        for i in 0..per_shard {
            let knobs = knobs_c09(rng);
            let project = c08::gen_program(rng, &knobs);
            let violated = check_normalize(&project, rep);
            if idx == 0 && i < 60 && !violated && project.program.term.subs.len() == 2 && rep.wants_sample() {
                let mut n = project.clone();
                let logs = n.normalize_basic();
                rep.sample(json!({
                    "raw_program": show_program(&project.program.term),
                    "normalized_program": show_program(&n.program.term),
                    "log_messages": logs.iter().map(|l| format!("{l}")).collect::<Vec<_>>(),
                    "verdict": "all invariants hold; CFG built and equal to the specification",
                }));
            }
        }
    })
}

fn replay(_cfg: &Cfg, case: &Value) -> Report {
    let mut rep = Report::new();
    match project_from_json(&case["project"]) {
        Ok(project) => {
            check_normalize(&project, &mut rep);
        }
        Err(e) => rep.note(format!("cannot parse replay case: {e}")),
    }
    rep
}
