//! C04 — conditional refinement never removes feasible values.
//!
//! Monitor shape: the real `SpecializeByConditional` methods of `IntervalDomain` and
//! `DataDomain<IntervalDomain>` are executed; the set of members of the input that satisfy
//! the condition is computed by the harness from the definition of the comparison and must
//! be contained in gamma(result); `Err` is only accepted if that set is empty.
//! (Interval observation, construction and generators are shared with `c02`.)

use crate::c02::{
    bm_test, build, build_plain, build_u1, dom_json, gen_hints, gen_input, gen_iv, input_for, observe, sample_members, smax, smin, vjson, vparse,
    wf_error, Input, Iv, Obs,
};
use crate::conv::*;
use crate::core::*;
use crate::pref::V;
use crate::prng::{mix, Rng};
use cwe_checker_lib::abstract_domain::{AbstractIdentifier, AbstractLocation, DataDomain, IntervalDomain, SpecializeByConditional};
use cwe_checker_lib::intermediate_representation::*;
use serde_json::{json, Value};
use std::collections::BTreeMap;

pub fn info() -> CheckInfo {
    CheckInfo {
        id: "C04",
        rule: "IntervalDomain::{add_signed_less_equal_bound, add_signed_greater_equal_bound, add_unsigned_less_equal_bound, add_unsigned_greater_equal_bound, add_not_equal_bound, intersect} and the same methods of DataDomain<IntervalDomain> (absolute part): feasible = members of gamma(x) satisfying the condition (computed from the definition of the comparison / membership in both operands); Ok(r) must be well-formed with feasible subset of gamma(r); Err only if feasible is empty. 1-byte universe U1 x 1-byte bounds (quick: a seeded slice of the bounds that always contains the bounds next to the interval ends; thorough: all 256), plain and with widening hints, all members via 256-bit sets; intersect on biased pairs of U1 in both orders; widths 2/4/8 sampled with exact feasibility by range arithmetic; DataDomain: relative targets and the top flag must survive add_*_bound. non-trivial = some but not all members satisfy the condition; distinct = hash of (method, interval(s), bound)",
        assumptions: &[
            "gamma(IntervalDomain) = {start, start+stride, .., end} read from the serde form; widening hints and delay do not change gamma",
            "inputs with widening hints are built through update_widening_*_bound (public API), so only reachable hint states are fed",
            "operands of intersect and bound/value pairs have equal widths (asserted by the code)",
            "DataDomain: only the absolute part is judged (DataDomain::intersect is documented as unsound for relative values); for intersect the demand is restricted to values contained in both absolute parts, plus - when exactly one operand has the top flag, i.e. may be any value - all absolute values of the other operand",
            "verdicts on the release profile",
        ],
        run,
        replay,
    }
}

// ---------------------------------------------------------------------------
// Conditions

#[derive(Clone, Copy, Debug, PartialEq, Eq)]
pub enum Cond {
    Sle,
    Sge,
    Ule,
    Uge,
    Ne,
}

pub const CONDS: [Cond; 5] = [Cond::Sle, Cond::Sge, Cond::Ule, Cond::Uge, Cond::Ne];

impl Cond {
    pub fn name(&self) -> &'static str {
        match self {
            Cond::Sle => "add_signed_less_equal_bound",
            Cond::Sge => "add_signed_greater_equal_bound",
            Cond::Ule => "add_unsigned_less_equal_bound",
            Cond::Uge => "add_unsigned_greater_equal_bound",
            Cond::Ne => "add_not_equal_bound",
        }
    }
    pub fn from_name(s: &str) -> Option<Cond> {
        CONDS.into_iter().find(|c| c.name() == s)
    }
    /// The definition of the comparison on concrete values.
    pub fn sat(&self, v: V, b: V) -> bool {
        match self {
            Cond::Sle => v.s() <= b.s(),
            Cond::Sge => v.s() >= b.s(),
            Cond::Ule => v.v <= b.v,
            Cond::Uge => v.v >= b.v,
            Cond::Ne => v.v != b.v,
        }
    }
    fn apply<T: SpecializeByConditional>(&self, x: T, bound: &Bitvector) -> Result<T, anyhow::Error> {
        match self {
            Cond::Sle => x.add_signed_less_equal_bound(bound),
            Cond::Sge => x.add_signed_greater_equal_bound(bound),
            Cond::Ule => x.add_unsigned_less_equal_bound(bound),
            Cond::Uge => x.add_unsigned_greater_equal_bound(bound),
            Cond::Ne => x.add_not_equal_bound(bound),
        }
    }
}

/// Is there a member of `iv` in the signed range [lo, hi]?
fn exists_in_range(iv: &Iv, lo: i128, hi: i128) -> bool {
    let lo = lo.max(iv.s);
    let hi = hi.min(iv.e);
    if lo > hi {
        return false;
    }
    if iv.stride == 0 {
        return true; // iv.s == iv.e lies in [lo, hi]
    }
    // first member >= lo
    let d = (lo as u128).wrapping_sub(iv.s as u128);
    let st = iv.stride as u128;
    let k = d / st + (d % st != 0) as u128;
    match k.checked_mul(st) {
        Some(off) if off <= iv.span() => ((iv.s as u128).wrapping_add(off) as i128) <= hi,
        _ => false,
    }
}

/// Exact decision "some member of `iv` satisfies `cond` against `b`" by range arithmetic (any width).
pub fn exists_sat(cond: Cond, iv: &Iv, b: V) -> bool {
    let (mn, mx) = (smin(iv.w), smax(iv.w));
    let bs_ = b.s();
    match cond {
        Cond::Sle => exists_in_range(iv, mn, bs_),
        Cond::Sge => exists_in_range(iv, bs_, mx),
        Cond::Ule => {
            if bs_ >= 0 {
                exists_in_range(iv, 0, bs_)
            } else {
                exists_in_range(iv, 0, mx) || exists_in_range(iv, mn, bs_)
            }
        }
        Cond::Uge => {
            if bs_ >= 0 {
                exists_in_range(iv, bs_, mx) || exists_in_range(iv, mn, -1)
            } else {
                exists_in_range(iv, bs_, -1)
            }
        }
        Cond::Ne => !(iv.is_single() && iv.s == bs_),
    }
}

fn sat_bitmap(cond: Cond, bound: u8) -> [u64; 4] {
    let mut bm = [0u64; 4];
    let b = V::new(bound as u128, 1);
    for v in 0..256usize {
        if cond.sat(V::new(v as u128, 1), b) {
            bm[v >> 6] |= 1 << (v & 63);
        }
    }
    bm
}

fn bm_and(a: &[u64; 4], b: &[u64; 4]) -> [u64; 4] {
    [a[0] & b[0], a[1] & b[1], a[2] & b[2], a[3] & b[3]]
}
fn bm_minus(a: &[u64; 4], b: &[u64; 4]) -> [u64; 4] {
    [a[0] & !b[0], a[1] & !b[1], a[2] & !b[2], a[3] & !b[3]]
}
fn bm_empty(a: &[u64; 4]) -> bool {
    a.iter().all(|x| *x == 0)
}
fn bm_first(a: &[u64; 4]) -> Option<u8> {
    (0..256usize).find(|u| bm_test(a, *u)).map(|u| u as u8)
}
fn bm_count(a: &[u64; 4]) -> u32 {
    a.iter().map(|x| x.count_ones()).sum()
}

/// Per-run constant tables for the 1-byte universe.
pub struct Tables {
    sat: Vec<[u64; 4]>, // index cond*256 + bound
    bounds: Vec<Bitvector>,
}

impl Tables {
    pub fn new() -> Tables {
        let mut sat = Vec::with_capacity(5 * 256);
        for c in CONDS {
            for b in 0..256usize {
                sat.push(sat_bitmap(c, b as u8));
            }
        }
        Tables { sat, bounds: (0..256u128).map(|b| to_bv(V::new(b, 1))).collect() }
    }
}

// ---------------------------------------------------------------------------
// Checks on IntervalDomain

fn judge_refinement(
    rep: &mut Report,
    sig: &dyn Fn(&str) -> String,
    desc: &dyn Fn() -> String,
    res: Result<Result<IntervalDomain, anyhow::Error>, String>,
    w: u32,
    case: &dyn Fn() -> Value,
    size: u64,
) -> Option<Option<Obs>> {
    match res {
        Err(p) => {
            rep.violation(sig(&format!("panic:{}", panic_site(&p))), None, format!("{} panicked inside the input domain: {p}", desc()), case(), size);
            None
        }
        Ok(Err(_)) => Some(None),
        Ok(Ok(r)) => match observe(&r) {
            Err(e) => {
                rep.violation(sig("illformed:unobservable"), None, format!("{}: result cannot be read: {e}", desc()), case(), size);
                None
            }
            Ok(o) => {
                if let Some((kind, d)) = wf_error(&o, Some(w)) {
                    rep.violation(sig(&format!("illformed:{kind}")), None, format!("{} = Ok({}) is ill-formed: {d}", desc(), o.iv.show()), case(), size);
                    None
                } else {
                    Some(Some(o))
                }
            }
        },
    }
}

/// 1-byte fast path: all members by bitmap.
fn check_bound_u1(cond: Cond, ci: usize, a: &Input, abm: &[u64; 4], bound: u8, t: &Tables, rep: &mut Report, track: bool) {
    rep.eval();
    let feasible = bm_and(abm, &t.sat[ci * 256 + bound as usize]);
    let bbv = &t.bounds[bound as usize];
    let d = a.dom.clone();
    let res = guard(move || cond.apply(d, bbv));
    let bv = V::new(bound as u128, 1);
    let sig = |what: &str| format!("bound:{}:w1:{what}", cond.name());
    let desc = || format!("{}({}, bound {})", cond.name(), a.iv.show(), bv.s());
    let case = || json!({"kind":"bound","fn":cond.name(),"a":dom_json(&a.dom),"bound":vjson(bv),"wa":[]});
    let size = a.iv.size() + 8 * a.hinted as u64 + (bv.s().unsigned_abs() as u64).min(64);
    let Some(out) = judge_refinement(rep, &sig, &desc, res, 1, &case, size) else { return };
    match out {
        None => {
            if let Some(v) = bm_first(&feasible) {
                rep.violation(
                    sig("err-but-feasible"),
                    None,
                    format!("{} = Err although {} member(s) satisfy the condition, e.g. {:#x}; expected Ok(..) containing them", desc(), bm_count(&feasible), v),
                    case(),
                    size,
                );
            }
            if track {
                rep.obs("result:err");
            }
        }
        Some(o) => {
            let lost = bm_minus(&feasible, &o.iv.bitmap());
            if let Some(v) = bm_first(&lost) {
                rep.violation(
                    sig("lost-member"),
                    None,
                    format!("{} = Ok({}): member {:#x} satisfies the condition but is not in gamma(result)", desc(), o.iv.show(), v),
                    case(),
                    size,
                );
            }
            if track {
                rep.obs(if o.iv == a.iv { "result:unchanged" } else { "result:refined" });
            }
        }
    }
    if track {
        let nf = bm_count(&feasible);
        if nf > 0 && nf < bm_count(abm) {
            rep.nontrivial(mix(mix(ci as u64 + 11, a.iv.fp()), bound as u64));
        }
    }
}

/// Generic path (any width): exact feasibility by range arithmetic, membership for the listed members.
pub fn check_bound_w(cond: Cond, a: &Input, bound: V, members: &[V], rep: &mut Report, track: bool) {
    if bound.w != a.iv.w {
        return;
    }
    rep.eval();
    let w = a.iv.w;
    let bbv = to_bv(bound);
    let d = a.dom.clone();
    let res = guard(move || cond.apply(d, &bbv));
    let sig = |what: &str| format!("bound:{}:w{w}:{what}", cond.name());
    let desc = || format!("{}({}, bound {})", cond.name(), a.iv.show(), bound.s());
    let case = || json!({"kind":"bound","fn":cond.name(),"a":dom_json(&a.dom),"bound":vjson(bound),"wa":members.iter().take(16).map(|v| vjson(*v)).collect::<Vec<_>>()});
    let size = a.iv.size() + 8 * a.hinted as u64 + (128 - bound.s().unsigned_abs().leading_zeros()) as u64;
    let Some(out) = judge_refinement(rep, &sig, &desc, res, w, &case, size) else { return };
    let feasible_exists = exists_sat(cond, &a.iv, bound);
    let sat_members: Vec<V> = members.iter().copied().filter(|v| cond.sat(*v, bound)).collect();
    if !sat_members.is_empty() && !feasible_exists {
        rep.inconclusive("oracle-self-check:exists_sat");
        return;
    }
    match out {
        None => {
            if feasible_exists {
                rep.violation(
                    sig("err-but-feasible"),
                    None,
                    format!("{} = Err although some member satisfies the condition{}; expected Ok(..)", desc(), sat_members.first().map(|v| format!(", e.g. {:#x}", v.v)).unwrap_or_default()),
                    case(),
                    size,
                );
            }
            if track {
                rep.obs("result:err");
            }
        }
        Some(o) => {
            if let Some(v) = sat_members.iter().find(|v| !o.iv.contains(**v)) {
                rep.violation(
                    sig("lost-member"),
                    None,
                    format!("{} = Ok({}): member {:#x} satisfies the condition but is not in gamma(result)", desc(), o.iv.show(), v.v),
                    json!({"kind":"bound","fn":cond.name(),"a":dom_json(&a.dom),"bound":vjson(bound),"wa":[vjson(*v)]}),
                    size,
                );
            }
            if track {
                rep.obs(if o.iv == a.iv { "result:unchanged" } else { "result:refined" });
            }
        }
    }
    if track {
        rep.obs(&format!("bound:{}:w{w}", cond.name()));
        if !sat_members.is_empty() && sat_members.len() < members.len() {
            rep.nontrivial(mix(mix(cond as u64 + 11, a.iv.fp()), mix(bound.v as u64, (bound.v >> 64) as u64)));
        }
    }
}

/// What the harness knows about gamma(a) ∩ gamma(b).
enum Common {
    /// the complete intersection
    Exact(Vec<V>),
    /// some members of the intersection (possibly none known)
    Some(Vec<V>),
}

fn common_members(a: &Iv, b: &Iv, known: &[V]) -> Common {
    for (x, y) in [(a, b), (b, a)] {
        if let Some(m) = x.all_members(4096) {
            return Common::Exact(m.into_iter().filter(|v| y.contains(*v)).collect());
        }
    }
    let mut v: Vec<V> = known.iter().copied().filter(|v| a.contains(*v) && b.contains(*v)).collect();
    for m in a.std_members().into_iter().chain(b.std_members()) {
        if a.contains(m) && b.contains(m) && !v.contains(&m) {
            v.push(m);
        }
    }
    Common::Some(v)
}

pub const KNOWN_CRT_OVERFLOW: &str = "c04-intersect-crt-overflow";

fn gcd_u128(mut a: u128, mut b: u128) -> u128 {
    while b != 0 {
        let t = a % b;
        a = b;
        b = t;
    }
    a
}

/// Discriminator of the open known finding "lcm of the strides does not fit into 64 bits is reported as empty":
/// both strides non-zero and lcm(stride_a, stride_b) > u64::MAX (computed here in u128).
pub fn lcm_overflows(a: &Iv, b: &Iv) -> bool {
    if a.stride == 0 || b.stride == 0 {
        return false;
    }
    let (x, y) = (a.stride as u128, b.stride as u128);
    (x / gcd_u128(x, y)) * y > u64::MAX as u128
}

/// `a.intersect(b)`; `known` = values the generator knows to be in both.
pub fn check_intersect(a: &Input, b: &Input, known: &[V], rep: &mut Report, track: bool) {
    if a.iv.w != b.iv.w {
        return;
    }
    rep.eval();
    let w = a.iv.w;
    let d = a.dom.clone();
    let res = guard(move || d.intersect(&b.dom));
    let sig = |what: &str| format!("intersect:w{w}:{what}");
    let desc = || format!("intersect({}, {})", a.iv.show(), b.iv.show());
    let case = || json!({"kind":"intersect","a":dom_json(&a.dom),"b":dom_json(&b.dom),"wa":known.iter().take(16).map(|v| vjson(*v)).collect::<Vec<_>>()});
    let size = a.iv.size() + b.iv.size() + 8 * (a.hinted as u64 + b.hinted as u64);
    let Some(out) = judge_refinement(rep, &sig, &desc, res, w, &case, size) else { return };
    let common = common_members(&a.iv, &b.iv, known);
    let (list, exact) = match &common {
        Common::Exact(l) => (l, true),
        Common::Some(l) => (l, false),
    };
    match out {
        None => {
            if let Some(v) = list.first() {
                if lcm_overflows(&a.iv, &b.iv) {
                    rep.violation(
                        sig("err-but-feasible:lcm-overflow"),
                        Some(KNOWN_CRT_OVERFLOW),
                        format!("{} = Err although {:#x} is a member of both (lcm of the strides exceeds 64 bits: the overflow error of the residue-class computation is reported as 'empty'); expected Ok(..) containing it", desc(), v.v),
                        case(),
                        size,
                    );
                } else {
                    rep.violation(sig("err-but-feasible"), None, format!("{} = Err although {:#x} is a member of both; expected Ok(..) containing it", desc(), v.v), case(), size);
                }
            } else if !exact {
                rep.obs("intersect:err-not-decidable-by-harness");
            }
            if track {
                rep.obs("result:err");
            }
        }
        Some(o) => {
            if let Some(v) = list.iter().find(|v| !o.iv.contains(**v)) {
                rep.violation(
                    sig("lost-member"),
                    None,
                    format!("{} = Ok({}): {:#x} is a member of both operands but not of gamma(result)", desc(), o.iv.show(), v.v),
                    json!({"kind":"intersect","a":dom_json(&a.dom),"b":dom_json(&b.dom),"wa":[vjson(*v)]}),
                    size,
                );
            }
            if track {
                rep.obs("result:ok");
            }
        }
    }
    if track {
        rep.obs(&format!("intersect:w{w}:{}", if exact { "exact" } else { "witnesses" }));
        if !list.is_empty() && a.iv != b.iv {
            rep.nontrivial(mix(mix(77, a.iv.fp()), b.iv.fp()));
        }
    }
}

// ---------------------------------------------------------------------------
// Checks on DataDomain<IntervalDomain>

type DD = DataDomain<IntervalDomain>;

fn mk_id(n: usize) -> AbstractIdentifier {
    let names = ["RAX", "RBX", "RSP"];
    AbstractIdentifier::new(
        Tid::new(format!("t{n}")),
        AbstractLocation::Register(Variable { name: names[n % 3].to_string(), size: ByteSize::new(8), is_temp: false }),
    )
}

fn abs_input(dd: &DD) -> Result<Option<Input>, String> {
    match dd.get_absolute_value() {
        None => Ok(None),
        Some(d) => {
            let o = observe(d)?;
            if wf_error(&o, None).is_some() {
                return Err("ill-formed absolute part".into());
            }
            Ok(Some(Input { dom: d.clone(), iv: o.iv, hinted: o.lo.is_some() || o.hi.is_some() || o.delay != 0 }))
        }
    }
}

fn dd_show(dd: &DD, abs: &Option<Input>) -> String {
    format!(
        "DataDomain{{abs: {}, {} relative target(s), top flag {}}}",
        abs.as_ref().map(|a| a.iv.show()).unwrap_or_else(|| "none".into()),
        dd.get_relative_values().len(),
        dd.contains_top()
    )
}

fn dd_size(dd: &DD, abs: &Option<Input>) -> u64 {
    abs.as_ref().map(|a| a.iv.size() + 8 * a.hinted as u64).unwrap_or(0) + 16 * dd.get_relative_values().len() as u64 + 4 * dd.contains_top() as u64
}

pub fn check_data_bound(cond: Cond, dd: &DD, bound: V, members: &[V], rep: &mut Report, track: bool) {
    let abs = match abs_input(dd) {
        Ok(a) => a,
        Err(_) => return,
    };
    let w = u64::from(cwe_checker_lib::abstract_domain::SizedDomain::bytesize(dd)) as u32;
    if bound.w != w {
        return;
    }
    rep.eval();
    let bbv = to_bv(bound);
    let d = dd.clone();
    let res = guard(move || cond.apply(d, &bbv));
    let sig = |what: &str| format!("data:{}:w{w}:{what}", cond.name());
    let desc = || format!("{}({}, bound {})", cond.name(), dd_show(dd, &abs), bound.s());
    let case = || json!({"kind":"data-bound","fn":cond.name(),"dd":serde_json::to_value(dd).unwrap_or(Value::Null),"bound":vjson(bound),"wa":members.iter().take(16).map(|v| vjson(*v)).collect::<Vec<_>>()});
    let size = dd_size(dd, &abs);
    let feasible_exists = abs.as_ref().map(|a| exists_sat(cond, &a.iv, bound)).unwrap_or(false);
    let sat_members: Vec<V> = match &abs {
        Some(a) => members.iter().copied().filter(|v| a.iv.contains(*v) && cond.sat(*v, bound)).collect(),
        None => Vec::new(),
    };
    let others_left = !dd.get_relative_values().is_empty() || dd.contains_top();
    match res {
        Err(p) => rep.violation(sig(&format!("panic:{}", panic_site(&p))), None, format!("{} panicked: {p}", desc()), case(), size),
        Ok(Err(_)) => {
            if others_left || feasible_exists {
                rep.violation(
                    sig("err-but-nonempty"),
                    None,
                    format!("{} = Err although something is left (relative targets/top flag: {others_left}, satisfying absolute member exists: {feasible_exists})", desc()),
                    case(),
                    size,
                );
            }
            if track {
                rep.obs("data:result:err");
            }
        }
        Ok(Ok(r)) => {
            if r.get_relative_values() != dd.get_relative_values() {
                rep.violation(sig("relative-targets-changed"), None, format!("{}: the relative targets did not survive", desc()), case(), size);
            }
            if r.contains_top() != dd.contains_top() {
                rep.violation(sig("top-flag-changed"), None, format!("{}: top flag {} -> {}", desc(), dd.contains_top(), r.contains_top()), case(), size);
            }
            match r.get_absolute_value() {
                None => {
                    if feasible_exists {
                        rep.violation(sig("lost-absolute"), None, format!("{}: absolute part dropped although a member satisfies the condition", desc()), case(), size);
                    }
                }
                Some(ra) => match observe(ra) {
                    Err(e) => rep.violation(sig("illformed:unobservable"), None, format!("{}: {e}", desc()), case(), size),
                    Ok(o) => {
                        if let Some((kind, d)) = wf_error(&o, Some(w)) {
                            rep.violation(sig(&format!("illformed:{kind}")), None, format!("{}: absolute result {} ill-formed: {d}", desc(), o.iv.show()), case(), size);
                        } else if let Some(v) = sat_members.iter().find(|v| !o.iv.contains(**v)) {
                            rep.violation(sig("lost-member"), None, format!("{}: absolute result {} lost the satisfying member {:#x}", desc(), o.iv.show(), v.v), case(), size);
                        }
                    }
                },
            }
            if track {
                rep.obs("data:result:ok");
            }
        }
    }
    if track {
        rep.obs(&format!("data:{}:w{w}:rel{}:abs{}:top{}", cond.name(), dd.get_relative_values().len(), abs.is_some() as u8, dd.contains_top() as u8));
        if !sat_members.is_empty() && sat_members.len() < members.len() {
            rep.nontrivial(mix(mix(cond as u64 + 31, fp_of(&dd_show(dd, &abs))), bound.v as u64));
        }
    }
}

pub fn check_data_intersect(da: &DD, db: &DD, known: &[V], rep: &mut Report, track: bool) {
    let (Ok(aa), Ok(ab)) = (abs_input(da), abs_input(db)) else { return };
    let w = u64::from(cwe_checker_lib::abstract_domain::SizedDomain::bytesize(da)) as u32;
    rep.eval();
    let d = da.clone();
    let res = guard(move || d.intersect(db));
    let sig = |what: &str| format!("data:intersect:w{w}:{what}");
    let desc = || format!("intersect({}, {})", dd_show(da, &aa), dd_show(db, &ab));
    let case = || json!({"kind":"data-intersect","dd":serde_json::to_value(da).unwrap_or(Value::Null),"dd2":serde_json::to_value(db).unwrap_or(Value::Null),"wa":known.iter().take(16).map(|v| vjson(*v)).collect::<Vec<_>>()});
    let size = dd_size(da, &aa) + dd_size(db, &ab);
    let mut list: Vec<V> = match (&aa, &ab) {
        (Some(a), Some(b)) => match common_members(&a.iv, &b.iv, known) {
            Common::Exact(l) | Common::Some(l) => l,
        },
        _ => Vec::new(),
    };
    // A value with the top flag may be any value (the implementation says so itself: "the other input is the best
    // approximation for the intersection"). If exactly one operand has the flag, every absolute value of the other
    // operand is therefore in the intersection.
    if da.contains_top() != db.contains_top() {
        let plain = if da.contains_top() { &ab } else { &aa };
        if let Some(p) = plain {
            let members = p.iv.all_members(512).unwrap_or_else(|| p.iv.std_members());
            for m in members {
                if !list.contains(&m) {
                    list.push(m);
                }
            }
        }
        if track {
            rep.obs("data:intersect:one-operand-with-top-flag");
        }
    }
    match res {
        Err(p) => rep.violation(sig(&format!("panic:{}", panic_site(&p))), None, format!("{} panicked: {p}", desc()), case(), size),
        Ok(Err(_)) => {
            if let Some(v) = list.first() {
                let overflow = matches!((&aa, &ab), (Some(a), Some(b)) if lcm_overflows(&a.iv, &b.iv));
                if overflow {
                    rep.violation(
                        sig("err-but-feasible:lcm-overflow"),
                        Some(KNOWN_CRT_OVERFLOW),
                        format!("{} = Err although {:#x} is contained in both operands (absolute parts; an operand with the top flag contains every value) (lcm of the strides exceeds 64 bits)", desc(), v.v),
                        case(),
                        size,
                    );
                } else {
                    rep.violation(sig("err-but-feasible"), None, format!("{} = Err although {:#x} is contained in both operands (absolute parts; an operand with the top flag contains every value)", desc(), v.v), case(), size);
                }
            }
        }
        Ok(Ok(r)) => {
            if !r.contains_top() {
                match r.get_absolute_value().map(observe) {
                    None => {
                        if let Some(v) = list.first() {
                            let overflow = matches!((&aa, &ab), (Some(a), Some(b)) if lcm_overflows(&a.iv, &b.iv));
                            let (what, key) = if overflow { ("lost-absolute:lcm-overflow", Some(KNOWN_CRT_OVERFLOW)) } else { ("lost-absolute", None) };
                            rep.violation(sig(what), key, format!("{}: no absolute part and no top flag although {:#x} is in both operands (absolute parts; an operand with the top flag contains every value)", desc(), v.v), case(), size);
                        }
                    }
                    Some(Err(e)) => rep.violation(sig("illformed:unobservable"), None, format!("{}: {e}", desc()), case(), size),
                    Some(Ok(o)) => {
                        if let Some((kind, d)) = wf_error(&o, Some(w)) {
                            rep.violation(sig(&format!("illformed:{kind}")), None, format!("{}: absolute result {} ill-formed: {d}", desc(), o.iv.show()), case(), size);
                        } else if let Some(v) = list.iter().find(|v| !o.iv.contains(**v)) {
                            rep.violation(sig("lost-member"), None, format!("{}: absolute result {} lost {:#x}, which is in both operands (absolute parts; an operand with the top flag contains every value)", desc(), o.iv.show(), v.v), case(), size);
                        }
                    }
                }
            }
        }
    }
    if track {
        rep.obs(&format!("data:intersect:w{w}"));
        if !list.is_empty() {
            rep.nontrivial(mix(fp_of(&dd_show(da, &aa)), fp_of(&dd_show(db, &ab))));
        }
    }
}

// ---------------------------------------------------------------------------
// Workload

#[derive(Clone, Debug)]
enum Task {
    Samples,
    SelfCheck,
    /// all of U1 with this start value x bounds x the five methods
    U1Bounds(i128),
    Intersect1(u64),
    WideBounds(u32, u64),
    WideIntersect(u32, u64),
    Data(u64),
}

/// Members next to a value `x` (the last member <= x and the first member >= x), if any.
fn members_around(iv: &Iv, x: i128) -> Vec<V> {
    let mut out = Vec::new();
    if iv.stride == 0 || x <= iv.s {
        out.push(iv.member(0));
        return out;
    }
    if x >= iv.e {
        out.push(iv.member(iv.steps()));
        return out;
    }
    let d = (x as u128).wrapping_sub(iv.s as u128);
    let k = d / iv.stride as u128;
    out.push(iv.member(k));
    if k < iv.steps() {
        out.push(iv.member(k + 1));
    }
    if k > 0 {
        out.push(iv.member(k - 1));
    }
    out
}

/// Bounds that matter for `iv` plus random ones.
fn gen_bound(rng: &mut Rng, iv: &Iv) -> V {
    let w = iv.w;
    let clampv = |x: i128| V::from_i(x.clamp(smin(w), smax(w)), w);
    let st = iv.stride.max(1) as i128;
    match rng.below(12) {
        0 => clampv(iv.s),
        1 => clampv(iv.e),
        2 => clampv(iv.s.saturating_sub(1)),
        3 => clampv(iv.e.saturating_add(1)),
        4 => clampv(iv.s.saturating_add(rng.range_i64(-2, 2) as i128)),
        5 => clampv(iv.e.saturating_add(rng.range_i64(-2, 2) as i128)),
        6 => {
            // next to a random member
            let n = iv.steps();
            let k = if n == u128::MAX { rng.next_u128() } else { rng.next_u128() % (n + 1) };
            clampv(iv.member(k).s().saturating_add(rng.range_i64(-1, 1) as i128))
        }
        7 => clampv(iv.s.saturating_add(st.saturating_mul(rng.range_i64(-3, 3) as i128)).saturating_add(rng.range_i64(-1, 1) as i128)),
        8 => clampv(*rng.pick(&[0i128, -1, 1, smin(w), smax(w), smin(w) + 1, smax(w) - 1])),
        _ => V::new(rng.biased(w), w),
    }
}

fn bound_members(rng: &mut Rng, iv: &Iv, bound: V) -> Vec<V> {
    let mut m = sample_members(rng, iv, 3);
    for x in [bound.s(), bound.s().saturating_add(1), bound.s().saturating_sub(1), 0, -1] {
        for v in members_around(iv, x) {
            if !m.contains(&v) {
                m.push(v);
            }
        }
    }
    m
}

fn run_u1_bounds(start: i128, u1: &[Iv], cfg: &Cfg, rng: &mut Rng, rep: &mut Report) {
    let t = Tables::new();
    let thorough = cfg.tier == Tier::Thorough;
    let hinted_variants = cfg.tier.pick(1, 3);
    let mut calls = 0u64;
    for a in u1.iter().filter(|iv| iv.s == start) {
        let abm = a.bitmap();
        let mut variants: Vec<Input> = vec![build_plain(*a)];
        for _ in 0..hinted_variants {
            // retry a few times until the hints are accepted
            for _ in 0..4 {
                let h = gen_hints(rng, a);
                match build(*a, &h) {
                    Ok(inp) if inp.hinted => {
                        variants.push(inp);
                        break;
                    }
                    Ok(_) => (),
                    Err(e) => {
                        rep.inconclusive("input-construction");
                        rep.note(format!("input construction failed: {e}"));
                    }
                }
            }
        }
        for inp in &variants {
            // which bounds
            let mut sel = [thorough; 256];
            if !thorough {
                let st = a.stride.max(1) as i128;
                for x in [a.s - 1, a.s, a.s + 1, a.e - 1, a.e, a.e + 1, a.s + st, a.e - st, a.s + st + 1, a.e - st - 1, 0, -1, 1, -128, 127, -127, 126] {
                    if (-128..=127).contains(&x) {
                        sel[(x as u8) as usize] = true;
                    }
                }
                for _ in 0..20 {
                    sel[rng.usize_below(256)] = true;
                }
            }
            let salt = rng.next_u64();
            for (ci, cond) in CONDS.iter().enumerate() {
                for b in 0..256usize {
                    if sel[b] {
                        let track = (b as u64 ^ salt ^ ci as u64) % 16 == 0;
                        check_bound_u1(*cond, ci, inp, &abm, b as u8, &t, rep, track);
                        calls += 1;
                    }
                }
            }
        }
    }
    rep.obs_n(if thorough { "u1-bounds:calls(all 256 bounds)" } else { "u1-bounds:calls(slice of bounds)" }, calls);
    if thorough && start == 127 {
        rep.exhaustive_parts.push("every well-formed 1-byte interval x every 1-byte bound x the five add_*_bound methods (plain and with widening hints), all members".into());
    }
    if !thorough && start == 127 {
        rep.exhaustive_parts.push("every well-formed 1-byte interval (bounds: seeded slice incl. all bounds next to the interval ends) x the five add_*_bound methods".into());
    }
}

fn pick_u1(rng: &mut Rng, u1: &[Iv]) -> Iv {
    match rng.below(4) {
        0 | 1 => u1[rng.usize_below(u1.len())],
        _ => gen_iv(rng, 1),
    }
}

/// An interval that contains `c` (stride, extent below and above chosen at random).
fn around(rng: &mut Rng, c: i128, w: u32) -> Iv {
    let sw = w.min(8);
    let stride: u64 = match rng.below(6) {
        0 => 1,
        1 => rng.below(16) + 1,
        2 => 1u64 << rng.below((8 * sw - 1) as u64),
        3 => (rng.biased(sw) as u64).max(1),
        4 => rng.below(1000) + 1,
        _ => (rng.next_u64() >> rng.below(64)).max(1),
    };
    let room_below = (c as u128).wrapping_sub(smin(w) as u128) / stride as u128;
    let room_above = (smax(w) as u128).wrapping_sub(c as u128) / stride as u128;
    let pickk = |rng: &mut Rng, room: u128| -> u128 {
        match rng.below(4) {
            0 => 0,
            1 => (rng.below(8) as u128).min(room),
            2 => room,
            _ => rng.next_u128() % room.saturating_add(1),
        }
    };
    let (kb, ka) = (pickk(rng, room_below), pickk(rng, room_above));
    let s = (c as u128).wrapping_sub(kb * stride as u128) as i128;
    let e = (c as u128).wrapping_add(ka * stride as u128) as i128;
    if s == e {
        Iv::single(c, w)
    } else {
        Iv { s, e, stride, w }
    }
}

fn gen_intersect_pair(rng: &mut Rng, w: u32, u1: &[Iv], rep: &mut Report) -> (Input, Input, Vec<V>) {
    let mut known = Vec::new();
    let (a, b) = match rng.below(4) {
        0 | 1 => {
            let c = V::new(rng.biased(w), w).s();
            known.push(V::from_i(c, w));
            (around(rng, c, w), around(rng, c, w))
        }
        2 => {
            // b derived from a: shifted by a few strides / clipped
            let a = if w == 1 { pick_u1(rng, u1) } else { gen_iv(rng, w) };
            let n = a.steps();
            let k0 = if n == 0 { 0 } else { rng.next_u128() % (n + 1) };
            let c = a.member(k0).s();
            known.push(V::from_i(c, w));
            (a, around(rng, c, w))
        }
        _ => {
            if w == 1 {
                (pick_u1(rng, u1), pick_u1(rng, u1))
            } else {
                (gen_iv(rng, w), gen_iv(rng, w))
            }
        }
    };
    (input_for(rng, a, rep), input_for(rng, b, rep), known)
}

fn run_intersect(w: u32, n: u64, u1: &[Iv], rng: &mut Rng, rep: &mut Report) {
    for i in 0..n {
        let (a, b, known) = gen_intersect_pair(rng, w, u1, rep);
        check_intersect(&a, &b, &known, rep, true);
        check_intersect(&b, &a, &known, rep, true);
        if i < 4 && rep.wants_sample() && !a.iv.is_single() && !b.iv.is_single() {
            rep.sample(json!({"kind":"intersect","a":dom_json(&a.dom),"b":dom_json(&b.dom),"value_known_to_be_in_both":known.iter().map(|v| vjson(*v)).collect::<Vec<_>>(),
                "observed": format!("{:?}", guard(|| a.dom.clone().intersect(&b.dom)).map(|r| r.ok().and_then(|d| observe(&d).ok()).map(|o| o.iv.show())))}));
        }
    }
}

fn run_wide_bounds(w: u32, n: u64, rng: &mut Rng, rep: &mut Report) {
    for i in 0..n {
        let a = gen_input(rng, w, rep);
        let bound = gen_bound(rng, &a.iv);
        let members = bound_members(rng, &a.iv, bound);
        for cond in CONDS {
            check_bound_w(cond, &a, bound, &members, rep, true);
        }
        if i < 2 && rep.wants_sample() && !a.iv.is_single() {
            rep.sample(json!({"kind":"bound","fn":"add_unsigned_less_equal_bound","a":dom_json(&a.dom),"bound":vjson(bound),
                "members_checked":members.iter().map(|v| json!({"member":vjson(*v),"satisfies":Cond::Ule.sat(*v,bound)})).collect::<Vec<_>>(),
                "some_member_satisfies": exists_sat(Cond::Ule, &a.iv, bound),
                "observed": format!("{:?}", guard(|| a.dom.clone().add_unsigned_less_equal_bound(&to_bv(bound))).map(|r| r.ok().and_then(|d| observe(&d).ok()).map(|o| o.iv.show())))}));
        }
    }
}

fn gen_dd(rng: &mut Rng, w: u32, rep: &mut Report) -> DD {
    let mut dd: DD = DataDomain::new_empty(bs(w));
    if rng.chance(3, 4) {
        dd.set_absolute_value(Some(gen_input(rng, w, rep).dom));
    }
    let n_rel = rng.below(3) as usize;
    let mut rel = BTreeMap::new();
    for i in 0..n_rel {
        rel.insert(mk_id(i + rng.below(2) as usize), gen_input(rng, w, rep).dom);
    }
    dd.set_relative_values(rel);
    if rng.chance(1, 4) {
        dd.set_contains_top_flag();
    }
    dd
}

fn run_data(n: u64, rng: &mut Rng, rep: &mut Report) {
    for _ in 0..n {
        let w = *rng.pick(&[1u32, 1, 2, 4, 8]);
        let dd = gen_dd(rng, w, rep);
        let abs_iv = abs_input(&dd).ok().flatten().map(|a| a.iv);
        let (bound, members) = match &abs_iv {
            Some(iv) => {
                let b = gen_bound(rng, iv);
                let m = if w == 1 { iv.all_members(257).unwrap() } else { bound_members(rng, iv, b) };
                (b, m)
            }
            None => (V::new(rng.biased(w), w), Vec::new()),
        };
        for cond in CONDS {
            check_data_bound(cond, &dd, bound, &members, rep, true);
        }
        if rng.chance(1, 3) {
            // intersect: second operand contains (if possible) a member of the first absolute part
            let mut dd2 = gen_dd(rng, w, rep);
            let mut known = Vec::new();
            if let (Some(iv), true) = (&abs_iv, rng.bool()) {
                let n = iv.steps();
                let c = iv.member(if n == 0 { 0 } else { rng.next_u128() % (n + 1) });
                known.push(c);
                let iv2 = around(rng, c.s(), w);
                dd2.set_absolute_value(Some(input_for(rng, iv2, rep).dom));
            }
            check_data_intersect(&dd, &dd2, &known, rep, true);
            check_data_intersect(&dd2, &dd, &known, rep, true);
        }
    }
}

/// Cross-validation of the two feasibility oracles (bitmaps from the definition vs. range arithmetic).
fn run_self_check(u1: &[Iv], rng: &mut Rng, rep: &mut Report) {
    let t = Tables::new();
    for _ in 0..200_000 {
        let a = pick_u1(rng, u1);
        let b = rng.below(256) as usize;
        let ci = rng.usize_below(5);
        let by_bitmap = !bm_empty(&bm_and(&a.bitmap(), &t.sat[ci * 256 + b]));
        let by_range = exists_sat(CONDS[ci], &a, V::new(b as u128, 1));
        if by_bitmap != by_range {
            rep.inconclusive("oracle-self-check:exists_sat-vs-bitmap");
            rep.note(format!("oracle self-check failed: {:?} {} bound {b}: bitmap {by_bitmap} range {by_range}", CONDS[ci], a.show()));
        }
        for x in [a.s, a.e, V::new(b as u128, 1).s()] {
            for m in members_around(&a, x) {
                if !a.contains(m) {
                    rep.inconclusive("oracle-self-check:members_around");
                }
            }
        }
    }
    rep.obs("oracle-self-check-done");
}

fn run_samples(rep: &mut Report) {
    let a = build_plain(Iv { s: -7, e: 9, stride: 4, w: 1 });
    let abm = a.iv.bitmap();
    for (cond, b) in [(Cond::Sle, 2i128), (Cond::Uge, 250), (Cond::Ne, -7)] {
        let bound = V::from_i(b, 1);
        let feasible: Vec<i128> = (0..256u128).map(|v| V::new(v, 1)).filter(|v| bm_test(&abm, v.v as usize) && cond.sat(*v, bound)).map(|v| v.s()).collect();
        let members = a.iv.all_members(257).unwrap();
        check_bound_w(cond, &a, bound, &members, rep, true);
        let observed = guard(|| cond.apply(a.dom.clone(), &to_bv(bound))).map(|r| r.ok().and_then(|d| observe(&d).ok()).map(|o| o.iv.show()));
        rep.sample(json!({"kind":"bound","fn":cond.name(),"a":a.iv.show(),"bound":bound.s(),"members_satisfying_the_condition":feasible,"observed":format!("{observed:?}"),"demand":"all listed members in gamma(result); Err only if the list is empty"}));
    }
}

fn run_task(task: &Task, u1: &[Iv], cfg: &Cfg, rng: &mut Rng, rep: &mut Report) {
    match task {
        Task::Samples => run_samples(rep),
        Task::SelfCheck => run_self_check(u1, rng, rep),
        Task::U1Bounds(s) => run_u1_bounds(*s, u1, cfg, rng, rep),
        Task::Intersect1(n) => run_intersect(1, *n, u1, rng, rep),
        Task::WideBounds(w, n) => run_wide_bounds(*w, *n, rng, rep),
        Task::WideIntersect(w, n) => run_intersect(*w, *n, u1, rng, rep),
        Task::Data(n) => run_data(*n, rng, rep),
    }
}

fn run(cfg: &Cfg) -> Report {
    let u1 = build_u1();
    let mut tasks = vec![Task::Samples, Task::SelfCheck];
    let shard = 20_000u64;
    for _ in 0..cfg.tier.pick(8, 200) {
        tasks.push(Task::Intersect1(shard));
    }
    for w in [2u32, 4, 8] {
        for _ in 0..cfg.tier.pick(4, 100) {
            tasks.push(Task::WideBounds(w, shard));
            tasks.push(Task::WideIntersect(w, shard));
        }
    }
    for _ in 0..cfg.tier.pick(8, 200) {
        tasks.push(Task::Data(shard));
    }
    // big tasks first within the U1 sweep: start = -128 has the most intervals
    for s in -128i128..=127 {
        tasks.push(Task::U1Bounds(s));
    }
    let mut rep = par_shards(cfg, "c04", tasks.len(), |idx, rng, rep| run_task(&tasks[idx], &u1, cfg, rng, rep));
    rep.extra.insert("u1_size".into(), json!(u1.len()));
    rep
}

// ---------------------------------------------------------------------------
// Replay

fn replay_input(j: &Value) -> Option<Input> {
    let dom: IntervalDomain = serde_json::from_value(j.clone()).ok()?;
    let o = observe(&dom).ok()?;
    if wf_error(&o, None).is_some() {
        return None;
    }
    Some(Input { dom, iv: o.iv, hinted: o.lo.is_some() || o.hi.is_some() || o.delay != 0 })
}

fn replay_members(iv: &Iv, j: &Value, around_x: Option<i128>) -> Vec<V> {
    let mut m = iv.all_members(1024).unwrap_or_else(|| iv.std_members());
    if let Some(x) = around_x {
        for v in members_around(iv, x) {
            if !m.contains(&v) {
                m.push(v);
            }
        }
    }
    if let Some(arr) = j.as_array() {
        for v in arr.iter().filter_map(vparse) {
            if iv.contains(v) && !m.contains(&v) {
                m.push(v);
            }
        }
    }
    m
}

fn replay(_cfg: &Cfg, case: &Value) -> Report {
    let mut rep = Report::new();
    let known: Vec<V> = case["wa"].as_array().map(|a| a.iter().filter_map(vparse).collect()).unwrap_or_default();
    match case["kind"].as_str().unwrap_or("") {
        "bound" => {
            if let (Some(cond), Some(a), Some(bound)) = (case["fn"].as_str().and_then(Cond::from_name), replay_input(&case["a"]), vparse(&case["bound"])) {
                let m = replay_members(&a.iv, &case["wa"], Some(bound.s()));
                check_bound_w(cond, &a, bound, &m, &mut rep, true);
            }
        }
        "intersect" => {
            if let (Some(a), Some(b)) = (replay_input(&case["a"]), replay_input(&case["b"])) {
                check_intersect(&a, &b, &known, &mut rep, true);
            }
        }
        "data-bound" => {
            if let (Some(cond), Ok(dd), Some(bound)) = (case["fn"].as_str().and_then(Cond::from_name), serde_json::from_value::<DD>(case["dd"].clone()), vparse(&case["bound"])) {
                let m = match abs_input(&dd) {
                    Ok(Some(a)) => replay_members(&a.iv, &case["wa"], Some(bound.s())),
                    _ => Vec::new(),
                };
                check_data_bound(cond, &dd, bound, &m, &mut rep, true);
            }
        }
        "data-intersect" => {
            if let (Ok(da), Ok(db)) = (serde_json::from_value::<DD>(case["dd"].clone()), serde_json::from_value::<DD>(case["dd2"].clone())) {
                check_data_intersect(&da, &db, &known, &mut rep, true);
            }
        }
        _ => rep.note("unknown replay case kind"),
    }
    rep
}
