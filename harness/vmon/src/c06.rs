//! C06 — the string abstractions over-approximate the strings they describe.
//!
//! Monitor shape: reference model. The real `BricksDomain` / `BrickDomain` /
//! `CharacterInclusionDomain` operations of `cwe_checker_lib` are executed on generated
//! values; an independent *bounded concretisation* γ_N written from the documentation of
//! the domains (never from the code of normalize/merge/widen) decides every execution:
//!
//! * brick `[S]^{min,max}` ↦ all concatenations of k ∈ [min,max] elements of S of length ≤ N
//!   (`max = u32::MAX` is simply a very large k-range, i.e. unbounded), `Top` ↦ every string,
//!   a brick list ↦ the concatenation of its bricks. N = 7 over the alphabet {a,b}; because
//!   concatenation never shortens a string, cutting every intermediate language at N yields
//!   *exactly* γ(x) ∩ Σ^{≤N}, so equality / inclusion of the cut languages is a sound test on
//!   all strings of length ≤ N (no string of length ≤ N is lost or invented by the truncation).
//! * `CharacterInclusionDomain (certain, possible)` ↦ {s | certain ⊆ chars(s) ⊆ possible},
//!   judged on every string of length ≤ 4 over the letters of the drive plus one extra letter.
//!
//! Checks: γ_N(normalize(x)) = γ_N(x); γ_N(x)·γ_N(y) ⊆ γ_N(append(x,y));
//! γ_N(x) ∪ γ_N(y) ⊆ γ_N(merge(x,y)) and ⊆ γ_N(widen(x,y)); the same for the brick-level
//! merge/widen and for CI append/merge. Panics and non-termination of an operation on an
//! in-domain input are violations too.
//!
//! Non-termination: every brick operation runs on a helper thread; the shard thread waits for
//! the results and declares `bricks:<op>:nontermination` when the helper has burnt
//! `HANG_CPU_MS` of CPU time (or `HANG_WALL_S` wall) on one call whose normal cost is
//! microseconds. The stuck helper is left behind (the process exits at the end); after
//! `HANG_CAP` stuck helpers the loop-capable operations (normalize, merge) are no longer fed
//! and counted as inconclusive.

use crate::core::*;
use crate::prng::{hash_str, mix, Rng};
use cwe_checker_lib::abstract_domain::{
    AbstractDomain, BrickDomain, BricksDomain, CharacterInclusionDomain, CharacterSet, DomainInsertion,
};
use serde_json::{json, Value};
use std::collections::BTreeSet;
use std::sync::atomic::{AtomicBool, AtomicU64, AtomicUsize, Ordering};
use std::sync::mpsc;
use std::sync::Arc;
use std::time::{Duration, Instant};

pub fn info() -> CheckInfo {
    CheckInfo {
        id: "C06",
        rule: "bounded concretisation gamma_N (N=7, alphabet {a,b}) of brick lists evaluated next to the real BricksDomain::{normalize, append_string_domain, merge, widen} and BrickDomain::{merge, widen}: gamma(normalize x) = gamma(x), gamma(x).gamma(y) <= gamma(append), gamma(x) u gamma(y) <= gamma(merge)/gamma(widen), restricted to strings of length <= 7; exhaustive over all 1- and 2-brick lists and all ordered brick pairs of the drive set (277 bricks: S <= {\"\",a,b,ab,ba}, 1<=|S|<=3, min<=max<=3 and (0,u32::MAX), Top, the padding brick []^(0,0)); thorough also all 3-brick lists over a reduced set of 101 bricks; sampled 3-brick lists (also with result-only bounds such as (1,MAX), (0,MAX-1), (2,6)), related pairs, longer lists and values reached through the public API only (from/append/merge rounds); CharacterInclusionDomain append/merge exhaustive over all (certain <= possible <= letters) values incl. possible=Top and Top, judged on all strings of length <= 4 (by their (character set, length) classes). non-trivial = the operation returned a value that is not Top (bricks: at least one non-Top brick; normalize: additionally output differs from input) and the input languages are neither empty nor everything; distinct = hash of (operation, operands)",
        assumptions: &[
            "gamma_N is computed by this module from the documented meaning of bricks ([S]^{min,max}, Top, list = concatenation) and of (certain, possible); max = u32::MAX is read as 'unbounded', which within N=7 equals any bound >= 8",
            "input guard (bricks): min <= max; an empty string set only as the padding brick []^{0,0}; lists have at least one brick; only BricksDomain::Value is passed to normalize and widen and only BrickDomain::Value to BrickDomain::widen (they unwrap, merge checks Top before calling them)",
            "input guard (cost): the product of |S_i|^min_i of a list to be normalized is <= 5000 and for merge (max|S_x|+max|S_y|)^min(sum min_x, sum min_y) <= 5000, so that a terminating call costs far less than the watchdog bound",
            "input guard (CI): certain is never CharacterSet::Top and certain <= possible (what From<String>, append and merge produce)",
            "non-termination verdict = no result after 1.5 s CPU time of the helper thread (20 s wall if /proc schedstat is unreadable) for a call whose terminating instances take < 10 ms; the smallest witness per signature is re-run with a 6 s CPU bound before it is reported",
            "repetition bounds above N=7 (e.g. the interval threshold 8 of widen) are indistinguishable from 'unbounded' for strings of length <= 7",
            "verdicts on the release profile",
        ],
        run,
        replay,
    }
}

// ---------------------------------------------------------------------------
// Bounded languages over {a,b}: lang[l] is a bit set over the 2^l strings of length l
// (bit index = the string read as a binary number, a=0, b=1, first character most significant).

const N: usize = 7;
type Lang = [u128; N + 1];

fn lang_all() -> Lang {
    let mut l = [0u128; N + 1];
    for (len, slot) in l.iter_mut().enumerate() {
        let bits = 1u32 << len;
        *slot = if bits == 128 { u128::MAX } else { (1u128 << bits) - 1 };
    }
    l
}

fn lang_eps() -> Lang {
    let mut l = [0u128; N + 1];
    l[0] = 1;
    l
}

fn lang_empty() -> Lang {
    [0u128; N + 1]
}

/// Encode a string over {a,b} of length ≤ N.
fn encode(s: &str) -> Option<(usize, u32)> {
    let mut bits = 0u32;
    let mut len = 0usize;
    for c in s.chars() {
        let b = match c {
            'a' => 0,
            'b' => 1,
            _ => return None,
        };
        bits = (bits << 1) | b;
        len += 1;
        if len > N {
            return None;
        }
    }
    Some((len, bits))
}

fn decode(len: usize, bits: u32) -> String {
    (0..len).map(|i| if (bits >> (len - 1 - i)) & 1 == 1 { 'b' } else { 'a' }).collect()
}

/// Concatenation of two languages cut at N.
fn lang_concat(a: &Lang, b: &Lang) -> Lang {
    let mut out = [0u128; N + 1];
    for la in 0..=N {
        let mut m = a[la];
        while m != 0 {
            let ba = m.trailing_zeros();
            m &= m - 1;
            for lb in 0..=(N - la) {
                let chunk = b[lb];
                if chunk != 0 {
                    out[la + lb] |= chunk << (ba << lb);
                }
            }
        }
    }
    out
}

fn lang_union(a: &Lang, b: &Lang) -> Lang {
    let mut out = *a;
    for l in 0..=N {
        out[l] |= b[l];
    }
    out
}

/// A string that is in `a` but not in `b`.
fn lang_missing(a: &Lang, b: &Lang) -> Option<String> {
    for l in 0..=N {
        let d = a[l] & !b[l];
        if d != 0 {
            return Some(decode(l, d.trailing_zeros()));
        }
    }
    None
}

fn lang_count(a: &Lang) -> u32 {
    a.iter().map(|x| x.count_ones()).sum()
}

// ---------------------------------------------------------------------------
// Model of the domain values (plain data owned by the harness)

#[derive(Clone, Debug, PartialEq, Eq, Hash, PartialOrd, Ord)]
enum MB {
    Top,
    B { seq: Vec<String>, min: u32, max: u32 },
}

#[derive(Clone, Debug, PartialEq, Eq, Hash, PartialOrd, Ord)]
enum MBs {
    Top,
    V(Vec<MB>),
}

fn gamma_brick(b: &MB) -> Lang {
    match b {
        MB::Top => lang_all(),
        MB::B { seq, min, max } => {
            // the elements of S inside the universe; an element with foreign characters or longer than N
            // cannot be part of any string of the universe
            let mut s = lang_empty();
            for e in seq {
                if let Some((l, bits)) = encode(e) {
                    s[l] |= 1u128 << bits;
                }
            }
            let (min, max) = (*min as u64, *max as u64);
            let mut acc = lang_empty();
            let mut p = lang_eps(); // S^k
            let mut k: u64 = 0;
            loop {
                if k >= min && k <= max {
                    acc = lang_union(&acc, &p);
                }
                if k >= max {
                    break;
                }
                let next = lang_concat(&p, &s);
                if next == p {
                    // S^j = S^k for all j >= k: some j >= k lies in [min,max] iff min <= max (k < max here)
                    if min <= max {
                        acc = lang_union(&acc, &p);
                    }
                    break;
                }
                p = next;
                k += 1;
            }
            acc
        }
    }
}

fn gamma(x: &MBs) -> Lang {
    match x {
        MBs::Top => lang_all(),
        MBs::V(list) => {
            let mut l = lang_eps();
            for b in list {
                l = lang_concat(&l, &gamma_brick(b));
            }
            l
        }
    }
}

fn show_brick(b: &MB) -> String {
    match b {
        MB::Top => "[T]".to_string(),
        MB::B { seq, min, max } => {
            let m = if *max == u32::MAX { "MAX".to_string() } else if *max > u32::MAX - 64 { format!("MAX-{}", u32::MAX - *max) } else { max.to_string() };
            format!("[{}]^({},{})", seq.iter().map(|s| format!("{s:?}")).collect::<Vec<_>>().join(","), min, m)
        }
    }
}

fn show(x: &MBs) -> String {
    match x {
        MBs::Top => "Top".to_string(),
        MBs::V(l) if l.is_empty() => "<no bricks>".to_string(),
        MBs::V(l) => l.iter().map(show_brick).collect::<Vec<_>>().join(" "),
    }
}

fn size_brick(b: &MB) -> u64 {
    match b {
        MB::Top => 2,
        MB::B { seq, min, max } => 2 + seq.iter().map(|s| 1 + s.len() as u64).sum::<u64>() + (*min).min(16) as u64 + if *max > 64 { 6 } else { *max as u64 },
    }
}

fn size_of(x: &MBs) -> u64 {
    match x {
        MBs::Top => 1,
        MBs::V(l) => l.iter().map(size_brick).sum::<u64>() + l.len() as u64,
    }
}

// --- conversion to / from the real types (public constructors and setters only)

fn real_brick(b: &MB) -> BrickDomain {
    match b {
        MB::Top => BrickDomain::Top,
        MB::B { seq, min, max } => {
            let mut d = BrickDomain::new(String::new());
            if let BrickDomain::Value(ref mut brick) = d {
                brick.set_sequence(seq.iter().cloned().collect::<BTreeSet<String>>());
                brick.set_min(*min);
                brick.set_max(*max);
            }
            d
        }
    }
}

fn real(x: &MBs) -> BricksDomain {
    match x {
        MBs::Top => BricksDomain::Top,
        MBs::V(l) => BricksDomain::Value(l.iter().map(real_brick).collect()),
    }
}

fn model_brick(b: &BrickDomain) -> MB {
    match b {
        BrickDomain::Top => MB::Top,
        BrickDomain::Value(brick) => MB::B { seq: brick.get_sequence().iter().cloned().collect(), min: brick.get_min(), max: brick.get_max() },
    }
}

fn model(x: &BricksDomain) -> MBs {
    match x {
        BricksDomain::Top => MBs::Top,
        BricksDomain::Value(l) => MBs::V(l.iter().map(model_brick).collect()),
    }
}

// ---------------------------------------------------------------------------
// Cases

#[derive(Clone, Copy, Debug, PartialEq, Eq, Hash)]
enum Op {
    Normalize,
    Append,
    Merge,
    Widen,
    BrickMerge,
    BrickWiden,
}

impl Op {
    fn name(self) -> &'static str {
        match self {
            Op::Normalize => "normalize",
            Op::Append => "append",
            Op::Merge => "merge",
            Op::Widen => "widen",
            Op::BrickMerge => "brick-merge",
            Op::BrickWiden => "brick-widen",
        }
    }
    fn parse(s: &str) -> Option<Op> {
        [Op::Normalize, Op::Append, Op::Merge, Op::Widen, Op::BrickMerge, Op::BrickWiden].into_iter().find(|o| o.name() == s)
    }
    /// Operations that contain a fixpoint loop.
    fn can_loop(self) -> bool {
        matches!(self, Op::Normalize | Op::Merge)
    }
}

/// One execution of one operation. Brick-level operations carry one-brick lists.
#[derive(Clone, Debug)]
struct Case {
    op: Op,
    x: MBs,
    y: Option<MBs>,
    /// how the operands came about (for the histogram / the witness text)
    origin: &'static str,
}

impl Case {
    fn json(&self) -> Value {
        let y = match (&self.y, self.op) {
            (Some(y), Op::BrickMerge | Op::BrickWiden) => json!(real_brick(first_brick(y))),
            (Some(y), _) => json!(real(y)),
            (None, _) => Value::Null,
        };
        let x = match self.op {
            Op::BrickMerge | Op::BrickWiden => json!(real_brick(first_brick(&self.x))),
            _ => json!(real(&self.x)),
        };
        json!({"kind": self.op.name(), "x": x, "y": y, "origin": self.origin, "shown": format!("x = {} ; y = {}", show(&self.x), self.y.as_ref().map(show).unwrap_or_default())})
    }
    fn fp(&self) -> u64 {
        mix(hash_str(self.op.name()), hash_str(&format!("{:?}|{:?}", self.x, self.y)))
    }
    fn size(&self) -> u64 {
        size_of(&self.x) + self.y.as_ref().map(size_of).unwrap_or(0)
    }
}

fn first_brick(x: &MBs) -> &MB {
    match x {
        MBs::V(l) if !l.is_empty() => &l[0],
        _ => &MB::Top,
    }
}

/// Is the case inside the input domain the implementation legitimately assumes?
fn in_domain(c: &Case) -> bool {
    fn wf(x: &MBs) -> bool {
        match x {
            MBs::Top => true,
            MBs::V(l) => {
                !l.is_empty()
                    && l.iter().all(|b| match b {
                        MB::Top => true,
                        MB::B { seq, min, max } => min <= max && (!seq.is_empty() || (*min == 0 && *max == 0)),
                    })
            }
        }
    }
    if !wf(&c.x) || !c.y.as_ref().map(wf).unwrap_or(true) {
        return false;
    }
    let is_val = |x: &MBs| matches!(x, MBs::V(_));
    match c.op {
        Op::Normalize => is_val(&c.x) && c.y.is_none() && expansion(&c.x) <= COST_CAP,
        Op::Widen => is_val(&c.x) && c.y.as_ref().map(is_val).unwrap_or(false),
        Op::Merge => match &c.y {
            Some(y) => merge_cost(&c.x, y) <= COST_CAP,
            None => false,
        },
        Op::Append => c.y.is_some(),
        Op::BrickMerge => c.y.is_some() && is_val(&c.x) && c.y.as_ref().map(is_val).unwrap_or(false),
        Op::BrickWiden => match (&c.x, &c.y) {
            (MBs::V(_), Some(MBs::V(_))) => *first_brick(&c.x) != MB::Top && *first_brick(c.y.as_ref().unwrap()) != MB::Top,
            _ => false,
        },
    }
}

const COST_CAP: f64 = 5000.0;

/// Upper bound on the number of strings normalisation may have to build: Π |S_i|^min_i.
fn expansion(x: &MBs) -> f64 {
    match x {
        MBs::Top => 1.0,
        MBs::V(l) => l
            .iter()
            .map(|b| match b {
                MB::Top => 1.0,
                MB::B { seq, min, .. } => (seq.len().max(1) as f64).powi((*min).min(64) as i32),
            })
            .product(),
    }
}

fn sum_min(x: &MBs) -> u32 {
    match x {
        MBs::Top => 0,
        MBs::V(l) => l.iter().map(|b| if let MB::B { min, .. } = b { (*min).min(64) } else { 0 }).sum(),
    }
}

fn max_set(x: &MBs) -> usize {
    match x {
        MBs::Top => 0,
        MBs::V(l) => l.iter().map(|b| if let MB::B { seq, .. } = b { seq.len() } else { 0 }).max().unwrap_or(0),
    }
}

fn merge_cost(x: &MBs, y: &MBs) -> f64 {
    let u = (max_set(x) + max_set(y)).max(1) as f64;
    u.powi(sum_min(x).min(sum_min(y)) as i32)
}

// ---------------------------------------------------------------------------
// Execution of the code under test on a helper thread with a watchdog

#[derive(Clone)]
struct Job {
    op: Op,
    x: BricksDomain,
    y: Option<BricksDomain>,
}

#[derive(Clone, Debug)]
enum Out {
    Bricks(BricksDomain),
    Brick(BrickDomain),
    Panic(String),
    Hang(String),
    Skipped,
}

const HANG_CPU_MS: u64 = 1500;
const HANG_WALL_S: u64 = 20;
const HANG_CAP: usize = 3;

static STUCK_THREADS: AtomicUsize = AtomicUsize::new(0);
static MAX_CALL_US: AtomicU64 = AtomicU64::new(0);
static SLOWEST: std::sync::Mutex<(u64, String)> = std::sync::Mutex::new((0, String::new()));

fn one_brick(x: &BricksDomain) -> BrickDomain {
    match x {
        BricksDomain::Value(l) if !l.is_empty() => l[0].clone(),
        _ => BrickDomain::Top,
    }
}

/// The only place where the code under test is called for the brick domains.
fn exec_job(j: &Job) -> Out {
    let t = Instant::now();
    let r = match j.op {
        Op::Normalize => guard(|| j.x.normalize()).map(Out::Bricks),
        Op::Append => guard(|| j.x.append_string_domain(j.y.as_ref().unwrap())).map(Out::Bricks),
        Op::Merge => guard(|| j.x.merge(j.y.as_ref().unwrap())).map(Out::Bricks),
        Op::Widen => guard(|| j.x.widen(j.y.as_ref().unwrap())).map(Out::Bricks),
        Op::BrickMerge => {
            let (a, b) = (one_brick(&j.x), one_brick(j.y.as_ref().unwrap()));
            guard(|| a.merge(&b)).map(Out::Brick)
        }
        Op::BrickWiden => {
            let (a, b) = (one_brick(&j.x), one_brick(j.y.as_ref().unwrap()));
            guard(|| a.widen(&b)).map(Out::Brick)
        }
    };
    let us = t.elapsed().as_micros() as u64;
    if us > MAX_CALL_US.fetch_max(us, Ordering::Relaxed) && us > 2000 {
        if let Ok(mut g) = SLOWEST.lock() {
            if us > g.0 {
                *g = (us, format!("{}({} ; {})", j.op.name(), show(&model(&j.x)), j.y.as_ref().map(|y| show(&model(y))).unwrap_or_default()));
            }
        }
    }
    match r {
        Ok(o) => o,
        Err(p) => Out::Panic(p),
    }
}

/// CPU time (ns) consumed so far by thread `tid` of this process.
fn thread_cpu_ns(tid: u64) -> Option<u64> {
    let s = std::fs::read_to_string(format!("/proc/self/task/{tid}/schedstat")).ok()?;
    s.split_whitespace().next()?.parse::<u64>().ok()
}

fn own_tid() -> Option<u64> {
    let l = std::fs::read_link("/proc/thread-self").ok()?;
    l.file_name()?.to_str()?.parse::<u64>().ok()
}

enum Msg {
    Tid(Option<u64>),
    Done,
}

struct Shared {
    jobs: Vec<Job>,
    outs: std::sync::Mutex<Vec<Option<Out>>>,
    /// index of the job the helper is working on
    progress: AtomicUsize,
}

/// Run all jobs (in order) on a helper thread; a call that does not come back is reported as `Out::Hang`,
/// its thread is abandoned and a new helper continues behind it.
fn exec_batch(jobs: Vec<Job>, cpu_limit_ms: u64, force_loops: bool) -> Vec<Out> {
    let n = jobs.len();
    let shared = Arc::new(Shared { jobs, outs: std::sync::Mutex::new(vec![None; n]), progress: AtomicUsize::new(0) });
    let mut next = 0usize;
    install_quiet_panic_hook();
    while next < n {
        // once too many helpers are stuck, loop-capable operations are no longer fed
        let skip_loops = !force_loops && STUCK_THREADS.load(Ordering::SeqCst) >= HANG_CAP;
        let abandon = Arc::new(AtomicBool::new(false));
        let (tx, rx) = mpsc::channel::<Msg>();
        let (sh, ab, start) = (shared.clone(), abandon.clone(), next);
        shared.progress.store(start, Ordering::SeqCst);
        let spawned = std::thread::Builder::new().name("c06-helper".into()).spawn(move || {
            let _ = tx.send(Msg::Tid(own_tid()));
            for i in start..sh.jobs.len() {
                if ab.load(Ordering::SeqCst) {
                    return;
                }
                sh.progress.store(i, Ordering::SeqCst);
                let out = if skip_loops && sh.jobs[i].op.can_loop() { Out::Skipped } else { exec_job(&sh.jobs[i]) };
                let mut g = sh.outs.lock().unwrap();
                if g[i].is_none() {
                    g[i] = Some(out);
                }
            }
            let _ = tx.send(Msg::Done);
        });
        if spawned.is_err() {
            break;
        }
        let mut tid: Option<u64> = None;
        let mut baseline: Option<u64> = None;
        let mut last_p = usize::MAX;
        let mut last_progress = Instant::now();
        loop {
            match rx.recv_timeout(Duration::from_millis(100)) {
                Ok(Msg::Tid(t)) => tid = t,
                Ok(Msg::Done) => {
                    next = n;
                    break;
                }
                Err(mpsc::RecvTimeoutError::Timeout) => {
                    let p = shared.progress.load(Ordering::SeqCst);
                    if p != last_p {
                        last_p = p;
                        baseline = None;
                        last_progress = Instant::now();
                        continue;
                    }
                    // still the same call as at the previous poll
                    let cpu = tid.and_then(thread_cpu_ns);
                    let wall = last_progress.elapsed();
                    let verdict = match (baseline, cpu) {
                        (None, Some(c)) => {
                            baseline = Some(c);
                            None
                        }
                        (Some(b), Some(c)) if c.saturating_sub(b) >= cpu_limit_ms * 1_000_000 => {
                            Some(Out::Hang(format!("no result after {} ms of CPU time on the helper thread", c.saturating_sub(b) / 1_000_000)))
                        }
                        (_, None) if wall.as_secs() >= HANG_WALL_S => Some(Out::Hang(format!("no result after {} s (wall)", wall.as_secs()))),
                        // a helper that gets (almost) no CPU for a very long time: give up on the call without a verdict
                        _ if wall.as_secs() >= 20 * HANG_WALL_S => Some(Out::Skipped),
                        _ => None,
                    };
                    if let Some(v) = verdict {
                        abandon.store(true, Ordering::SeqCst);
                        let mut g = shared.outs.lock().unwrap();
                        if g[p].is_none() {
                            g[p] = Some(v);
                            STUCK_THREADS.fetch_add(1, Ordering::SeqCst);
                        }
                        next = p + 1;
                        break;
                    }
                }
                Err(mpsc::RecvTimeoutError::Disconnected) => {
                    // the helper ended without Done: it died outside a guarded call
                    let p = shared.progress.load(Ordering::SeqCst);
                    let mut g = shared.outs.lock().unwrap();
                    if g[p].is_none() {
                        g[p] = Some(Out::Panic("helper thread terminated without a result".into()));
                    }
                    next = p + 1;
                    break;
                }
            }
        }
    }
    let g = shared.outs.lock().unwrap();
    g.iter().map(|o| o.clone().unwrap_or(Out::Skipped)).collect()
}

fn job_of(c: &Case) -> Job {
    Job { op: c.op, x: real(&c.x), y: c.y.as_ref().map(real) }
}

// ---------------------------------------------------------------------------
// Oracle

fn trivial_lang(l: &Lang) -> bool {
    let c = lang_count(l);
    c == 0 || c == 255
}

fn has_value_brick(x: &MBs) -> bool {
    matches!(x, MBs::V(l) if l.iter().any(|b| *b != MB::Top))
}

/// Judge one executed case. Returns the result value (for chaining) if there is one.
fn judge(c: &Case, out: &Out, rep: &mut Report, track: bool) -> Option<MBs> {
    let op = c.op.name();
    let sig = |what: &str| format!("bricks:{op}:{what}");
    let call = || match &c.y {
        Some(y) => format!("{op}({} ; {})", show(&c.x), show(y)),
        None => format!("{op}({})", show(&c.x)),
    };
    let result: MBs = match out {
        Out::Skipped => {
            rep.inconclusive("bricks: loop-capable operation not executed (too many stuck helper threads)");
            return None;
        }
        Out::Panic(p) => {
            rep.eval();
            rep.violation(sig(&format!("panic:{}", panic_site(p))), None, format!("{} panicked: {p}; expected a value describing at least the strings required by the property", call()), c.json(), c.size());
            return None;
        }
        Out::Hang(h) => {
            rep.eval();
            rep.obs(&format!("{op}:nontermination"));
            rep.violation(sig("nontermination"), None, format!("{} did not return: {h} (terminating calls of this run take at most a few ms); expected a result", call()), c.json(), c.size());
            return None;
        }
        Out::Bricks(b) => model(b),
        Out::Brick(b) => MBs::V(vec![model_brick(b)]),
    };
    rep.eval();
    let gx = gamma(&c.x);
    let gr = gamma(&result);
    let mut nontrivial = has_value_brick(&result) && !trivial_lang(&gx);
    match c.op {
        Op::Normalize => {
            if let Some(s) = lang_missing(&gx, &gr) {
                rep.violation(sig("member-lost"), None, format!("{} = {} : the string {s:?} is represented by the input but not by the result (strings of length <= {N}: {} before, {} after)", call(), show(&result), lang_count(&gx), lang_count(&gr)), c.json(), c.size());
            } else if let Some(s) = lang_missing(&gr, &gx) {
                rep.violation(sig("member-added"), None, format!("{} = {} : the string {s:?} is represented by the result but not by the input (strings of length <= {N}: {} before, {} after)", call(), show(&result), lang_count(&gx), lang_count(&gr)), c.json(), c.size());
            }
            nontrivial = nontrivial && result != c.x;
            if track {
                rep.obs(if result != c.x { "normalize:changed" } else { "normalize:already-normal" });
            }
        }
        Op::Append => {
            let gy = gamma(c.y.as_ref().unwrap());
            let need = lang_concat(&gx, &gy);
            if let Some(s) = lang_missing(&need, &gr) {
                rep.violation(sig("concatenation-lost"), None, format!("{} = {} : {s:?} is a concatenation of members of the operands but is not represented by the result", call(), show(&result)), c.json(), c.size());
            }
            nontrivial = nontrivial && !trivial_lang(&gy);
        }
        Op::Merge | Op::Widen | Op::BrickMerge | Op::BrickWiden => {
            let gy = gamma(c.y.as_ref().unwrap());
            for (which, g) in [("first", &gx), ("second", &gy)] {
                if let Some(s) = lang_missing(g, &gr) {
                    rep.violation(sig("member-lost"), None, format!("{} = {} : {s:?} is represented by the {which} operand but not by the result", call(), show(&result)), c.json(), c.size());
                    break;
                }
            }
            nontrivial = nontrivial && !trivial_lang(&gy) && c.y.as_ref() != Some(&c.x);
            if track {
                rep.obs(&format!("{op}:{}", if has_value_brick(&result) { "value" } else { "top" }));
            }
        }
    }
    if nontrivial {
        rep.nontrivial(c.fp());
    }
    if track {
        rep.obs(&format!("op:{op}:{}", c.origin));
        if let MBs::V(l) = &c.x {
            rep.obs(&format!("x-bricks:{}", l.len().min(9)));
            if l.iter().any(|b| matches!(b, MB::B { max, .. } if *max > u32::MAX - 64)) {
                rep.obs("x-has-unbounded-brick");
            }
            if l.contains(&MB::Top) {
                rep.obs("x-has-top-brick");
            }
        } else {
            rep.obs("x-is-top");
        }
    }
    Some(result)
}

/// Execute and judge a list of cases (cases outside the input domain are dropped).
fn run_cases(cases: Vec<Case>, rep: &mut Report, track: bool, sample: bool) -> Vec<(Case, Option<MBs>)> {
    let cases: Vec<Case> = cases
        .into_iter()
        .filter(|c| {
            let ok = in_domain(c);
            if !ok && track {
                rep.obs("dropped:outside-input-domain");
            }
            ok
        })
        .collect();
    let outs = exec_batch(cases.iter().map(job_of).collect(), HANG_CPU_MS, false);
    let mut res = Vec::with_capacity(cases.len());
    for (c, o) in cases.into_iter().zip(outs.iter()) {
        let r = judge(&c, o, rep, track);
        if sample && rep.wants_sample() {
            let gx = gamma(&c.x);
            rep.sample(json!({"op": c.op.name(), "x": show(&c.x), "y": c.y.as_ref().map(show), "observed_result": r.as_ref().map(show),
                "strings_up_to_len7_in_x": lang_count(&gx), "strings_up_to_len7_in_y": c.y.as_ref().map(|y| lang_count(&gamma(y))),
                "strings_up_to_len7_in_result": r.as_ref().map(|r| lang_count(&gamma(r))),
                "verdict": if rep.violations.is_empty() { "holds" } else { "violated" }}));
        }
        res.push((c, r));
    }
    res
}

// ---------------------------------------------------------------------------
// Generators

const ELEMS: [&str; 5] = ["", "a", "b", "ab", "ba"];
const BASE_BOUNDS: [(u32, u32); 11] = [(0, 0), (0, 1), (0, 2), (0, 3), (1, 1), (1, 2), (1, 3), (2, 2), (2, 3), (3, 3), (0, u32::MAX)];
/// bounds that only arise as results (sums of bounds, saturated sums, remainders of the unbounded form, hulls)
const EXTRA_BOUNDS: [(u32, u32); 12] =
    [(1, u32::MAX), (2, u32::MAX), (0, u32::MAX - 1), (0, u32::MAX - 2), (0, 4), (0, 6), (1, 4), (2, 5), (2, 6), (4, 4), (0, 10), (1, 12)];

/// All subsets of ELEMS with 1..=max_size elements (sorted element order as in a BTreeSet).
fn all_sets(max_size: usize) -> Vec<Vec<String>> {
    let mut v = Vec::new();
    for mask in 1u32..(1 << ELEMS.len()) {
        if mask.count_ones() as usize <= max_size {
            let mut s: Vec<String> = (0..ELEMS.len()).filter(|i| mask >> i & 1 == 1).map(|i| ELEMS[i].to_string()).collect();
            s.sort();
            v.push(s);
        }
    }
    v
}

/// The drive set of bricks: Top, the padding brick, S x bounds.
fn all_bricks(reduced: bool) -> Vec<MB> {
    let mut v = vec![MB::Top, MB::B { seq: vec![], min: 0, max: 0 }];
    let sets: Vec<Vec<String>> = if reduced {
        [vec![""], vec!["a"], vec!["b"], vec!["ab"], vec!["a", "b"], vec!["", "a"], vec!["a", "ab"], vec!["ab", "ba"], vec!["a", "ab", "b"]]
            .iter()
            .map(|s| s.iter().map(|e| e.to_string()).collect())
            .collect()
    } else {
        all_sets(3)
    };
    for s in sets {
        for (min, max) in BASE_BOUNDS {
            v.push(MB::B { seq: s.clone(), min, max });
        }
    }
    v
}

fn random_set(rng: &mut Rng) -> Vec<String> {
    let size = match rng.below(10) {
        0..=3 => 1,
        4..=7 => 2,
        _ => 3,
    };
    let mut idx: Vec<usize> = (0..ELEMS.len()).collect();
    rng.shuffle(&mut idx);
    let mut s: Vec<String> = idx[..size].iter().map(|i| ELEMS[*i].to_string()).collect();
    s.sort();
    s
}

fn random_bounds(rng: &mut Rng) -> (u32, u32) {
    if rng.chance(1, 7) {
        *rng.pick(&EXTRA_BOUNDS)
    } else {
        *rng.pick(&BASE_BOUNDS)
    }
}

fn random_brick(rng: &mut Rng, prev: Option<&MB>) -> MB {
    match rng.below(24) {
        0 | 1 => return MB::Top,
        2 => return MB::B { seq: vec![], min: 0, max: 0 },
        _ => (),
    }
    // equal neighbouring sets (rule 4) and runs of (1,1) bricks (rule 2) are the interesting shapes
    let seq = match prev {
        Some(MB::B { seq, .. }) if !seq.is_empty() && rng.chance(2, 5) => seq.clone(),
        _ => random_set(rng),
    };
    let (min, max) = if rng.chance(1, 5) { (1, 1) } else { random_bounds(rng) };
    MB::B { seq, min, max }
}

fn random_list(rng: &mut Rng, max_len: usize) -> MBs {
    let len = 1 + (rng.below(8) as usize * max_len / 6).min(max_len - 1);
    let mut l: Vec<MB> = Vec::new();
    for _ in 0..len {
        let b = random_brick(rng, l.last());
        l.push(b);
    }
    MBs::V(l)
}

/// A brick that describes at least what `b` describes (often strictly more).
fn enlarge(rng: &mut Rng, b: &MB) -> MB {
    match b {
        MB::Top => MB::Top,
        MB::B { seq, min, max } => {
            if rng.chance(1, 12) {
                return MB::Top;
            }
            let mut s: BTreeSet<String> = seq.iter().cloned().collect();
            if rng.bool() {
                s.insert(rng.pick(&ELEMS).to_string());
            }
            let nmin = if rng.bool() { *min } else { rng.below(*min as u64 + 1) as u32 };
            let nmax = match rng.below(4) {
                0 => max.saturating_add(rng.below(3) as u32),
                1 if rng.chance(1, 3) => u32::MAX,
                _ => *max,
            };
            let (nmin, nmax) = if s.is_empty() { (0, 0) } else { (nmin.min(nmax), nmax) };
            MB::B { seq: s.into_iter().collect(), min: nmin, max: nmax }
        }
    }
}

/// A list related to `x` (so that merge/widen do not trivially answer Top).
fn related(rng: &mut Rng, x: &MBs) -> MBs {
    let l = match x {
        MBs::Top => return random_list(rng, 3),
        MBs::V(l) => l,
    };
    let mut out: Vec<MB> = Vec::new();
    let mode = rng.below(6);
    for b in l {
        match mode {
            0 => {
                // drop bricks
                if !rng.chance(1, 3) {
                    out.push(b.clone());
                }
            }
            1 => out.push(enlarge(rng, b)),
            2 => {
                // insert bricks
                if rng.chance(1, 3) {
                    let nb = random_brick(rng, Some(b));
                    out.push(nb);
                }
                out.push(b.clone());
            }
            3 => {
                // drop and enlarge
                if !rng.chance(1, 3) {
                    out.push(if rng.bool() { enlarge(rng, b) } else { b.clone() });
                }
            }
            4 => {
                // change only the bounds
                out.push(match b {
                    MB::B { seq, .. } if !seq.is_empty() => {
                        let (min, max) = random_bounds(rng);
                        MB::B { seq: seq.clone(), min, max }
                    }
                    other => other.clone(),
                });
            }
            _ => out.push(b.clone()),
        }
    }
    if mode == 5 {
        let nb = random_brick(rng, out.last());
        if rng.bool() {
            out.push(nb);
        } else {
            out.insert(0, nb);
        }
    }
    if out.is_empty() {
        out.push(l[rng.usize_below(l.len())].clone());
    }
    MBs::V(out)
}

fn concat_lists(x: &MBs, y: &MBs) -> Option<MBs> {
    match (x, y) {
        (MBs::V(a), MBs::V(b)) => Some(MBs::V(a.iter().chain(b.iter()).cloned().collect())),
        _ => None,
    }
}

/// All checks for an ordered pair of lists.
fn pair_cases(x: &MBs, y: &MBs, origin: &'static str, with_normalize: bool) -> Vec<Case> {
    let mut v = vec![
        Case { op: Op::Append, x: x.clone(), y: Some(y.clone()), origin },
        Case { op: Op::Merge, x: x.clone(), y: Some(y.clone()), origin },
        Case { op: Op::Widen, x: x.clone(), y: Some(y.clone()), origin },
    ];
    if with_normalize {
        v.push(Case { op: Op::Normalize, x: x.clone(), y: None, origin });
        if let Some(xy) = concat_lists(x, y) {
            v.push(Case { op: Op::Normalize, x: xy, y: None, origin: "concatenated" });
        }
    }
    v
}

#[derive(Clone, Debug)]
enum Task {
    /// normalize all 1-brick lists, then all 2-brick lists whose first brick has index in the range
    EnumLists { reduced: bool, first: bool, lo: usize, hi: usize },
    /// normalize all 3-brick lists over the reduced drive set whose first brick has index in the range
    EnumLists3 { lo: usize, hi: usize },
    /// brick-level merge/widen for all brick pairs with the first brick in the range, and the list-level
    /// operations on the corresponding 1-brick lists
    EnumBrickPairs { reduced: bool, lo: usize, hi: usize },
    /// random 3-brick lists (normalize) and random / related pairs (append, merge, widen)
    Sample { n: usize },
    /// longer lists (up to 8 bricks, sometimes beyond the length threshold of widen)
    Long { n: usize },
    /// values obtained through the public API only: from(String), Top, append, merge
    Api { rounds: usize, per_round: usize },
    /// CharacterInclusionDomain, exhaustive
    Ci { letters: usize, lo: usize, hi: usize },
}

fn run_task(task: &Task, rng: &mut Rng, rep: &mut Report) {
    match task {
        Task::EnumLists { reduced, first, lo, hi } => {
            let bricks = all_bricks(*reduced);
            let mut cases = Vec::new();
            if *first {
                for b in &bricks {
                    cases.push(Case { op: Op::Normalize, x: MBs::V(vec![b.clone()]), y: None, origin: "enumerated" });
                }
            }
            for a in &bricks[*lo..(*hi).min(bricks.len())] {
                for b in &bricks {
                    cases.push(Case { op: Op::Normalize, x: MBs::V(vec![a.clone(), b.clone()]), y: None, origin: "enumerated" });
                }
            }
            run_cases(cases, rep, true, false);
            if *first {
                rep.exhaustive_parts.push(format!("normalize on all lists of 1 and 2 bricks over the {} drive set ({} bricks)", if *reduced { "reduced" } else { "full" }, bricks.len()));
            }
        }
        Task::EnumLists3 { lo, hi } => {
            let bricks = all_bricks(true);
            for a in &bricks[*lo..(*hi).min(bricks.len())] {
                let mut cases = Vec::new();
                for b in &bricks {
                    for c in &bricks {
                        cases.push(Case { op: Op::Normalize, x: MBs::V(vec![a.clone(), b.clone(), c.clone()]), y: None, origin: "enumerated-3" });
                    }
                }
                run_cases(cases, rep, true, false);
            }
            if *lo == 0 {
                rep.exhaustive_parts.push(format!("normalize on all lists of 3 bricks over the reduced drive set ({} bricks)", bricks.len()));
            }
        }
        Task::EnumBrickPairs { reduced, lo, hi } => {
            let bricks = all_bricks(*reduced);
            let mut cases = Vec::new();
            for a in &bricks[*lo..(*hi).min(bricks.len())] {
                for b in &bricks {
                    let (x, y) = (MBs::V(vec![a.clone()]), MBs::V(vec![b.clone()]));
                    cases.push(Case { op: Op::BrickMerge, x: x.clone(), y: Some(y.clone()), origin: "enumerated" });
                    cases.push(Case { op: Op::BrickWiden, x: x.clone(), y: Some(y.clone()), origin: "enumerated" });
                    cases.push(Case { op: Op::Merge, x: x.clone(), y: Some(y.clone()), origin: "enumerated" });
                    cases.push(Case { op: Op::Widen, x: x.clone(), y: Some(y.clone()), origin: "enumerated" });
                    cases.push(Case { op: Op::Append, x, y: Some(y), origin: "enumerated" });
                }
            }
            run_cases(cases, rep, true, false);
            if *lo == 0 {
                rep.exhaustive_parts.push(format!("brick-level merge/widen and list-level merge/widen/append on all ordered pairs of the {} drive set ({} bricks)", if *reduced { "reduced" } else { "full" }, bricks.len()));
            }
        }
        Task::Sample { n } => {
            let tops = [MBs::Top];
            let mut cases = Vec::new();
            for i in 0..*n {
                let x = random_list(rng, 3);
                let y = match rng.below(8) {
                    0 | 1 => random_list(rng, 3),
                    2 => x.clone(),
                    _ => related(rng, &x),
                };
                let (x, y) = if rng.bool() { (x, y) } else { (y, x) };
                cases.extend(pair_cases(&x, &y, "sampled", true));
                if i % 16 == 0 {
                    // Top operands
                    let t = rng.pick(&tops).clone();
                    cases.push(Case { op: Op::Append, x: t.clone(), y: Some(y.clone()), origin: "top-operand" });
                    cases.push(Case { op: Op::Append, x: x.clone(), y: Some(t.clone()), origin: "top-operand" });
                    cases.push(Case { op: Op::Merge, x: t.clone(), y: Some(y.clone()), origin: "top-operand" });
                    cases.push(Case { op: Op::Merge, x: x.clone(), y: Some(t.clone()), origin: "top-operand" });
                    cases.push(Case { op: Op::Append, x: t.clone(), y: Some(t), origin: "top-operand" });
                }
            }
            let res = run_cases(cases, rep, true, false);
            // second generation: results fed back into the operations
            let pool: Vec<MBs> = res.iter().filter_map(|(_, r)| r.clone()).filter(has_value_brick).collect();
            if !pool.is_empty() {
                let mut cases = Vec::new();
                for _ in 0..(*n / 2) {
                    let x = rng.pick(&pool).clone();
                    let y = if rng.bool() { rng.pick(&pool).clone() } else { related(rng, &x) };
                    cases.extend(pair_cases(&x, &y, "fed-back-result", true));
                }
                run_cases(cases, rep, true, false);
            }
        }
        Task::Long { n } => {
            let mut cases = Vec::new();
            for i in 0..*n {
                let x = if i % 8 == 0 {
                    // beyond the length threshold (32) of widen: many optional one-letter bricks
                    let len = 30 + rng.below(6) as usize;
                    MBs::V((0..len).map(|_| MB::B { seq: vec![rng.pick(&["a", "b", ""]).to_string()], min: 0, max: 1 }).collect())
                } else {
                    random_list(rng, 8)
                };
                let y = if rng.chance(1, 4) { random_list(rng, 8) } else { related(rng, &x) };
                let (x, y) = if rng.bool() { (x, y) } else { (y, x) };
                cases.extend(pair_cases(&x, &y, "long-list", true));
            }
            run_cases(cases, rep, true, false);
        }
        Task::Api { rounds, per_round } => {
            let words = ["", "a", "b", "ab", "ba", "aa", "aba", "bb"];
            let mut pool: Vec<MBs> = vec![MBs::Top];
            for w in words {
                pool.push(model(&BricksDomain::from(w.to_string())));
            }
            for _ in 0..*rounds {
                let mut cases = Vec::new();
                for _ in 0..*per_round {
                    let x = rng.pick(&pool).clone();
                    // merge only answers something else than Top for lists that agree position-wise: build such partners
                    let y = if rng.chance(1, 3) {
                        rng.pick(&pool).clone()
                    } else {
                        match &x {
                            MBs::V(l) if l.len() > 1 => {
                                let keep: Vec<MB> = l.iter().filter(|_| rng.chance(2, 3)).cloned().collect();
                                if keep.is_empty() { rng.pick(&pool).clone() } else { MBs::V(keep) }
                            }
                            _ => rng.pick(&pool).clone(),
                        }
                    };
                    // sub-lists of API values are API values only if built by append: restrict to that case
                    let y_is_api = pool.contains(&y) || matches!(&y, MBs::V(l) if l.iter().all(|b| matches!(b, MB::B{min:1,max:1,seq} if seq.len()==1)));
                    if !y_is_api {
                        continue;
                    }
                    let (x, y) = if rng.bool() { (x, y) } else { (y, x) };
                    let op = if rng.chance(2, 5) { Op::Append } else { Op::Merge };
                    cases.push(Case { op, x: x.clone(), y: Some(y.clone()), origin: "public-api" });
                    if op == Op::Merge {
                        if let (MBs::V(_), MBs::V(_)) = (&x, &y) {
                            cases.push(Case { op: Op::Widen, x, y: Some(y), origin: "public-api" });
                        }
                    }
                }
                let res = run_cases(cases, rep, true, false);
                for (c, r) in res {
                    if let Some(r) = r {
                        if c.op != Op::Widen && size_of(&r) <= 60 && !pool.contains(&r) {
                            pool.push(r);
                        }
                    }
                }
            }
            // normalize is public as well: apply it to every value reached
            let cases = pool.iter().filter(|p| matches!(p, MBs::V(_))).map(|p| Case { op: Op::Normalize, x: p.clone(), y: None, origin: "public-api" }).collect();
            run_cases(cases, rep, true, false);
        }
        Task::Ci { letters, lo, hi } => ci_task(*letters, *lo, *hi, rep),
    }
}

// ---------------------------------------------------------------------------
// Character inclusion domain

/// Model: `certain` = bit mask over the letters a.. (None = not representable in the universe, i.e. no string
/// of the universe is described), `possible` = mask or None for Top.
#[derive(Clone, Copy, Debug, PartialEq, Eq)]
enum MCi {
    Top,
    V { certain: Option<u8>, possible: Option<u8> },
}

fn letter(i: usize) -> char {
    (b'a' + i as u8) as char
}

fn ci_real(v: &MCi) -> CharacterInclusionDomain {
    let set = |m: u8| CharacterSet::Value((0..8).filter(|i| m >> i & 1 == 1).map(letter).collect::<BTreeSet<char>>());
    match v {
        MCi::Top => CharacterInclusionDomain::Top,
        MCi::V { certain, possible } => CharacterInclusionDomain::Value((set(certain.unwrap_or(0)), possible.map(set).unwrap_or(CharacterSet::Top))),
    }
}

fn ci_model(v: &CharacterInclusionDomain) -> MCi {
    let mask = |s: &BTreeSet<char>| -> (u8, bool) {
        let mut m = 0u8;
        let mut foreign = false;
        for c in s {
            if ('a'..='h').contains(c) {
                m |= 1 << (*c as u8 - b'a');
            } else {
                foreign = true;
            }
        }
        (m, foreign)
    };
    match v {
        CharacterInclusionDomain::Top => MCi::Top,
        CharacterInclusionDomain::Value((c, p)) => {
            let certain = match c {
                CharacterSet::Top => None, // every character certain: no finite string
                CharacterSet::Value(s) => {
                    let (m, foreign) = mask(s);
                    if foreign { None } else { Some(m) }
                }
            };
            let possible = match p {
                CharacterSet::Top => None,
                CharacterSet::Value(s) => Some(mask(s).0),
            };
            MCi::V { certain, possible }
        }
    }
}

/// Does the value describe the strings whose character set is `chars`?
fn ci_contains(v: &MCi, chars: u8) -> bool {
    match v {
        MCi::Top => true,
        MCi::V { certain, possible } => match certain {
            None => false,
            Some(c) => c & !chars == 0 && possible.map(|p| chars & !p == 0).unwrap_or(true),
        },
    }
}

fn ci_show(v: &MCi) -> String {
    let set = |m: u8| format!("{{{}}}", (0..8).filter(|i| m >> i & 1 == 1).map(|i| letter(i).to_string()).collect::<Vec<_>>().join(""));
    match v {
        MCi::Top => "Top".into(),
        MCi::V { certain, possible } => format!("(certain {}, possible {})", certain.map(set).unwrap_or("<unsatisfiable>".into()), possible.map(set).unwrap_or("Top".into())),
    }
}

fn ci_values(letters: usize) -> Vec<MCi> {
    let mut v = vec![MCi::Top];
    for p in 0u8..(1 << letters) {
        for c in 0u8..(1 << letters) {
            if c & !p == 0 {
                v.push(MCi::V { certain: Some(c), possible: Some(p) });
            }
        }
    }
    for c in 0u8..(1 << letters) {
        v.push(MCi::V { certain: Some(c), possible: None });
    }
    v
}

/// The (character set, length) classes of all strings of length ≤ max_len over `alphabet` letters, with the
/// number of strings in each class (the strings are really enumerated).
fn string_classes(alphabet: usize, max_len: usize) -> Vec<(u8, usize, u64)> {
    let mut count = std::collections::BTreeMap::<(u8, usize), u64>::new();
    for len in 0..=max_len {
        let total = (alphabet as u64).pow(len as u32);
        for mut code in 0..total {
            let mut m = 0u8;
            for _ in 0..len {
                m |= 1 << (code % alphabet as u64);
                code /= alphabet as u64;
            }
            *count.entry((m, len)).or_insert(0) += 1;
        }
    }
    count.into_iter().map(|((m, l), n)| (m, l, n)).collect()
}

const CI_MAX_LEN: usize = 4;

fn ci_check(op: &str, x: &MCi, y: &MCi, classes: &[(u8, usize, u64)], rep: &mut Report) {
    rep.eval();
    let (rx, ry) = (ci_real(x), ci_real(y));
    let got = if op == "append" { guard(|| rx.append_string_domain(&ry)) } else { guard(|| rx.merge(&ry)) };
    let case = || json!({"kind": format!("ci-{op}"), "x": rx, "y": ry});
    let size = (ci_show(x).len() + ci_show(y).len()) as u64;
    let got = match got {
        Err(p) => {
            rep.violation(format!("ci:{op}:panic:{}", panic_site(&p)), None, format!("CharacterInclusionDomain {op}({} ; {}) panicked: {p}", ci_show(x), ci_show(y)), case(), size);
            return;
        }
        Ok(g) => g,
    };
    let r = ci_model(&got);
    let mut judged = 0u64;
    if op == "append" {
        'outer: for (ms, ls, ns) in classes.iter().filter(|c| ci_contains(x, c.0)) {
            for (mt, lt, nt) in classes.iter().filter(|c| ci_contains(y, c.0)) {
                if ls + lt > CI_MAX_LEN {
                    continue;
                }
                judged += ns * nt;
                if !ci_contains(&r, ms | mt) {
                    let (s, t) = (witness_string(*ms, *ls), witness_string(*mt, *lt));
                    rep.violation(format!("ci:{op}:concatenation-lost"), None, format!("append({} ; {}) = {} does not describe {:?} = {s:?} + {t:?}, a concatenation of members of the operands", ci_show(x), ci_show(y), ci_show(&r), format!("{s}{t}")), case(), size);
                    break 'outer;
                }
            }
        }
    } else {
        for (m, l, n) in classes {
            let (inx, iny) = (ci_contains(x, *m), ci_contains(y, *m));
            if inx || iny {
                judged += n;
                if !ci_contains(&r, *m) {
                    rep.violation(format!("ci:{op}:member-lost"), None, format!("merge({} ; {}) = {} does not describe {:?}, a member of the {} operand", ci_show(x), ci_show(y), ci_show(&r), witness_string(*m, *l), if inx { "first" } else { "second" }), case(), size);
                    break;
                }
            }
        }
    }
    rep.obs_n(&format!("ci:{op}:strings-judged"), judged);
    rep.obs(&format!("ci:{op}:{}", if r == MCi::Top { "top" } else { "value" }));
    if r != MCi::Top && !(*x == MCi::Top && *y == MCi::Top) && judged > 0 {
        rep.nontrivial(mix(hash_str(op), hash_str(&format!("{x:?}{y:?}"))));
    }
}

/// Some string of length `len` whose character set is exactly `chars` (len ≥ popcount).
fn witness_string(chars: u8, len: usize) -> String {
    let ls: Vec<char> = (0..8).filter(|i| chars >> i & 1 == 1).map(letter).collect();
    let mut s: String = ls.iter().collect();
    while s.chars().count() < len {
        s.push(*ls.last().unwrap_or(&'?'));
    }
    s
}

fn ci_task(letters: usize, lo: usize, hi: usize, rep: &mut Report) {
    let vals = ci_values(letters);
    let classes = string_classes(letters + 1, CI_MAX_LEN);
    for x in &vals[lo..hi.min(vals.len())] {
        for y in &vals {
            ci_check("append", x, y, &classes, rep);
            ci_check("merge", x, y, &classes, rep);
        }
    }
    if lo == 0 {
        rep.exhaustive_parts.push(format!(
            "CharacterInclusionDomain append/merge on all ordered pairs of the {} values with certain <= possible <= {{{}}} incl. possible=Top and Top, judged on all strings of length <= {CI_MAX_LEN} over {} letters",
            vals.len(),
            (0..letters).map(|i| letter(i).to_string()).collect::<Vec<_>>().join(","),
            letters + 1
        ));
    }
}

// ---------------------------------------------------------------------------
// run / replay

fn run(cfg: &Cfg) -> Report {
    let quick = cfg.tier == Tier::Quick;
    let mut tasks: Vec<Task> = Vec::new();
    // small enumerated cases first: a defect is then witnessed by a small value
    let reduced = false;
    let nb = all_bricks(reduced).len();
    let step = cfg.tier.pick(4, 3);
    let mut lo = 0;
    while lo < nb {
        tasks.push(Task::EnumLists { reduced, first: lo == 0, lo, hi: lo + step });
        lo += step;
    }
    let mut lo = 0;
    while lo < nb {
        tasks.push(Task::EnumBrickPairs { reduced, lo, hi: lo + step });
        lo += step;
    }
    let letters = cfg.tier.pick(3, 4);
    let nci = ci_values(letters).len();
    let mut lo = 0;
    while lo < nci {
        tasks.push(Task::Ci { letters, lo, hi: lo + 6 });
        lo += 6;
    }
    if !quick {
        for lo in 0..all_bricks(true).len() {
            tasks.push(Task::EnumLists3 { lo, hi: lo + 1 });
        }
    }
    for _ in 0..cfg.tier.pick(16, 48) {
        tasks.push(Task::Api { rounds: 4, per_round: cfg.tier.pick(300, 1500) });
    }
    for _ in 0..cfg.tier.pick(192, 768) {
        tasks.push(Task::Sample { n: cfg.tier.pick(1000, 5000) });
    }
    for _ in 0..cfg.tier.pick(32, 192) {
        tasks.push(Task::Long { n: cfg.tier.pick(300, 1500) });
    }
    let mut rep = showcase();
    // The first task (all 1-brick lists and the first rows of the 2-brick lists) runs alone: if normalisation
    // diverges on common shapes, the stuck-helper cap is reached here with 3 spinning threads instead of one per core.
    {
        let mut rng = Rng::derive(cfg.seed, "c06-first", 0);
        run_task(&tasks[0], &mut rng, &mut rep);
    }
    rep.merge(par_shards(cfg, "c06", tasks.len() - 1, |idx, rng, rep| run_task(&tasks[idx + 1], rng, rep)));
    confirm_hangs(&mut rep);
    rep.extra.insert("slowest_terminating_call_us_wall".into(), json!(MAX_CALL_US.load(Ordering::Relaxed)));
    if let Ok(g) = SLOWEST.lock() {
        rep.extra.insert("slowest_terminating_call".into(), json!(g.1.chars().take(300).collect::<String>()));
    }
    rep.extra.insert("stuck_helper_threads".into(), json!(STUCK_THREADS.load(Ordering::SeqCst)));
    rep.extra.insert("gamma_bound_N".into(), json!(N));
    rep
}

/// A few fixed cases executed like all others and written out completely as samples.
fn showcase() -> Report {
    let mut rep = Report::new();
    let b = |seq: &[&str], min: u32, max: u32| MB::B { seq: seq.iter().map(|s| s.to_string()).collect(), min, max };
    let a11 = b(&["a"], 1, 1);
    let cases = vec![
        // the example of the crate's own unit test
        Case { op: Op::Normalize, x: MBs::V(vec![a11.clone(), b(&["a", "b"], 2, 3), b(&["a", "b"], 0, 1)]), y: None, origin: "showcase" },
        // unbounded brick followed by a mandatory one (bounds must saturate)
        Case { op: Op::Normalize, x: MBs::V(vec![b(&["a"], 0, u32::MAX), a11.clone()]), y: None, origin: "showcase" },
        // "a"+"a" merged with "a" through the public API
        Case { op: Op::Merge, x: MBs::V(vec![a11.clone(), a11.clone()]), y: Some(MBs::V(vec![a11.clone()])), origin: "showcase" },
        Case { op: Op::Widen, x: MBs::V(vec![a11.clone(), b(&["b"], 0, 2), b(&["ab"], 1, 1)]), y: Some(MBs::V(vec![a11.clone(), b(&["ab"], 1, 1)])), origin: "showcase" },
        Case { op: Op::Append, x: MBs::Top, y: Some(MBs::V(vec![b(&["ab", "ba"], 1, 2)])), origin: "showcase" },
    ];
    run_cases(cases, &mut rep, true, true);
    let classes = string_classes(4, CI_MAX_LEN);
    let (x, y) = (MCi::V { certain: Some(0b011), possible: Some(0b011) }, MCi::V { certain: Some(0b010), possible: Some(0b110) });
    ci_check("merge", &x, &y, &classes, &mut rep);
    let r = guard(|| ci_real(&x).merge(&ci_real(&y))).ok().map(|r| ci_show(&ci_model(&r)));
    rep.sample(json!({"op": "ci-merge", "x": ci_show(&x), "y": ci_show(&y), "observed_result": r, "judged_on": "all strings of length <= 4 over {a,b,c,d}", "verdict": if rep.violations.is_empty() { "holds" } else { "violated" }}));
    rep
}

/// Re-run the kept witness of every non-termination signature with a much larger bound; a call that then
/// returns was slow, not divergent: the verdict is withdrawn (inconclusive).
fn confirm_hangs(rep: &mut Report) {
    let sigs: Vec<String> = rep.violations.keys().filter(|k| k.ends_with(":nontermination")).cloned().collect();
    for sig in sigs {
        let case = rep.violations[&sig].case.clone();
        if let Some(c) = parse_case(&case) {
            let outs = exec_batch(vec![job_of(&c)], 4 * HANG_CPU_MS, true);
            match outs.first() {
                Some(Out::Hang(h)) => {
                    if let Some(v) = rep.violations.get_mut(&sig) {
                        v.detail.push_str(&format!(" [confirmed by a second run: {h}]"));
                    }
                }
                _ => {
                    rep.violations.remove(&sig);
                    rep.inconclusive("bricks: a call exceeded the watchdog bound but returned when re-run with a larger bound");
                    rep.note(format!("{sig}: withdrawn, the witness returned within the larger bound"));
                }
            }
        }
    }
}

fn parse_case(case: &Value) -> Option<Case> {
    let op = Op::parse(case["kind"].as_str()?)?;
    let brick_level = matches!(op, Op::BrickMerge | Op::BrickWiden);
    let parse = |v: &Value| -> Option<MBs> {
        if brick_level {
            let b: BrickDomain = serde_json::from_value(v.clone()).ok()?;
            Some(MBs::V(vec![model_brick(&b)]))
        } else {
            let b: BricksDomain = serde_json::from_value(v.clone()).ok()?;
            Some(model(&b))
        }
    };
    let x = parse(&case["x"])?;
    let y = if case["y"].is_null() { None } else { Some(parse(&case["y"])?) };
    Some(Case { op, x, y, origin: "replay" })
}

fn replay(_cfg: &Cfg, case: &Value) -> Report {
    let mut rep = Report::new();
    let kind = case["kind"].as_str().unwrap_or("");
    if let Some(op) = kind.strip_prefix("ci-") {
        let x = serde_json::from_value::<CharacterInclusionDomain>(case["x"].clone());
        let y = serde_json::from_value::<CharacterInclusionDomain>(case["y"].clone());
        if let (Ok(x), Ok(y), true) = (x, y, op == "append" || op == "merge") {
            let classes = string_classes(6, CI_MAX_LEN);
            ci_check(op, &ci_model(&x), &ci_model(&y), &classes, &mut rep);
        } else {
            rep.note("unreadable CI replay case");
        }
        return rep;
    }
    match parse_case(case) {
        Some(c) if in_domain(&c) => {
            run_cases(vec![c], &mut rep, false, false);
            confirm_hangs(&mut rep);
        }
        Some(_) => rep.note("replay case is outside the input domain of the check"),
        None => rep.note("unknown replay case kind"),
    }
    rep
}
