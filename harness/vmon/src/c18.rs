//! C18 — constant-argument checkers (CWE560 umask, CWE467 sizeof-on-pointer) decide on the
//! argument's actual value.
//!
//! Monitor shape: random call blocks compute every parameter of the called extern symbol from
//! constants alone (assignments, copies, arithmetic, casts, stack round trips, push/pop). The
//! reference interpreter `irx` executes the block and reads the parameter at the call; the real
//! checkers run on the same program through the normal pipeline; warnings are compared per call site.

use crate::core::*;
use crate::irb::*;
use crate::irx::{Ev, Machine, Observer, State as XState};
use crate::pref::V;
use crate::prng::Rng;
use cwe_checker_lib::analysis::graph;
use cwe_checker_lib::intermediate_representation::*;
use cwe_checker_lib::pipeline::AnalysisResults;
use cwe_checker_lib::utils::log::CweWarning;
use serde_json::{json, Value};
use std::collections::{BTreeMap, BTreeSet};
use std::sync::OnceLock;

pub fn info() -> CheckInfo {
    CheckInfo {
        id: "C18",
        rule: "random single-function programs (optional preamble blocks, 1-3 call blocks, return block) for an x86-64 System-V project (register parameters as full or 4-byte sub-registers, one symbol with an additional stack parameter) and an x86-32 cdecl project (stack parameters, pushed or stored into the outgoing-argument area); every parameter of every call is computed in the call's block from constants alone: constant assignments, copies, + - & | ^ << >> s>> *, zero/sign extension and truncation, 4/8-byte stores to and loads from stack slots at constant offsets (one size per slot), push/pop, RSP copies as address base, interleaved with unrelated register noise; values steered to 0o177, 0o777 and the pointer size and their neighbours. Called symbols: umask, configured CWE467 symbols (malloc, memcpy, strncmp, strncpy, wmemcpy), one unconfigured symbol. Pipeline: normalize_basic (+ normalize_optimize in half the cases), CFG, function signatures, pointer inference, then CWE560::CWE_MODULE.run and CWE467::CWE_MODULE.run with the shipped config. Oracle per call site (warning tids/addresses = the call's tid/address): CWE560 warns <=> value >u 0o177 and value != 0o777, reported umask_arg = value; CWE467 warns <=> some declared parameter value == pointer size; no warning for any other site, no duplicates. non-trivial = call site of a checked symbol whose parameter computation has at least one operation or memory round trip beyond a constant assignment; distinct = hash of (call block, symbol, architecture)",
        assumptions: &[
            "irx/pref are a correct reading of the IR / P-Code semantics; the parameter value is read by irx at the call (Observer::before_jmp) and by executing the call block alone from two unrelated initial states (values must agree, else the case is inconclusive)",
            "main workload (7/8): no intermediate constant operation (+ - * << negation) leaves the signed range of its width - the interval domain documents going to Top on signed overflow, the value is then not exactly known to the analysis; the remaining 1/8 of the programs allows such overflow: a missing warning there whose call block contains a signed-overflowing constant operation (checked by an independent concrete walk) is tagged with the proposed known-finding key c18-signed-overflow-in-constant-arithmetic",
            "umask has exactly one declared parameter (the check logs and skips otherwise); parameters are at most 8 bytes wide",
            "the call block computes the parameters from constants only: no value defined outside the block, no store through a non-stack address, no overlapping stores of different sizes, stack addresses are RSP/ESP (or a copy made in the block) plus a constant",
            "verdicts on the release profile",
        ],
        run,
        replay,
    }
}

// ---------------------------------------------------------------------------------------------
// Architectures

#[derive(Clone, Copy, PartialEq, Eq, Debug)]
pub enum Arch {
    X64,
    X86,
}

impl Arch {
    fn ptr(&self) -> u32 {
        match self {
            Arch::X64 => 8,
            Arch::X86 => 4,
        }
    }
    fn sp(&self) -> &'static str {
        match self {
            Arch::X64 => "RSP",
            Arch::X86 => "ESP",
        }
    }
    fn name(&self) -> &'static str {
        match self {
            Arch::X64 => "x64",
            Arch::X86 => "x86",
        }
    }
    fn scratch(&self) -> &'static [&'static str] {
        match self {
            Arch::X64 => &["RAX", "RBX", "R10", "R11", "R9"],
            Arch::X86 => &["EAX", "EBX", "ECX", "EDX"],
        }
    }
    fn noise(&self) -> &'static [&'static str] {
        match self {
            Arch::X64 => &["R12", "R13", "R14"],
            Arch::X86 => &["ESI", "EDI"],
        }
    }
}

fn project_x86_32(prog: Program) -> Project {
    let w = 4u64;
    let gpr = ["EAX", "EBX", "ECX", "EDX", "ESI", "EDI", "EBP", "ESP"];
    let mut register_set: BTreeSet<Variable> = gpr.iter().map(|n| var(n, w)).collect();
    for f in FLAGS {
        register_set.insert(var(f, 1));
    }
    let cconv = CallingConvention {
        name: "__cdecl".to_string(),
        integer_parameter_register: Vec::new(),
        float_parameter_register: Vec::new(),
        integer_return_register: vec![var("EAX", w)],
        float_return_register: Vec::new(),
        callee_saved_register: ["EBX", "ESI", "EDI", "EBP", "ESP"].iter().map(|n| var(n, w)).collect(),
    };
    use crate::conv::bs;
    Project {
        program: Term { tid: Tid::new("program"), term: prog },
        cpu_architecture: "x86_32".to_string(),
        stack_pointer_register: var("ESP", w),
        calling_conventions: BTreeMap::from([("__cdecl".to_string(), cconv)]),
        register_set,
        datatype_properties: DatatypeProperties {
            char_size: bs(1),
            double_size: bs(8),
            float_size: bs(4),
            integer_size: bs(4),
            long_double_size: bs(12),
            long_long_size: bs(8),
            long_size: bs(4),
            pointer_size: bs(4),
            short_size: bs(2),
        },
        runtime_memory_image: RuntimeMemoryImage::empty(true),
    }
}

/// Declared parameter of a symbol (architecture independent description).
#[derive(Clone, Debug)]
enum ParamSpec {
    /// x64 register, full width or 4-byte sub-register
    Reg(&'static str, bool),
    /// stack parameter at `sp + offset` at the time of the call, of `size` bytes
    Stack(i64, u32),
}

struct SymSpec {
    name: &'static str,
    params: Vec<ParamSpec>,
}

fn symbols(arch: Arch, rng: &mut Rng) -> Vec<SymSpec> {
    match arch {
        Arch::X64 => {
            let umask_sub = rng.bool();
            vec![
                SymSpec { name: "umask", params: vec![ParamSpec::Reg("RDI", umask_sub)] },
                SymSpec { name: "malloc", params: vec![ParamSpec::Reg("RDI", false)] },
                SymSpec { name: "memcpy", params: vec![ParamSpec::Reg("RDI", false), ParamSpec::Reg("RSI", false), ParamSpec::Reg("RDX", false)] },
                SymSpec { name: "strncmp", params: vec![ParamSpec::Reg("RDI", false), ParamSpec::Reg("RSI", false), ParamSpec::Reg("RDX", rng.bool())] },
                SymSpec { name: "wmemcpy", params: vec![ParamSpec::Reg("RDI", false), ParamSpec::Reg("RSI", true), ParamSpec::Stack(8, 8)] },
                SymSpec { name: "consume", params: vec![ParamSpec::Reg("RDI", false), ParamSpec::Reg("RSI", false)] },
            ]
        }
        Arch::X86 => vec![
            SymSpec { name: "umask", params: vec![ParamSpec::Stack(4, 4)] },
            SymSpec { name: "malloc", params: vec![ParamSpec::Stack(4, 4)] },
            SymSpec { name: "memcpy", params: vec![ParamSpec::Stack(4, 4), ParamSpec::Stack(8, 4), ParamSpec::Stack(12, 4)] },
            SymSpec { name: "strncpy", params: vec![ParamSpec::Stack(4, 4), ParamSpec::Stack(8, 4), ParamSpec::Stack(12, 4)] },
            SymSpec { name: "consume", params: vec![ParamSpec::Stack(4, 4), ParamSpec::Stack(8, 4)] },
        ],
    }
}

fn extern_of(arch: Arch, spec: &SymSpec) -> ExternSymbol {
    let w = arch.ptr();
    let parameters = spec
        .params
        .iter()
        .map(|p| match p {
            ParamSpec::Reg(r, sub4) => Arg::Register { expr: if *sub4 { e_subpiece(0, 4, e_reg(r)) } else { e_reg(r) }, data_type: None },
            ParamSpec::Stack(off, size) => Arg::Stack {
                address: e_bin(BinOpType::IntAdd, Expression::Var(var(arch.sp(), w as u64)), e_const(*off, w)),
                size: crate::conv::bs(*size),
                data_type: None,
            },
        })
        .collect();
    let (cc, ret) = match arch {
        Arch::X64 => ("__stdcall", var("RAX", 8)),
        Arch::X86 => ("__cdecl", var("EAX", 4)),
    };
    ExternSymbol {
        tid: tid(&format!("sym_{}", spec.name), &format!("ext_{}", spec.name)),
        addresses: vec!["UNKNOWN".to_string()],
        name: spec.name.to_string(),
        calling_convention: Some(cc.to_string()),
        parameters,
        return_values: vec![Arg::Register { expr: Expression::Var(ret), data_type: None }],
        no_return: false,
        has_var_args: false,
    }
}

// ---------------------------------------------------------------------------------------------
// Generator

const TARGETS: &[u64] = &[
    0o177, 0o176, 0o200, 0o777, 0o776, 0o1000, 0o022, 0o077, 0o666, 0o755, 0o1777, 0, 1, 8, 7, 9, 4, 3, 5, 16, 0x100, 0x80, 0xff, 0x1ff, 0x1fe, 0x200,
];

struct Gen<'a> {
    rng: &'a mut Rng,
    arch: Arch,
    n: u32,
    /// generator-side execution of the block built so far (to steer values)
    m: Machine,
    st: XState,
    /// stack pointer relative to its value at block start
    sp: i64,
    /// scratch registers holding constants computed in this block
    known: Vec<&'static str>,
    /// (offset relative to block-start sp, size) of slots written with constants in this block
    written: Vec<(i64, u32)>,
    slot_pool: Vec<(i64, u32)>,
    /// copy of the stack pointer made in this block: (register, sp value at the time of the copy)
    sp_copy: Option<(&'static str, i64)>,
    /// number of operations beyond plain constant assignment used for the parameters of this block
    ops: u32,
    /// allow constant arithmetic that overflows the signed range (separate workload)
    allow_overflow: bool,
}

impl<'a> Gen<'a> {
    fn w(&self) -> u32 {
        self.arch.ptr()
    }
    fn t(&mut self, p: &str) -> Tid {
        self.n += 1;
        tid(&format!("{p}{}", self.n), &format!("{:04x}", 0x2000 + self.n * 4))
    }
    fn r(&self, name: &str) -> Variable {
        var(name, self.w() as u64)
    }
    fn er(&self, name: &str) -> Expression {
        Expression::Var(self.r(name))
    }
    fn k(&self, v: i64) -> Expression {
        e_const(v, self.w())
    }
    fn emit(&mut self, defs: &mut Vec<Term<Def>>, mut d: Term<Def>) {
        let mut trace = Vec::new();
        if !self.allow_overflow && format!("{}", d.tid).starts_with('c') && def_overflows(&self.m, &self.st, &d) {
            // domain guard of the main workload: replace the overflowing operation by its (constant) result
            if let Def::Assign { var, value } = &d.term {
                if let Ok(v) = self.m.eval(&self.st, value) {
                    d = assign(d.tid.clone(), var.clone(), Expression::Const(crate::conv::to_bv(v)));
                }
            }
        }
        let _ = self.m.exec_def(&mut self.st, &d, &mut trace);
        defs.push(d);
    }
    fn cur(&self, name: &str) -> u64 {
        self.m.read_var(&self.st, &self.r(name)).map(|v| v.v as u64).unwrap_or(0)
    }
    fn mask(&self) -> u64 {
        if self.w() == 8 {
            u64::MAX
        } else {
            0xffff_ffff
        }
    }

    fn slot_addr(&mut self, off: i64) -> Expression {
        if let Some((r, at)) = self.sp_copy {
            if self.rng.bool() {
                let k = off - at;
                return if k == 0 { self.er(r) } else { e_bin(BinOpType::IntAdd, self.er(r), self.k(k)) };
            }
        }
        let k = off - self.sp;
        let sp = self.arch.sp();
        if k == 0 {
            self.er(sp)
        } else if k < 0 && self.rng.bool() {
            e_bin(BinOpType::IntSub, self.er(sp), self.k(-k))
        } else {
            e_bin(BinOpType::IntAdd, self.er(sp), self.k(k))
        }
    }

    fn small_const(&mut self) -> i64 {
        match self.rng.below(8) {
            0..=2 => *self.rng.pick(TARGETS) as i64,
            3 => self.rng.range_i64(0, 16),
            4 => -self.rng.range_i64(1, 600),
            5 => self.rng.range_i64(0, 0x400),
            6 => *self.rng.pick(&[0xffff_ffffi64, 0x1_0000_0000, 0x7fff_ffff, -1, 0xfff, 0x1f8]),
            _ => (self.rng.biased(4) as i64) & 0x7fff_ffff,
        }
    }

    fn noise(&mut self, defs: &mut Vec<Term<Def>>) {
        let pool = self.arch.noise();
        let a = *self.rng.pick(pool);
        let b = *self.rng.pick(pool);
        let d = match self.rng.below(4) {
            0 => {
                let c = self.rng.range_i64(-8, 8);
                assign(self.t("n"), self.r(a), e_bin(BinOpType::IntAdd, self.er(b), self.k(c)))
            }
            1 => assign(self.t("n"), var(*self.rng.pick(FLAGS), 1), e_bin(BinOpType::IntEqual, self.er(a), self.k(0))),
            2 => assign(self.t("n"), self.r(a), e_bin(BinOpType::IntXOr, self.er(a), self.er(b))),
            _ => {
                // read of a slot of the noise area (never written)
                let off = 0x100 + 8 * self.rng.range_i64(0, 3);
                let address = self.slot_addr(off);
                load(self.t("n"), self.r(a), address)
            }
        };
        self.emit(defs, d);
    }

    /// One random operation on the working register `w` (a scratch register holding a constant).
    fn step(&mut self, defs: &mut Vec<Term<Def>>, w: &'static str) {
        use BinOpType::*;
        let wbytes = self.w();
        self.ops += 1;
        match self.rng.below(18) {
            0..=3 => {
                let op = *self.rng.pick(&[IntAdd, IntSub, IntAnd, IntOr, IntXOr, IntAdd, IntSub]);
                let c = self.small_const();
                let d = assign(self.t("c"), self.r(w), e_bin(op, self.er(w), self.k(c)));
                self.emit(defs, d);
            }
            4 | 5 if self.known.len() > 1 => {
                let other = *self.rng.pick(&self.known);
                let op = *self.rng.pick(&[IntAdd, IntSub, IntAnd, IntOr, IntXOr]);
                let d = assign(self.t("c"), self.r(w), e_bin(op, self.er(w), self.er(other)));
                self.emit(defs, d);
            }
            6 => {
                let op = *self.rng.pick(&[IntLeft, IntRight, IntRight, IntSRight]);
                let amount = *self.rng.pick(&[1i64, 1, 2, 3, 4, 8]);
                let d = assign(self.t("c"), self.r(w), e_bin(op, self.er(w), e_const(amount, 1)));
                self.emit(defs, d);
            }
            7 => {
                let c = *self.rng.pick(&[2i64, 3, 4, 8]);
                let d = assign(self.t("c"), self.r(w), e_bin(IntMult, self.er(w), self.k(c)));
                self.emit(defs, d);
            }
            8 if wbytes == 8 => {
                let cast = *self.rng.pick(&[CastOpType::IntZExt, CastOpType::IntSExt]);
                let d = assign(self.t("c"), self.r(w), e_cast(cast, 8, e_subpiece(0, 4, self.er(w))));
                self.emit(defs, d);
            }
            8 => {
                let cast = *self.rng.pick(&[CastOpType::IntZExt, CastOpType::IntSExt]);
                let d = assign(self.t("c"), self.r(w), e_cast(cast, 4, e_subpiece(0, 2, self.er(w))));
                self.emit(defs, d);
            }
            9..=11 => {
                // round trip through a stack slot
                let slot = *self.rng.pick(&self.slot_pool);
                let (off, size) = slot;
                let value = if size == wbytes { self.er(w) } else { e_subpiece(0, size, self.er(w)) };
                let a = self.slot_addr(off);
                let d = store(self.t("c"), a, value);
                self.emit(defs, d);
                if !self.written.contains(&slot) {
                    self.written.push(slot);
                }
                if self.rng.chance(1, 3) {
                    self.noise(defs);
                }
                self.load_back(defs, w, slot);
            }
            12 if !self.written.is_empty() => {
                let slot = *self.rng.pick(&self.written);
                self.load_back(defs, w, slot);
            }
            15 | 16 if self.slot_pool.len() >= 2 => {
                // neighbour pattern: write slot A, then write a neighbouring (never overlapping) slot B, then read A back
                let i = self.rng.usize_below(self.slot_pool.len() - 1);
                let (first, second) = if self.rng.bool() { (self.slot_pool[i], self.slot_pool[i + 1]) } else { (self.slot_pool[i + 1], self.slot_pool[i]) };
                for (k, slot) in [first, second].into_iter().enumerate() {
                    let (off, size) = slot;
                    let value = if k == 0 {
                        if size == wbytes { self.er(w) } else { e_subpiece(0, size, self.er(w)) }
                    } else {
                        let c = self.rng.range_i64(0, 0x7fff);
                        Expression::Const(crate::conv::bv_i(c, size))
                    };
                    let a = self.slot_addr(off);
                    let d = store(self.t("c"), a, value);
                    self.emit(defs, d);
                    if !self.written.contains(&slot) {
                        self.written.push(slot);
                    }
                }
                self.load_back(defs, w, first);
            }
            13 | 14 => {
                // push w ... pop w'
                let sp = self.arch.sp();
                let wb = wbytes as i64;
                let d = assign(self.t("c"), self.r(sp), e_bin(IntSub, self.er(sp), self.k(wb)));
                self.emit(defs, d);
                self.sp -= wb;
                let d = store(self.t("c"), self.er(sp), self.er(w));
                self.emit(defs, d);
                if self.rng.chance(1, 3) {
                    self.noise(defs);
                }
                let d = load(self.t("c"), self.r(w), self.er(sp));
                self.emit(defs, d);
                let d = if self.rng.chance(1, 4) {
                    assign(self.t("c"), self.r(sp), e_bin(IntSub, self.er(sp), self.k(-wb)))
                } else {
                    assign(self.t("c"), self.r(sp), e_bin(IntAdd, self.er(sp), self.k(wb)))
                };
                self.emit(defs, d);
                self.sp += wb;
            }
            _ => {
                // copy through another scratch register
                let pool = self.arch.scratch();
                let other = *self.rng.pick(pool);
                if other != w {
                    let d = assign(self.t("c"), self.r(other), self.er(w));
                    self.emit(defs, d);
                    if !self.known.contains(&other) {
                        self.known.push(other);
                    }
                    let d = assign(self.t("c"), self.r(w), self.er(other));
                    self.emit(defs, d);
                }
            }
        }
    }

    fn load_back(&mut self, defs: &mut Vec<Term<Def>>, w: &'static str, slot: (i64, u32)) {
        let (off, size) = slot;
        let a = self.slot_addr(off);
        if size == self.w() {
            let d = load(self.t("c"), self.r(w), a);
            self.emit(defs, d);
        } else {
            let tv = tmp(&format!("$U{}", self.n), size as u64);
            let d = load(self.t("c"), tv.clone(), a);
            self.emit(defs, d);
            let cast = *self.rng.pick(&[CastOpType::IntZExt, CastOpType::IntSExt]);
            let d = assign(self.t("c"), self.r(w), e_cast(cast, self.w(), e_var(&tv)));
            self.emit(defs, d);
        }
    }

    /// Make the low `bytes` bytes of `w` equal to `target` with one more constant operation.
    fn steer(&mut self, defs: &mut Vec<Term<Def>>, w: &'static str, target: u64, bytes: u32) {
        use BinOpType::*;
        let full = self.mask();
        let low = if bytes >= 8 { u64::MAX } else { (1u64 << (8 * bytes)) - 1 };
        let v = self.cur(w);
        // garbage in the bytes above the parameter (sub-register parameters)
        let high = if bytes < self.w() && self.rng.bool() { (self.rng.next_u64() & full) & !low } else { 0 };
        let goal = (target & low) | high;
        if v == goal && self.rng.bool() {
            return;
        }
        self.ops += 1;
        let d = match self.rng.below(6) {
            0 | 1 => assign(self.t("c"), self.r(w), e_bin(IntAdd, self.er(w), self.k(goal.wrapping_sub(v) as i64))),
            2 => assign(self.t("c"), self.r(w), e_bin(IntSub, self.er(w), self.k(v.wrapping_sub(goal) as i64))),
            3 => assign(self.t("c"), self.r(w), e_bin(IntXOr, self.er(w), self.k((v ^ goal) as i64))),
            4 if v & goal == goal => assign(self.t("c"), self.r(w), e_bin(IntAnd, self.er(w), self.k(goal as i64))),
            4 if v | goal == goal => assign(self.t("c"), self.r(w), e_bin(IntOr, self.er(w), self.k(goal as i64))),
            _ => {
                let sh = self.rng.range_i64(1, 6);
                if goal.leading_zeros() as i64 > sh + 1 + (64 - 8 * self.w() as i64) {
                    let garbage = self.rng.below(1 << sh);
                    let d0 = assign(self.t("c"), self.r(w), self.k(((goal << sh) | garbage) as i64));
                    self.emit(defs, d0);
                    assign(self.t("c"), self.r(w), e_bin(IntRight, self.er(w), e_const(sh, 1)))
                } else {
                    self.ops -= 1;
                    assign(self.t("c"), self.r(w), self.k(goal as i64))
                }
            }
        };
        self.emit(defs, d);
    }

    /// Compute one parameter value into a scratch register and return that register.
    fn chain(&mut self, defs: &mut Vec<Term<Def>>, target: u64, bytes: u32, exclude: &[&'static str]) -> &'static str {
        let pool: Vec<&'static str> = self.arch.scratch().iter().copied().filter(|r| !exclude.contains(r)).collect();
        let w = *self.rng.pick(&pool);
        let c0 = if self.rng.chance(1, 3) { target as i64 } else { self.small_const() };
        let d = assign(self.t("c"), self.r(w), self.k(c0));
        self.emit(defs, d);
        if !self.known.contains(&w) {
            self.known.push(w);
        }
        let nsteps = self.rng.below(5);
        for _ in 0..nsteps {
            if self.rng.chance(1, 4) {
                self.noise(defs);
            }
            self.step(defs, w);
        }
        self.steer(defs, w, target, bytes);
        w
    }

    fn pick_target(&mut self, want_ptr: Option<bool>) -> u64 {
        let ptr = self.w() as u64;
        match want_ptr {
            Some(true) => ptr,
            Some(false) => loop {
                let t = *self.rng.pick(TARGETS);
                if t != ptr {
                    return t;
                }
            },
            None => match self.rng.below(10) {
                0..=6 => *self.rng.pick(TARGETS),
                7 => self.rng.below(0o2000),
                8 => *self.rng.pick(&[0xffff_ffffu64, 0x8000_0000, 0xffff_fe00, 0xffff_ff80, 0x1_0000_0008, 0x1_0000_01ff]) & self.mask(),
                _ => self.rng.biased(self.w()) as u64,
            },
        }
    }

    /// Build the defs of a call block for `spec`. Returns (defs, number of chain operations).
    fn call_block(&mut self, spec: &SymSpec) -> (Vec<Term<Def>>, u32) {
        let mut defs = Vec::new();
        let wb = self.w() as i64;
        self.m = Machine::new(self.rng.next_u64());
        self.st = XState::default();
        self.sp = 0;
        self.known.clear();
        self.written.clear();
        self.sp_copy = None;
        self.ops = 0;
        let sp = self.arch.sp();
        // local frame
        let nstack = spec.params.iter().filter(|p| matches!(p, ParamSpec::Stack(..))).count() as i64;
        let push_style = self.arch == Arch::X86 && self.rng.bool();
        let frame = *self.rng.pick(&[0i64, 0, 16, 32, 64]) + if push_style { 0 } else { ((nstack * wb + 15) / 16) * 16 };
        if frame > 0 {
            let d = assign(self.t("c"), self.r(sp), e_bin(BinOpType::IntSub, self.er(sp), self.k(frame)));
            self.emit(&mut defs, d);
            self.sp -= frame;
        }
        // slots for round trips: above the outgoing argument area, one size per slot
        let base = self.sp + 32;
        if self.rng.bool() {
            self.slot_pool = (0..4).map(|i| (base + 8 * i, if self.arch == Arch::X86 || self.rng.chance(1, 3) { 4 } else { 8 })).collect();
        } else {
            // packed layout: slots of different sizes directly next to each other (adjacent, never overlapping)
            let mut off = base;
            let mut pool = Vec::new();
            for _ in 0..4 {
                let size: u32 = if self.arch == Arch::X86 || self.rng.bool() { 4 } else { 8 };
                pool.push((off, size));
                off += size as i64;
            }
            self.slot_pool = pool;
        }
        if self.rng.chance(1, 3) {
            let r: &'static str = if self.arch == Arch::X64 { "RBP" } else { "EBP" };
            let d = assign(self.t("c"), self.r(r), self.er(sp));
            self.emit(&mut defs, d);
            self.sp_copy = Some((r, self.sp));
        }
        // which parameter (if any) gets the pointer size
        let is_umask = spec.name == "umask";
        let ptr_param = if !is_umask && self.rng.chance(2, 5) { Some(self.rng.usize_below(spec.params.len())) } else { None };
        let mut order: Vec<usize> = (0..spec.params.len()).collect();
        if push_style {
            order.reverse();
        } else {
            self.rng.shuffle(&mut order);
        }
        let mut used_param_regs: Vec<&'static str> = Vec::new();
        let arg_base = self.sp; // address of the first stack argument before the return address is pushed (mov style)
        for idx in order {
            let p = spec.params[idx].clone();
            let bytes = match &p {
                ParamSpec::Reg(_, sub4) => {
                    if *sub4 {
                        4
                    } else {
                        8
                    }
                }
                ParamSpec::Stack(_, size) => *size,
            };
            let target = if is_umask {
                self.pick_target(None)
            } else if ptr_param == Some(idx) {
                self.pick_target(Some(true))
            } else if ptr_param.is_some() || self.rng.chance(2, 3) {
                self.pick_target(Some(false))
            } else {
                // free choice (may hit the pointer size by itself)
                self.pick_target(None)
            };
            let w = self.chain(&mut defs, target, bytes, &used_param_regs);
            if self.rng.chance(1, 4) {
                self.noise(&mut defs);
            }
            match p {
                ParamSpec::Reg(r, _) => {
                    let d = assign(self.t("c"), self.r(r), self.er(w));
                    self.emit(&mut defs, d);
                    used_param_regs.push(r);
                }
                ParamSpec::Stack(off, size) => {
                    let value = if size == self.w() { self.er(w) } else { e_subpiece(0, size, self.er(w)) };
                    if push_style {
                        let d = assign(self.t("c"), self.r(sp), e_bin(BinOpType::IntSub, self.er(sp), self.k(wb)));
                        self.emit(&mut defs, d);
                        self.sp -= wb;
                        let d = store(self.t("c"), self.er(sp), value);
                        self.emit(&mut defs, d);
                    } else {
                        // the parameter lives at [sp_at_call + off] where sp_at_call = arg_base - wb
                        let a = self.slot_addr(arg_base - wb + off);
                        let d = store(self.t("c"), a, value);
                        self.emit(&mut defs, d);
                    }
                }
            }
        }
        // return address
        let d = assign(self.t("c"), self.r(sp), e_bin(BinOpType::IntSub, self.er(sp), self.k(wb)));
        self.emit(&mut defs, d);
        self.sp -= wb;
        let ret = 0x40_1000 + 16 * self.n as i64;
        let d = store(self.t("c"), self.er(sp), self.k(ret));
        self.emit(&mut defs, d);
        let ops = self.ops;
        (defs, ops)
    }
}

#[derive(Clone, Debug)]
pub struct Site {
    pub blk: Tid,
    pub jmp: Tid,
    pub symbol: String,
    pub ops: u32,
}

pub struct Prog {
    pub project: Project,
    pub arch: Arch,
    pub sites: Vec<Site>,
    pub optimized: bool,
}

pub fn gen_program(rng: &mut Rng, arch: Arch, optimize: bool, allow_overflow: bool) -> Prog {
    let specs = symbols(arch, rng);
    let externs: Vec<ExternSymbol> = specs.iter().map(|s| extern_of(arch, s)).collect();
    let ncalls = rng.range_usize(1, 3);
    let npre = rng.below(3) as usize;
    let mut g = Gen {
        rng,
        arch,
        n: 0,
        m: Machine::new(0),
        st: XState::default(),
        sp: 0,
        known: vec![],
        written: vec![],
        slot_pool: vec![],
        sp_copy: None,
        ops: 0,
        allow_overflow,
    };
    let total = npre + ncalls + 1;
    let blk_tids: Vec<Tid> = (0..total).map(|i| tid(&format!("blk{i}"), &format!("b{i:02}0"))).collect();
    let mut blocks = Vec::new();
    let mut sites = Vec::new();
    for i in 0..npre {
        let mut defs = Vec::new();
        for _ in 0..g.rng.below(4) {
            g.noise(&mut defs);
        }
        if g.rng.bool() {
            // constants set up outside the call block (must not matter)
            let r = *g.rng.pick(arch.scratch());
            let c = g.small_const();
            defs.push(assign(g.t("p"), g.r(r), g.k(c)));
        }
        let mut jmps = Vec::new();
        if g.rng.bool() {
            let cond = e_bin(BinOpType::IntEqual, g.er(arch.noise()[0]), g.k(0));
            let target = blk_tids[g.rng.range_usize(i + 1, total - 1)].clone();
            jmps.push(jmp(g.t("j"), Jmp::CBranch { target, condition: cond }));
        }
        jmps.push(jmp(g.t("j"), Jmp::Branch(blk_tids[i + 1].clone())));
        blocks.push(blk(blk_tids[i].clone(), defs, jmps));
    }
    for c in 0..ncalls {
        let i = npre + c;
        // umask and configured symbols dominate; the unconfigured symbol appears now and then
        let spec = match g.rng.below(10) {
            0..=3 => &specs[0],
            9 => specs.last().unwrap(),
            _ => &specs[1 + g.rng.usize_below(specs.len() - 2)],
        };
        let (defs, ops) = g.call_block(spec);
        let jt = g.t("call");
        let target = tid(&format!("sym_{}", spec.name), &format!("ext_{}", spec.name));
        sites.push(Site { blk: blk_tids[i].clone(), jmp: jt.clone(), symbol: spec.name.to_string(), ops });
        blocks.push(blk(blk_tids[i].clone(), defs, vec![jmp(jt, Jmp::Call { target, return_: Some(blk_tids[i + 1].clone()) })]));
    }
    {
        let w = arch.ptr();
        let rv = tmp("$Uret", w as u64);
        let sp = arch.sp();
        let defs = vec![
            load(g.t("r"), rv.clone(), g.er(sp)),
            assign(g.t("r"), g.r(sp), e_bin(BinOpType::IntAdd, g.er(sp), g.k(w as i64))),
        ];
        blocks.push(blk(blk_tids[total - 1].clone(), defs, vec![jmp(g.t("j"), Jmp::Return(e_var(&rv)))]));
    }
    let f = sub(tid("sub_main", "m000"), "main", blocks);
    let entry = f.tid.clone();
    let prog = program(vec![f], externs, Some(entry));
    let mut project = match arch {
        Arch::X64 => project_x64(prog),
        Arch::X86 => project_x86_32(prog),
    };
    let _ = project.normalize_basic();
    if optimize {
        let _ = project.normalize_optimize();
    }
    Prog { project, arch, sites, optimized: optimize }
}

// ---------------------------------------------------------------------------------------------
// Reference values

fn param_value(m: &Machine, st: &XState, arg: &Arg) -> Result<u64, String> {
    let v = match arg {
        Arg::Register { expr, .. } => m.eval(st, expr).map_err(|_| "parameter expression undefined".to_string())?,
        Arg::Stack { address, size, .. } => {
            let a = m.eval(st, address).map_err(|_| "parameter address undefined".to_string())?;
            let size = u64::from(*size) as u32;
            V::new(m.load_mem(st, a.v as u64, size), size)
        }
    };
    if v.w > 8 {
        return Err("parameter wider than 8 bytes".into());
    }
    Ok(v.v as u64)
}

fn machine_for(project: &Project, seed: u64) -> Machine {
    let mut m = Machine::new(seed);
    let cconv = project.get_standard_calling_convention().unwrap();
    m.havoc_regs = project.register_set.iter().filter(|r| !cconv.callee_saved_register.contains(r)).cloned().collect();
    m.max_blocks = 40;
    m
}

fn random_state(rng: &mut Rng, project: &Project) -> XState {
    let mut st = XState::default();
    for r in project.register_set.iter() {
        let w = u64::from(r.size) as u32;
        let v = if w == 1 {
            rng.below(2) as u128
        } else if *r == project.stack_pointer_register {
            (0x7000_0000u64 + (rng.below(0x1000) << 8)) as u128
        } else {
            rng.biased(w)
        };
        st.vars.insert(r.clone(), V::new(v, w));
    }
    st
}

struct CallObs<'a> {
    m: &'a Machine,
    externs: &'a BTreeMap<Tid, ExternSymbol>,
    seen: BTreeMap<Tid, Result<Vec<u64>, String>>,
}

impl<'a> Observer for CallObs<'a> {
    fn before_jmp(&mut self, _blk: &Term<Blk>, j: &Term<Jmp>, st: &XState) {
        if let Jmp::Call { target, .. } = &j.term {
            if let Some(sym) = self.externs.get(target) {
                let vals: Result<Vec<u64>, String> = sym.parameters.iter().map(|a| param_value(self.m, st, a)).collect();
                self.seen.insert(j.tid.clone(), vals);
            }
        }
    }
}

/// Parameter values at every call site: block executed alone from two unrelated states, plus whole-function runs.
fn reference_values(project: &Project, seed: u64) -> BTreeMap<Tid, Result<Vec<u64>, String>> {
    let mut out: BTreeMap<Tid, Result<Vec<u64>, String>> = BTreeMap::new();
    let externs = &project.program.term.extern_symbols;
    for sub in project.program.term.subs.values() {
        for b in &sub.term.blocks {
            for j in &b.term.jmps {
                let Jmp::Call { target, .. } = &j.term else { continue };
                let Some(sym) = externs.get(target) else { continue };
                let mut results: Vec<Result<Vec<u64>, String>> = Vec::new();
                for k in 0..2u64 {
                    let mut rng = Rng::derive(seed, "c18-blockstate", k);
                    let m = machine_for(project, rng.next_u64());
                    let mut st = random_state(&mut rng, project);
                    let mut trace = Vec::new();
                    match m.run_block_defs(b, &mut st, &mut trace) {
                        Ok(()) => results.push(sym.parameters.iter().map(|a| param_value(&m, &st, a)).collect()),
                        Err(e) => results.push(Err(format!("block stopped early: {e:?}"))),
                    }
                }
                let r = match (&results[0], &results[1]) {
                    (Ok(a), Ok(b2)) if a == b2 => Ok(a.clone()),
                    (Ok(a), Ok(b2)) => Err(format!("parameter depends on the initial state ({a:?} vs {b2:?})")),
                    (Err(e), _) | (_, Err(e)) => Err(e.clone()),
                };
                out.insert(j.tid.clone(), r);
            }
        }
        // whole-function runs (the call block preceded by other blocks): values observed at the call must agree
        if sub.tid.is_artificial_sink_sub() {
            continue;
        }
        for k in 0..3u64 {
            let mut rng = Rng::derive(seed, "c18-runstate", k);
            let m = machine_for(project, rng.next_u64());
            let mut st = random_state(&mut rng, project);
            let mut obs = CallObs { m: &m, externs, seen: BTreeMap::new() };
            let trace = m.run_sub(sub, &mut st, &mut obs);
            let undefined = matches!(trace.last(), Some(Ev::Undefined { .. }));
            for (t, v) in obs.seen {
                if let (Some(Ok(a)), Ok(b2)) = (out.get(&t), &v) {
                    if a != b2 {
                        out.insert(t, Err(format!("value at the call in a whole-function run ({b2:?}) differs from the block-alone value ({a:?})")));
                    }
                }
            }
            if undefined {
                break;
            }
        }
    }
    out
}


/// Key of the proposed known finding: constant arithmetic that overflows the signed range makes the
/// interval domain give up (Top) although the wrapped result is a constant.
pub const KNOWN_OVERFLOW: &str = "c18-signed-overflow-in-constant-arithmetic";

/// Does the evaluation of `e` in `st` contain an addition, subtraction, multiplication, left shift or
/// negation whose mathematically exact result leaves the signed range of its width?
fn expr_overflows(m: &Machine, st: &XState, e: &Expression) -> bool {
    match e {
        Expression::BinOp { op, lhs, rhs } => {
            if expr_overflows(m, st, lhs) || expr_overflows(m, st, rhs) {
                return true;
            }
            let (Ok(a), Ok(b)) = (m.eval(st, lhs), m.eval(st, rhs)) else { return false };
            let (min, max) = (V::new(1u128 << (a.bits() - 1), a.w).s(), -(V::new(1u128 << (a.bits() - 1), a.w).s() + 1));
            let exact = match op {
                BinOpType::IntAdd => a.s().checked_add(b.s()),
                BinOpType::IntSub => a.s().checked_sub(b.s()),
                BinOpType::IntMult if a.w <= 8 => a.s().checked_mul(b.s()),
                BinOpType::IntLeft if a.w <= 8 && b.v < a.bits() as u128 => a.s().checked_mul(V::new(1u128 << b.v, a.w).s()),
                _ => return false,
            };
            !matches!(exact, Some(x) if x >= min && x <= max)
        }
        Expression::UnOp { op, arg } => {
            if expr_overflows(m, st, arg) {
                return true;
            }
            match (op, m.eval(st, arg)) {
                (UnOpType::Int2Comp, Ok(a)) => a.v == 1u128 << (a.bits() - 1),
                _ => false,
            }
        }
        Expression::Cast { arg, .. } | Expression::Subpiece { arg, .. } => expr_overflows(m, st, arg),
        _ => false,
    }
}

fn def_overflows(m: &Machine, st: &XState, d: &Term<Def>) -> bool {
    match &d.term {
        Def::Assign { value, .. } => expr_overflows(m, st, value),
        Def::Load { address, .. } => expr_overflows(m, st, address),
        Def::Store { address, value } => expr_overflows(m, st, address) || expr_overflows(m, st, value),
    }
}

/// Executes the block alone and reports whether any of its defs contains signed-overflowing arithmetic.
fn block_overflows(project: &Project, b: &Term<Blk>, seed: u64) -> bool {
    let mut rng = Rng::derive(seed, "c18-overflow", 0);
    let m = machine_for(project, rng.next_u64());
    let mut st = random_state(&mut rng, project);
    let mut trace = Vec::new();
    for d in &b.term.defs {
        // only arithmetic on values that do not depend on the initial state matters; noise registers are excluded
        // by looking at constant-only sub-expressions: an expression reading a register that was never written in
        // this block is skipped
        if def_overflows(&m, &st, d) && def_is_constant_only(b, d) {
            return true;
        }
        if m.exec_def(&mut st, d, &mut trace).is_err() {
            return false;
        }
    }
    false
}

/// All registers read by `d` were written earlier in the same block (the value is a block-local constant).
fn def_is_constant_only(b: &Term<Blk>, d: &Term<Def>) -> bool {
    let mut written: BTreeSet<Variable> = BTreeSet::new();
    for x in &b.term.defs {
        if x.tid == d.tid {
            break;
        }
        match &x.term {
            Def::Assign { var, .. } | Def::Load { var, .. } => {
                written.insert(var.clone());
            }
            Def::Store { .. } => (),
        }
    }
    let inputs: Vec<&Variable> = match &d.term {
        Def::Assign { value, .. } => value.input_vars(),
        Def::Load { address, .. } => address.input_vars(),
        Def::Store { address, value } => {
            let mut v = address.input_vars();
            v.extend(value.input_vars());
            v
        }
    };
    const NOISE: &[&str] = &["R12", "R13", "R14", "ESI", "EDI"];
    inputs.iter().all(|v| !NOISE.contains(&v.name.as_str()) && (written.contains(*v) || v.name.ends_with("SP")))
}

// ---------------------------------------------------------------------------------------------
// Running the checkers

fn config() -> &'static Value {
    static CFG: OnceLock<Value> = OnceLock::new();
    CFG.get_or_init(|| {
        let path = std::env::var("CWE_CHECKER_CONFIG").unwrap_or_else(|_| "/repo/src/config.json".to_string());
        std::fs::read_to_string(&path).ok().and_then(|t| serde_json::from_str::<Value>(&t).ok()).unwrap_or(Value::Null)
    })
}

pub struct Verdicts {
    pub cwe560: Vec<CweWarning>,
    pub cwe467: Vec<CweWarning>,
}

pub fn run_checkers(project: &Project) -> Verdicts {
    let cfg = config();
    let (cfg_graph, _logs) = graph::get_program_cfg_with_logs(&project.program);
    let binary: Vec<u8> = Vec::new();
    let ar = AnalysisResults::new(&binary, &cfg_graph, project);
    let (sigs, _) = ar.compute_function_signatures();
    let ar = ar.with_function_signatures(Some(&sigs));
    let pi = ar.compute_pointer_inference(&cfg["Memory"], false);
    let ar = ar.with_pointer_inference(Some(&pi));
    let (_l1, cwe560) = (cwe_checker_lib::checkers::cwe_560::CWE_MODULE.run)(&ar, &cfg["CWE560"]);
    let (_l2, cwe467) = (cwe_checker_lib::checkers::cwe_467::CWE_MODULE.run)(&ar, &cfg["CWE467"]);
    Verdicts { cwe560, cwe467 }
}

fn block_text(project: &Project, blk_tid: &Tid) -> String {
    for s in project.program.term.subs.values() {
        for b in &s.term.blocks {
            if b.tid == *blk_tid {
                let mut out = String::new();
                for d in &b.term.defs {
                    out += &format!("    [{}] {}\n", d.tid, d.term);
                }
                for j in &b.term.jmps {
                    out += &format!("    [{}] {}\n", j.tid, j.term);
                }
                return out;
            }
        }
    }
    String::new()
}

pub fn check_program(project: &Project, arch_name: &str, seed: u64, site_ops: &BTreeMap<String, u32>, rep: &mut Report) {
    let case = || json!({"project": project_to_json(project), "arch": arch_name, "seed": seed, "site_ops": site_ops});
    let cfg = config();
    if !cfg["CWE467"]["symbols"].is_array() {
        rep.inconclusive("config.json-not-readable");
        return;
    }
    let configured: BTreeSet<String> = cfg["CWE467"]["symbols"].as_array().unwrap().iter().filter_map(|s| s.as_str().map(|x| x.to_string())).collect();
    let ptr = u64::from(project.stack_pointer_register.size);
    let size: u64 = project.program.term.subs.values().map(|s| s.term.blocks.iter().map(|b| 2 + b.term.defs.len() as u64).sum::<u64>()).sum();
    let verdicts = match guard(|| run_checkers(project)) {
        Ok(v) => v,
        Err(p) => {
            rep.eval();
            rep.violation(format!("pipeline:panic:{}", panic_site(&p)), None, format!("pipeline or checker panicked: {p}\n{}", show_program(&project.program.term)), case(), size);
            return;
        }
    };
    let values = reference_values(project, seed);
    // index warnings by call tid
    let mut w560: BTreeMap<String, Vec<&CweWarning>> = BTreeMap::new();
    for w in &verdicts.cwe560 {
        w560.entry(w.tids.first().cloned().unwrap_or_default()).or_default().push(w);
    }
    let mut w467: BTreeMap<String, Vec<&CweWarning>> = BTreeMap::new();
    for w in &verdicts.cwe467 {
        w467.entry(w.tids.first().cloned().unwrap_or_default()).or_default().push(w);
    }
    let mut site_tids: BTreeSet<String> = BTreeSet::new();
    let externs = &project.program.term.extern_symbols;
    for sub in project.program.term.subs.values() {
        for b in &sub.term.blocks {
            for j in &b.term.jmps {
                let Jmp::Call { target, .. } = &j.term else { continue };
                let Some(sym) = externs.get(target) else { continue };
                let key = format!("{}", j.tid);
                site_tids.insert(key.clone());
                let got560 = w560.get(&key).map(|v| v.len()).unwrap_or(0);
                let got467 = w467.get(&key).map(|v| v.len()).unwrap_or(0);
                let vals = match values.get(&j.tid) {
                    Some(Ok(v)) => v.clone(),
                    Some(Err(e)) => {
                        rep.inconclusive(&format!("reference-value-unavailable:{}", e.split('(').next().unwrap_or("").trim()));
                        continue;
                    }
                    None => continue,
                };
                let ops = site_ops.get(&key).copied().unwrap_or(0);
                let overflowing = block_overflows(project, b, seed);
                if overflowing {
                    rep.obs("call-block:signed-overflow-in-constant-arithmetic");
                }
                let describe = |what: &str| -> String {
                    format!(
                        "{what}\n  call site {} ({}) to {} in a {arch_name} project (pointer size {ptr}), parameter values computed by the block: {:?}\n  call block:\n{}",
                        j.tid,
                        j.tid.address,
                        sym.name,
                        vals.iter().map(|v| format!("{v:#o}")).collect::<Vec<_>>(),
                        block_text(project, &b.tid)
                    )
                };
                // ---- CWE560
                rep.eval();
                if sym.name == "umask" {
                    let v = vals[0];
                    let expect = v > 0o177 && v != 0o777;
                    rep.obs(&format!("umask:{}", if expect { "chmod-style" } else { "ok-value" }));
                    if v == 0o177 || v == 0o200 || v == 0o777 || v == 0o776 || v == 0o1000 {
                        rep.obs(&format!("umask:boundary:{v:#o}"));
                    }
                    match (expect, got560) {
                        (true, 0) => rep.violation(format!("cwe560:{arch_name}:missing-warning{}", if overflowing { ":signed-overflow-in-constant-arithmetic" } else { "" }), if overflowing { Some(KNOWN_OVERFLOW) } else { None }, describe(&format!("CWE560 does not warn although the umask argument is {v:#o} (> 0o177 and != 0o777)")), case(), size),
                        (false, n) if n > 0 => rep.violation(format!("cwe560:{arch_name}:spurious-warning"), None, describe(&format!("CWE560 warns ({}) although the umask argument is {v:#o}", w560[&key][0].description)), case(), size),
                        (true, n) if n > 1 => rep.violation(format!("cwe560:{arch_name}:duplicate-warning"), None, describe(&format!("CWE560 warns {n} times for one call site")), case(), size),
                        (true, _) => {
                            let w = w560[&key][0];
                            let reported = w.other.iter().find(|kv| kv.first().map(|s| s.as_str()) == Some("umask_arg")).and_then(|kv| kv.get(1)).cloned();
                            if reported.as_deref() != Some(&format!("{v:#o}")) {
                                rep.violation(format!("cwe560:{arch_name}:reported-value"), None, describe(&format!("CWE560 reports umask_arg {reported:?} but the argument is {v:#o}")), case(), size);
                            }
                            if w.addresses.first() != Some(&j.tid.address) {
                                rep.violation(format!("cwe560:{arch_name}:address"), None, describe(&format!("CWE560 warning carries addresses {:?}, the call is at {}", w.addresses, j.tid.address)), case(), size);
                            }
                        }
                        _ => (),
                    }
                    if ops > 0 {
                        rep.nontrivial(crate::prng::mix(fp_of(&b.term), crate::prng::hash_str(&format!("umask{arch_name}"))));
                    }
                } else if got560 > 0 {
                    rep.violation(format!("cwe560:{arch_name}:warning-at-other-symbol"), None, describe("CWE560 warns at a call that is not a umask call"), case(), size);
                }
                // ---- CWE467
                rep.eval();
                if configured.contains(&sym.name) {
                    let expect = vals.iter().any(|v| *v == ptr);
                    rep.obs(&format!("cwe467:{}:{}", sym.name, if expect { "pointer-sized-arg" } else { "no-pointer-sized-arg" }));
                    match (expect, got467) {
                        (true, 0) => rep.violation(format!("cwe467:{arch_name}:missing-warning{}", if overflowing { ":signed-overflow-in-constant-arithmetic" } else { "" }), if overflowing { Some(KNOWN_OVERFLOW) } else { None }, describe(&format!("CWE467 does not warn although a parameter equals the pointer size {ptr}")), case(), size),
                        (false, n) if n > 0 => rep.violation(format!("cwe467:{arch_name}:spurious-warning"), None, describe(&format!("CWE467 warns although no parameter equals the pointer size {ptr}")), case(), size),
                        (true, n) if n > 1 => rep.violation(format!("cwe467:{arch_name}:duplicate-warning"), None, describe(&format!("CWE467 warns {n} times for one call site")), case(), size),
                        (true, _) => {
                            let w = w467[&key][0];
                            if w.addresses.first() != Some(&j.tid.address) {
                                rep.violation(format!("cwe467:{arch_name}:address"), None, describe(&format!("CWE467 warning carries addresses {:?}, the call is at {}", w.addresses, j.tid.address)), case(), size);
                            }
                        }
                        _ => (),
                    }
                    if ops > 0 {
                        rep.nontrivial(crate::prng::mix(fp_of(&b.term), crate::prng::hash_str(&format!("{}{arch_name}", sym.name))));
                    }
                } else if got467 > 0 {
                    rep.violation(format!("cwe467:{arch_name}:warning-at-other-symbol"), None, describe("CWE467 warns at a call to a symbol that is not configured"), case(), size);
                } else if vals.iter().any(|v| *v == ptr) {
                    rep.obs("cwe467:unconfigured-symbol-with-pointer-sized-arg(no warning expected)");
                }
            }
        }
    }
    // warnings that do not belong to any call site
    for (k, _) in w560.iter().filter(|(k, _)| !site_tids.contains(*k)) {
        rep.violation(format!("cwe560:{arch_name}:warning-without-call-site"), None, format!("CWE560 warning with tids [{k}] does not name a call site of the program"), case(), size);
    }
    for (k, _) in w467.iter().filter(|(k, _)| !site_tids.contains(*k)) {
        rep.violation(format!("cwe467:{arch_name}:warning-without-call-site"), None, format!("CWE467 warning with tids [{k}] does not name a call site of the program"), case(), size);
    }
}

fn run(cfg: &Cfg) -> Report {
    let shards = cfg.tier.pick(256usize, 1024usize);
    let per_shard = cfg.tier.pick(48usize, 300usize);
    par_shards(cfg, "c18", shards, |idx, rng, rep| {
        for i in 0..per_shard {
            let arch = if (idx + i) % 3 == 0 { Arch::X86 } else { Arch::X64 };
            let optimize = (idx / 2 + i) % 2 == 0;
            let overflow = idx % 8 == 7;
            let prog = match guard(|| gen_program(rng, arch, optimize, overflow)) {
                Ok(p) => p,
                Err(msg) => {
                    rep.inconclusive(&format!("generator-or-normalisation-panic:{}", panic_site(&msg)));
                    continue;
                }
            };
            let seed = rng.next_u64();
            rep.obs(&format!("arch:{}", arch.name()));
            rep.obs(if optimize { "pipeline:basic+optimize" } else { "pipeline:basic" });
            rep.obs(if overflow { "workload:overflowing-constant-arithmetic-allowed" } else { "workload:main" });
            let site_ops: BTreeMap<String, u32> = prog.sites.iter().map(|s| (format!("{}", s.jmp), s.ops)).collect();
            for s in &prog.sites {
                rep.obs(&format!("call:{}", s.symbol));
                rep.obs(&format!("chain-ops:{}", s.ops.min(12)));
            }
            check_program(&prog.project, arch.name(), seed, &site_ops, rep);
            if idx < 3 && i == 0 {
                rep.sample(json!({"arch": arch.name(), "optimized": optimize, "program": show_program(&prog.project.program.term)}));
            }
        }
    })
}

fn replay(_cfg: &Cfg, case: &Value) -> Report {
    let mut rep = Report::new();
    match project_from_json(&case["project"]) {
        Ok(project) => {
            let arch = case["arch"].as_str().unwrap_or("x64").to_string();
            let seed = case["seed"].as_u64().unwrap_or(1);
            let site_ops: BTreeMap<String, u32> = case["site_ops"].as_object().map(|o| o.iter().map(|(k, v)| (k.clone(), v.as_u64().unwrap_or(0) as u32)).collect()).unwrap_or_default();
            check_program(&project, &arch, seed, &site_ops, &mut rep);
        }
        Err(e) => rep.note(format!("cannot parse replay case: {e}")),
    }
    rep
}
