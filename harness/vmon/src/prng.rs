//! Small deterministic PRNG (xoshiro256**) + helpers. No external crates.

#[derive(Clone, Debug)]
pub struct Rng {
    s: [u64; 4],
}

fn splitmix(x: &mut u64) -> u64 {
    *x = x.wrapping_add(0x9E3779B97F4A7C15);
    let mut z = *x;
    z = (z ^ (z >> 30)).wrapping_mul(0xBF58476D1CE4E5B9);
    z = (z ^ (z >> 27)).wrapping_mul(0x94D049BB133111EB);
    z ^ (z >> 31)
}

/// Stateless 64-bit mixer (used for deterministic "initial memory" and havoc values).
pub fn mix(a: u64, b: u64) -> u64 {
    let mut x = a ^ b.rotate_left(32) ^ 0xD6E8FEB86659FD93;
    splitmix(&mut x) ^ splitmix(&mut x).rotate_left(17)
}

/// FNV-style hash of a byte string to a u64 (stable across runs, unlike `DefaultHasher` with RandomState).
pub fn hash_bytes(bytes: &[u8]) -> u64 {
    let mut h: u64 = 0xcbf29ce484222325;
    for b in bytes {
        h ^= *b as u64;
        h = h.wrapping_mul(0x100000001b3);
    }
    let mut x = h;
    splitmix(&mut x)
}

pub fn hash_str(s: &str) -> u64 {
    hash_bytes(s.as_bytes())
}

impl Rng {
    pub fn new(seed: u64) -> Rng {
        let mut x = seed;
        let s = [
            splitmix(&mut x),
            splitmix(&mut x),
            splitmix(&mut x),
            splitmix(&mut x),
        ];
        Rng { s }
    }

    /// Derive an independent stream from (seed, label, index).
    pub fn derive(seed: u64, label: &str, index: u64) -> Rng {
        Rng::new(mix(mix(seed, hash_str(label)), index))
    }

    pub fn next_u64(&mut self) -> u64 {
        let result = self.s[1].wrapping_mul(5).rotate_left(7).wrapping_mul(9);
        let t = self.s[1] << 17;
        self.s[2] ^= self.s[0];
        self.s[3] ^= self.s[1];
        self.s[1] ^= self.s[2];
        self.s[0] ^= self.s[3];
        self.s[2] ^= t;
        self.s[3] = self.s[3].rotate_left(45);
        result
    }

    pub fn next_u128(&mut self) -> u128 {
        ((self.next_u64() as u128) << 64) | self.next_u64() as u128
    }

    /// Uniform in 0..n (n > 0).
    pub fn below(&mut self, n: u64) -> u64 {
        debug_assert!(n > 0);
        // multiply-shift; bias negligible for our n
        ((self.next_u64() as u128 * n as u128) >> 64) as u64
    }

    pub fn usize_below(&mut self, n: usize) -> usize {
        self.below(n as u64) as usize
    }

    /// Uniform in lo..=hi
    pub fn range_i64(&mut self, lo: i64, hi: i64) -> i64 {
        debug_assert!(lo <= hi);
        let span = (hi as i128 - lo as i128 + 1) as u128;
        let r = (self.next_u128() % span) as i128;
        (lo as i128 + r) as i64
    }

    pub fn range_usize(&mut self, lo: usize, hi: usize) -> usize {
        lo + self.usize_below(hi - lo + 1)
    }

    pub fn bool(&mut self) -> bool {
        self.next_u64() & 1 == 1
    }

    /// true with probability num/den
    pub fn chance(&mut self, num: u64, den: u64) -> bool {
        self.below(den) < num
    }

    pub fn pick<'a, T>(&mut self, items: &'a [T]) -> &'a T {
        &items[self.usize_below(items.len())]
    }

    pub fn shuffle<T>(&mut self, items: &mut [T]) {
        for i in (1..items.len()).rev() {
            let j = self.usize_below(i + 1);
            items.swap(i, j);
        }
    }

    /// Boundary-biased value of `bytes` width (1..=16), returned zero-extended in a u128.
    pub fn biased(&mut self, bytes: u32) -> u128 {
        let bits = bytes * 8;
        let mask: u128 = if bits == 128 { u128::MAX } else { (1u128 << bits) - 1 };
        let smin: u128 = 1u128 << (bits - 1);
        let v: u128 = match self.below(16) {
            0 => 0,
            1 => 1,
            2 => mask,               // -1 / umax
            3 => smin,               // signed min
            4 => smin - 1,           // signed max
            5 => smin + 1,
            6 => smin.wrapping_sub(2),
            7 => mask - 1,
            8 => {
                // 2^k, 2^k +- 1
                let k = self.below(bits as u64) as u32;
                let p = 1u128 << k;
                match self.below(3) {
                    0 => p,
                    1 => p.wrapping_add(1),
                    _ => p.wrapping_sub(1),
                }
            }
            9 => self.below(16) as u128,                       // small
            10 => 0u128.wrapping_sub(self.below(16) as u128), // small negative
            11 => {
                // value around the width in bits (shift amounts)
                (bits as u128).wrapping_add(self.below(5) as u128).wrapping_sub(2)
            }
            _ => self.next_u128(),
        };
        v & mask
    }
}
