//! C07 — the worklist fixpoint solver computes the least solution for any node priority order.
//!
//! Monitor shape: the real `fixpoint::Computation` is executed on problems whose `Context` is
//! implemented here (so every transfer function is known to the oracle), next to a naive
//! chaotic-iteration reference that knows nothing about worklists or priorities.
//!
//! Workload A (generic solver): random digraphs with at most 12 nodes, node values = subsets of a
//! 6-element set, edge functions `x -> (x & keep) | gen`, blocked (`None`) while `x & guard == 0`.
//! Workload B (interprocedural wrappers): small hand-built `Program` terms, the CFG of
//! `graph::get_program_cfg` (reversed for the backward wrapper), a forward resp. backward
//! interprocedural `Context` whose transfer functions are hash-derived from the terms they receive,
//! solved under the default, bottom-up, top-down and random priority orders and compared with
//! chaotic iteration on the generalized graph.
//!
//! Finding on the unchanged tree (reported by the `*-wrapper:default-with-combinator-nodes:panic`
//! signatures): `create_computation*(ctx, Some(default))` of both wrappers puts `NodeValue::Value(default)`
//! on every node, also on CallReturn (forward) / CallSource (backward) nodes whose values must be
//! `CallFlowCombinator`s, so `compute()` panics on every CFG that contains an internal call.

use crate::core::*;

pub const KNOWN_WRAPPER_DEFAULT: &str = "c07-wrapper-default-combinator";
use crate::prng::{hash_str, mix, Rng};
use cwe_checker_lib::analysis::fixpoint::{Computation, Context};
use cwe_checker_lib::analysis::backward_interprocedural_fixpoint as bwd;
use cwe_checker_lib::analysis::forward_interprocedural_fixpoint as fwd;
use cwe_checker_lib::analysis::graph::{get_program_cfg, Edge, Graph, Node};
use cwe_checker_lib::analysis::interprocedural_fixpoint_generic::NodeValue;
use cwe_checker_lib::intermediate_representation::*;
use petgraph::graph::{DiGraph, EdgeIndex, NodeIndex};
use petgraph::visit::EdgeRef;
use serde_json::{json, Value};
use std::cell::Cell;
use std::collections::{BTreeMap, BTreeSet};

pub fn info() -> CheckInfo {
    CheckInfo {
        id: "C07",
        rule: "A: random fixpoint problems (<=12 nodes, self loops, parallel edges, unreachable parts, 6-bit set lattice, monotone edge functions with blocking guards, start values on a random node subset, with/without default value) solved by fixpoint::Computation under ALL node priority permutations (<=6 nodes) or 200 random permutations + identity + reverse + Computation::new's own order (7..12 nodes); compute() and fresh compute_with_max_steps(k) for k=1.. until stabilisation, each unstabilised bounded state resumed to the end (compute() or repeated bounded calls); every run compared with a chaotic-iteration least-solution reference (absent = bottom), per-edge update_edge counters for the step bound, closedness of every state reported as stabilised, worklist-empty <=> has_stabilized, edges leaving nodes outside get_worklist() closed. B: generated small IR programs -> get_program_cfg -> forward_interprocedural_fixpoint and (on the reversed graph) backward_interprocedural_fixpoint wrappers with a hash-derived monotone Context, solved through create_computation / ..._bottom_up_... / ..._top_down_... (the two worklists checked to be permutations of all nodes) and through from_node_priority_list with these and random orders (with edge counters and bounded runs), all compared with the reference on the generalized graph. non-trivial = the least solution gives values to >=1 cycle of the graph and >=1 edge is blocked in the least solution; distinct = hash of (graph or program, transfer functions, start values, default)",
        assumptions: &[
            "the chaotic-iteration reference in this module computes the least solution (apply every edge until nothing changes)",
            "default-value semantics as documented in fixpoint.rs: with a default every node starts with the default and is marked unstabilised; set_node_value replaces (not joins) the value of a node",
            "a priority list handed to from_node_priority_list is a permutation of all node indices (the constructor indexes by position)",
            "beyond the literal statement the monitor also requires what makes a bounded run usable: intermediate values lie between start values and least solution, edges leaving nodes that are not in get_worklist() are closed, and resuming reaches the least solution",
            "a node is re-queued only when its value changed, so on the 6-bit lattice no node needs more than 8 visits (15 for call combinators): a fresh bounded run that is still unstabilised at k=10 (A) / k=20 (B) is reported, as is any solver call that evaluates one edge more than 64 times (non-termination)",
            "workload B takes the CFG produced by get_program_cfg as given (its correctness is C08); blocks end in at most two jumps, calls and returns are the only jump of their block, all jump targets exist",
            "workload B start values are put on plain nodes only (not on CallReturn resp. CallSource combinator nodes); with a default value on a graph that has combinator nodes the reference is undefined and only 'no panic' is required",
            "verdicts on the release profile",
        ],
        run,
        replay,
    }
}

const FULL: u8 = 0x3f;
/// More `update_edge` calls on one edge than this in one solver call = non-termination.
const EDGE_BUDGET: u32 = 64;
const BUDGET_TAG: &str = "C07-budget";

// ---------------------------------------------------------------------------
// Lattice and transfer functions shared by both workloads

/// Monotone edge function on subsets of {0..5}: `None` while `x & guard == 0`, else `(x & keep) | gen`.
#[derive(Clone, Copy, Debug, PartialEq, Eq)]
struct Tf {
    keep: u8,
    gen: u8,
    guard: Option<u8>,
}

impl Tf {
    fn apply(&self, x: u8) -> Option<u8> {
        if let Some(g) = self.guard {
            if x & g == 0 {
                return None;
            }
        }
        Some((x & self.keep) | self.gen)
    }

    fn random(rng: &mut Rng) -> Tf {
        let keep = match rng.below(6) {
            0 | 1 => FULL,
            2 => FULL & !(1u8 << rng.below(6)),
            3 => 0,
            _ => rng.next_u64() as u8 & FULL,
        };
        let gen = match rng.below(5) {
            0..=2 => 0,
            3 => 1u8 << rng.below(6),
            _ => (rng.next_u64() & rng.next_u64()) as u8 & FULL,
        };
        let guard = match rng.below(8) {
            0..=3 => None,
            4 => Some(0), // never lets anything through
            5 => Some(FULL),
            6 => Some(1u8 << rng.below(6)),
            _ => Some((1u8 << rng.below(6)) | (1u8 << rng.below(6))),
        };
        Tf { keep, gen, guard }
    }

    fn to_json(self) -> Value {
        json!([self.keep, self.gen, self.guard])
    }

    fn from_json(v: &Value) -> Option<Tf> {
        Some(Tf {
            keep: v.get(0)?.as_u64()? as u8 & FULL,
            gen: v.get(1)?.as_u64()? as u8 & FULL,
            guard: match v.get(2)? {
                Value::Null => None,
                g => Some(g.as_u64()? as u8 & FULL),
            },
        })
    }
}

fn sparse(rng: &mut Rng) -> u8 {
    match rng.below(5) {
        0 => 0,
        1 | 2 => 1u8 << rng.below(6),
        3 => (1u8 << rng.below(6)) | (1u8 << rng.below(6)),
        _ => rng.next_u64() as u8 & FULL,
    }
}

/// True (and the event is counted) if a case of at most this size is already stored for the signature,
/// so that the expensive rendering of one more witness can be skipped.
fn already_smaller(rep: &mut Report, sig: &str, size: u64) -> bool {
    if matches!(rep.violations.get(sig), Some(old) if old.size <= size) {
        rep.violation_count += 1;
        true
    } else {
        false
    }
}

/// `panic_site` with the numbers of the message blanked (index values etc. must not split signatures).
fn site(msg: &str) -> String {
    let p = panic_site(msg);
    match p.rsplit_once('@') {
        Some((m, loc)) => format!("{}@{loc}", m.chars().map(|c| if c.is_ascii_digit() { '#' } else { c }).collect::<String>()),
        None => p,
    }
}

fn le(a: Option<u8>, b: Option<u8>) -> bool {
    match (a, b) {
        (None, _) => true,
        (Some(_), None) => false,
        (Some(x), Some(y)) => x & !y == 0,
    }
}

fn show(vals: &[Option<u8>]) -> String {
    let parts: Vec<String> = vals
        .iter()
        .map(|v| match v {
            None => "-".to_string(),
            Some(x) => format!("{x:#04x}"),
        })
        .collect();
    format!("[{}]", parts.join(" "))
}

// ---------------------------------------------------------------------------
// Counting wrapper around any fixpoint::Context

/// Delegates to `inner`, counts the `update_edge` calls per edge and aborts (by panicking with
/// `BUDGET_TAG`) a solver call that evaluates one edge more than `EDGE_BUDGET` times.
struct Counting<T: Context> {
    inner: T,
    calls: Vec<Cell<u32>>,
}

impl<T: Context> Counting<T> {
    fn new(inner: T) -> Self {
        let edges = inner.get_graph().edge_count();
        Counting { inner, calls: (0..edges).map(|_| Cell::new(0)).collect() }
    }
    fn reset(&self) {
        for c in &self.calls {
            c.set(0);
        }
    }
    fn counts(&self) -> Vec<u32> {
        self.calls.iter().map(|c| c.get()).collect()
    }
}

impl<T: Context> Context for Counting<T> {
    type EdgeLabel = T::EdgeLabel;
    type NodeLabel = T::NodeLabel;
    type NodeValue = T::NodeValue;

    fn get_graph(&self) -> &DiGraph<T::NodeLabel, T::EdgeLabel> {
        self.inner.get_graph()
    }
    fn merge(&self, a: &T::NodeValue, b: &T::NodeValue) -> T::NodeValue {
        self.inner.merge(a, b)
    }
    fn update_edge(&self, value: &T::NodeValue, edge: EdgeIndex) -> Option<T::NodeValue> {
        let c = &self.calls[edge.index()];
        c.set(c.get() + 1);
        if c.get() > EDGE_BUDGET {
            panic!("{BUDGET_TAG}: edge {} evaluated more than {EDGE_BUDGET} times in one solver call", edge.index());
        }
        self.inner.update_edge(value, edge)
    }
}

// ---------------------------------------------------------------------------
// Workload A: generic problems

#[derive(Clone, Debug)]
struct Problem {
    n: usize,
    edges: Vec<(usize, usize, Tf)>,
    /// distinct nodes
    starts: Vec<(usize, u8)>,
    default: Option<u8>,
}

impl Problem {
    fn to_json(&self) -> Value {
        json!({
            "n": self.n,
            "edges": self.edges.iter().map(|(u, v, tf)| json!([u, v, tf.to_json()])).collect::<Vec<_>>(),
            "starts": self.starts.iter().map(|(n, v)| json!([n, v])).collect::<Vec<_>>(),
            "default": self.default,
        })
    }

    fn from_json(v: &Value) -> Option<Problem> {
        let n = v.get("n")?.as_u64()? as usize;
        if n == 0 || n > 64 {
            return None;
        }
        let mut edges = Vec::new();
        for e in v.get("edges")?.as_array()? {
            let (a, b) = (e.get(0)?.as_u64()? as usize, e.get(1)?.as_u64()? as usize);
            if a >= n || b >= n {
                return None;
            }
            edges.push((a, b, Tf::from_json(e.get(2)?)?));
        }
        let mut starts: Vec<(usize, u8)> = Vec::new();
        for s in v.get("starts")?.as_array()? {
            let node = s.get(0)?.as_u64()? as usize;
            if node >= n || starts.iter().any(|(m, _)| *m == node) {
                return None;
            }
            starts.push((node, s.get(1)?.as_u64()? as u8 & FULL));
        }
        let default = match v.get("default")? {
            Value::Null => None,
            d => Some(d.as_u64()? as u8 & FULL),
        };
        Some(Problem { n, edges, starts, default })
    }

    fn size(&self) -> u64 {
        (self.n * 4 + self.edges.len() * 2 + self.starts.len()) as u64
    }

    fn fingerprint(&self) -> u64 {
        let mut h = mix(0xC07, self.n as u64);
        for (u, v, tf) in &self.edges {
            h = mix(h, (*u as u64) << 40 | (*v as u64) << 32 | (tf.keep as u64) << 24 | (tf.gen as u64) << 16 | tf.guard.map_or(0xff00, |g| g as u64));
        }
        for (n, v) in &self.starts {
            h = mix(h, 0x1_0000 | (*n as u64) << 8 | *v as u64);
        }
        mix(h, self.default.map_or(0x100, |d| d as u64))
    }

    fn initial(&self) -> Vec<Option<u8>> {
        let mut val = vec![self.default; self.n];
        for (n, s) in &self.starts {
            val[*n] = Some(*s);
        }
        val
    }
}

/// The oracle: least assignment above the initial one that is closed under all edge functions.
fn reference(p: &Problem) -> Vec<Option<u8>> {
    let mut val = p.initial();
    loop {
        let mut changed = false;
        for (u, v, tf) in &p.edges {
            if let Some(y) = val[*u].and_then(|x| tf.apply(x)) {
                let new = Some(val[*v].map_or(y, |old| old | y));
                if new != val[*v] {
                    val[*v] = new;
                    changed = true;
                }
            }
        }
        if !changed {
            return val;
        }
    }
}

/// First edge `(u,v)` with `u` not in `skip` whose transfer is not below the value of `v`.
fn unclosed_edge(p: &Problem, vals: &[Option<u8>], skip: &[bool]) -> Option<usize> {
    p.edges.iter().position(|(u, v, tf)| {
        if skip[*u] {
            return false;
        }
        match vals[*u].and_then(|x| tf.apply(x)) {
            None => false,
            Some(y) => !le(Some(y), vals[*v]),
        }
    })
}

fn gen_problem(rng: &mut Rng) -> Problem {
    let n = match rng.below(10) {
        0 => rng.range_usize(1, 3),
        1..=4 => rng.range_usize(4, 6),
        _ => rng.range_usize(7, 12),
    };
    let mut edges: Vec<(usize, usize, Tf)> = Vec::new();
    // optional ring / chain backbone so that long cycles are frequent
    match rng.below(4) {
        0 => {
            for i in 0..n {
                if rng.chance(5, 6) {
                    edges.push((i, (i + 1) % n, Tf::random(rng)));
                }
            }
        }
        1 => {
            // two separate components: edges only inside each half
        }
        _ => (),
    }
    let split = edges.is_empty() && rng.chance(1, 4) && n >= 4;
    let m = rng.range_usize(0, 2 * n + 3);
    for _ in 0..m {
        let u = rng.usize_below(n);
        let mut v = match rng.below(8) {
            0 => u,
            1 if !edges.is_empty() => {
                // parallel to an existing edge
                let (a, b, _) = edges[rng.usize_below(edges.len())];
                edges.push((a, b, Tf::random(rng)));
                continue;
            }
            _ => rng.usize_below(n),
        };
        if split && (u < n / 2) != (v < n / 2) {
            v = u;
        }
        edges.push((u, v, Tf::random(rng)));
    }
    let mut starts = Vec::new();
    let dens = rng.range_usize(1, 4) as u64;
    for node in 0..n {
        if rng.chance(dens, 6) {
            starts.push((node, sparse(rng)));
        }
    }
    if starts.is_empty() && rng.chance(9, 10) {
        starts.push((rng.usize_below(n), sparse(rng)));
    }
    rng.shuffle(&mut starts);
    let default = if rng.chance(1, 3) { Some(sparse(rng)) } else { None };
    Problem { n, edges, starts, default }
}

struct PlainCtx {
    graph: DiGraph<(), Tf>,
}

impl Context for PlainCtx {
    type EdgeLabel = Tf;
    type NodeLabel = ();
    type NodeValue = u8;
    fn get_graph(&self) -> &DiGraph<(), Tf> {
        &self.graph
    }
    fn merge(&self, a: &u8, b: &u8) -> u8 {
        a | b
    }
    fn update_edge(&self, value: &u8, edge: EdgeIndex) -> Option<u8> {
        self.graph[edge].apply(*value)
    }
}

type Comp = Computation<Counting<PlainCtx>>;

fn make(p: &Problem, order: Option<&[usize]>) -> Comp {
    let mut graph: DiGraph<(), Tf> = DiGraph::new();
    for _ in 0..p.n {
        graph.add_node(());
    }
    for (u, v, tf) in &p.edges {
        graph.add_edge(NodeIndex::new(*u), NodeIndex::new(*v), *tf);
    }
    let ctx = Counting::new(PlainCtx { graph });
    let mut c = match order {
        None => Computation::new(ctx, p.default),
        Some(list) => Computation::from_node_priority_list(ctx, p.default, list.iter().map(|i| NodeIndex::new(*i)).collect()),
    };
    for (n, v) in &p.starts {
        c.set_node_value(NodeIndex::new(*n), *v);
    }
    c
}

/// Everything observable of a computation after a solver call.
#[derive(Clone, Debug)]
struct Obs {
    vals: Vec<Option<u8>>,
    stab: bool,
    wl: Vec<usize>,
    counts: Vec<u32>,
    /// number of entries of `node_values()` (must equal the number of `Some` in `vals`)
    map_len: usize,
}

fn observe(c: &Comp, n: usize) -> Obs {
    Obs {
        vals: (0..n).map(|i| c.get_node_value(NodeIndex::new(i)).copied()).collect(),
        stab: c.has_stabilized(),
        wl: c.get_worklist().into_iter().map(|x| x.index()).collect(),
        counts: c.get_context().counts(),
        map_len: c.node_values().len(),
    }
}

struct BoundedObs {
    first: Obs,
    /// (state after resuming to the end, rounds, worst per-round edge count, resumed with compute())
    resumed: Option<(Obs, u32, u32, bool)>,
}

fn run_full(p: &Problem, order: Option<&[usize]>) -> Obs {
    let mut c = make(p, order);
    c.compute();
    observe(&c, p.n)
}

fn run_bounded(p: &Problem, order: Option<&[usize]>, k: u64) -> BoundedObs {
    let mut c = make(p, order);
    c.compute_with_max_steps(k);
    let first = observe(&c, p.n);
    if first.stab {
        return BoundedObs { first, resumed: None };
    }
    let with_compute = k % 2 == 1;
    let mut rounds = 0u32;
    let mut worst = 0u32;
    if with_compute {
        c.get_context().reset();
        c.compute();
        rounds = 1;
    } else {
        while !c.has_stabilized() && rounds < 100 {
            c.get_context().reset();
            c.compute_with_max_steps(k);
            worst = worst.max(c.get_context().counts().into_iter().max().unwrap_or(0));
            rounds += 1;
        }
    }
    let last = observe(&c, p.n);
    BoundedObs { first, resumed: Some((last, rounds, worst, with_compute)) }
}

struct Judge<'a> {
    p: &'a Problem,
    lfp: &'a [Option<u8>],
    order: Option<&'a [usize]>,
}

impl<'a> Judge<'a> {
    fn case(&self, k: Option<u64>) -> Value {
        json!({"kind": "generic", "problem": self.p.to_json(), "order": self.order, "k": k, "least_solution": show(self.lfp)})
    }

    fn sig(&self, what: &str) -> String {
        format!("generic:{what}")
    }

    fn fail(&self, rep: &mut Report, what: &str, k: Option<u64>, detail: String) {
        let ord = match self.order {
            Some(o) => format!("priority list {o:?}"),
            None => "Computation::new order".to_string(),
        };
        let mode = match k {
            Some(k) => format!("compute_with_max_steps({k})"),
            None => "compute()".to_string(),
        };
        if already_smaller(rep, &self.sig(what), self.p.size() + k.unwrap_or(0)) {
            return;
        }
        rep.violation(
            self.sig(what),
            None,
            format!("{mode} with {ord} on {}: {detail}; least solution = {}", self.p.to_json(), show(self.lfp)),
            self.case(k),
            self.p.size() + k.unwrap_or(0),
        );
    }

    fn panic(&self, rep: &mut Report, k: Option<u64>, msg: &str) {
        if msg.contains(BUDGET_TAG) {
            self.fail(rep, "nontermination", k, format!("the solver does not terminate: {msg}"));
        } else {
            self.fail(rep, &format!("panic:{}", site(msg)), k, format!("panicked: {msg}"));
        }
    }

    /// Checks that apply to a state the solver calls stabilised. Returns false if something failed.
    fn judge_final(&self, rep: &mut Report, o: &Obs, k: Option<u64>, stage: &str) -> bool {
        let mut ok = true;
        if !o.stab || !o.wl.is_empty() {
            self.fail(rep, &format!("{stage}:not-stabilized"), k, format!("has_stabilized() = {}, get_worklist() = {:?} after the solver ran to the end", o.stab, o.wl));
            ok = false;
        }
        if o.vals != self.lfp {
            let none = vec![false; self.p.n];
            let what = if o.vals.iter().zip(self.lfp).any(|(a, b)| !le(*a, *b)) {
                "value-above-least"
            } else if let Some(e) = unclosed_edge(self.p, &o.vals, &none) {
                let _ = e;
                "not-closed"
            } else {
                "value-below-least"
            };
            self.fail(rep, &format!("{stage}:{what}"), k, format!("node values = {} ", show(&o.vals)));
            ok = false;
        }
        if o.map_len != o.vals.iter().filter(|v| v.is_some()).count() {
            self.fail(rep, &format!("{stage}:value-map-keys"), k, format!("node_values() has {} entries but {} nodes have a value", o.map_len, o.vals.iter().filter(|v| v.is_some()).count()));
            ok = false;
        }
        ok
    }

    /// All checks for one priority order. Returns the bound that was needed to stabilise.
    fn check(&self, rep: &mut Report) -> Option<u64> {
        let (p, lfp) = (self.p, self.lfp);
        // ---- compute()
        rep.eval();
        match guard(|| run_full(p, self.order)) {
            Err(msg) => self.panic(rep, None, &msg),
            Ok(o) => {
                self.judge_final(rep, &o, None, "compute");
            }
        }
        // ---- fresh bounded runs k = 1.. until stabilisation
        let init = p.initial();
        for k in 1..=10u64 {
            rep.eval();
            let b = match guard(|| run_bounded(p, self.order, k)) {
                Err(msg) => {
                    self.panic(rep, Some(k), &msg);
                    return None;
                }
                Ok(b) => b,
            };
            let o = &b.first;
            let worst = o.counts.iter().copied().max().unwrap_or(0);
            if worst as u64 > k {
                let e = o.counts.iter().position(|c| *c == worst).unwrap();
                self.fail(rep, "step-bound-exceeded", Some(k), format!("edge #{e} {:?} was evaluated {worst} times, i.e. its source node was processed more than {k} times", (p.edges[e].0, p.edges[e].1)));
            }
            if o.stab != o.wl.is_empty() {
                self.fail(rep, "worklist-flag-mismatch", Some(k), format!("has_stabilized() = {} but get_worklist() = {:?}", o.stab, o.wl));
            }
            let mut in_wl = vec![false; p.n];
            let mut wl_ok = true;
            for w in &o.wl {
                if *w >= p.n || in_wl[*w] {
                    wl_ok = false;
                } else {
                    in_wl[*w] = true;
                }
            }
            if !wl_ok {
                self.fail(rep, "worklist-malformed", Some(k), format!("get_worklist() = {:?} contains duplicates or unknown nodes", o.wl));
            }
            if o.stab {
                if let Some(e) = unclosed_edge(p, &o.vals, &vec![false; p.n]) {
                    self.fail(rep, "stabilized-but-not-closed", Some(k), format!("has_stabilized() is true but edge #{e} {:?} is not closed under node values {}", (p.edges[e].0, p.edges[e].1), show(&o.vals)));
                }
                self.judge_final(rep, o, Some(k), "bounded");
                return Some(k);
            }
            // intermediate state: between the start assignment and the least solution, the
            // unmarked part closed, and resumable to the least solution
            if !(o.vals.iter().zip(lfp).all(|(a, b)| le(*a, *b)) && init.iter().zip(&o.vals).all(|(a, b)| le(*a, *b))) {
                self.fail(rep, "intermediate-out-of-range", Some(k), format!("unstabilised node values {} are not between the start values {} and the least solution", show(&o.vals), show(&init)));
            }
            if wl_ok {
                if let Some(e) = unclosed_edge(p, &o.vals, &in_wl) {
                    self.fail(rep, "unmarked-node-not-closed", Some(k), format!("edge #{e} {:?} is not closed although its source is not in get_worklist() = {:?}; node values {}", (p.edges[e].0, p.edges[e].1), o.wl, show(&o.vals)));
                }
            }
            if let Some((last, rounds, worst_round, with_compute)) = &b.resumed {
                rep.eval();
                let stage = if *with_compute { "resume-compute" } else { "resume-bounded" };
                if *worst_round as u64 > k {
                    self.fail(rep, "step-bound-exceeded", Some(k), format!("while resuming with repeated compute_with_max_steps({k}) one call evaluated an edge {worst_round} times"));
                }
                if !with_compute && !last.stab {
                    self.fail(rep, "resume-bounded:no-progress", Some(k), format!("{rounds} further calls of compute_with_max_steps({k}) did not stabilise; worklist {:?}", last.wl));
                } else {
                    self.judge_final(rep, last, Some(k), stage);
                }
            }
        }
        self.fail(rep, "bounded:no-stabilisation", Some(10), "a fresh computation with step bound 10 is still not stabilised although no node value can change more than 7 times".to_string());
        None
    }
}

fn next_permutation(a: &mut [usize]) -> bool {
    if a.len() < 2 {
        return false;
    }
    let mut i = a.len() - 1;
    while i > 0 && a[i - 1] >= a[i] {
        i -= 1;
    }
    if i == 0 {
        return false;
    }
    let mut j = a.len() - 1;
    while a[j] <= a[i - 1] {
        j -= 1;
    }
    a.swap(i - 1, j);
    a[i..].reverse();
    true
}

/// (has a cycle among nodes with a value, has an edge that is blocked in the least solution)
fn shape(n: usize, edges: &[(usize, usize)], valued: &[bool], blocked: &[bool]) -> (bool, bool) {
    // cycle detection by repeatedly removing nodes without valued predecessors
    let mut alive: Vec<bool> = valued.to_vec();
    loop {
        let mut has_pred = vec![false; n];
        for (u, v) in edges {
            if alive[*u] && alive[*v] {
                has_pred[*v] = true;
            }
        }
        let mut changed = false;
        for i in 0..n {
            if alive[i] && !has_pred[i] {
                alive[i] = false;
                changed = true;
            }
        }
        if !changed {
            break;
        }
    }
    (alive.iter().any(|a| *a), blocked.iter().any(|b| *b))
}

fn check_problem(p: &Problem, rng: &mut Rng, rep: &mut Report, random_orders: usize) {
    let lfp = reference(p);
    let valued: Vec<bool> = lfp.iter().map(|v| v.is_some()).collect();
    let blocked: Vec<bool> = p.edges.iter().map(|(u, _, tf)| matches!(lfp[*u], Some(x) if tf.apply(x).is_none())).collect();
    let plain: Vec<(usize, usize)> = p.edges.iter().map(|(u, v, _)| (*u, *v)).collect();
    let (cyc, blk) = shape(p.n, &plain, &valued, &blocked);
    if cyc && blk {
        rep.nontrivial(p.fingerprint());
    }
    rep.obs(&format!("A:nodes:{:02}", p.n));
    rep.obs(if p.default.is_some() { "A:default:some" } else { "A:default:none" });
    if cyc {
        rep.obs("A:cycle-with-values");
    }
    if blk {
        rep.obs("A:blocked-edge-in-least-solution");
    }
    if p.edges.iter().any(|(u, v, _)| u == v) {
        rep.obs("A:self-loop");
    }
    if valued.iter().any(|v| !*v) {
        rep.obs("A:node-without-value(unreachable)");
    }
    {
        let mut s = BTreeSet::new();
        if plain.iter().any(|e| !s.insert(*e)) {
            rep.obs("A:parallel-edges");
        }
    }
    let mut worst_k = 0u64;
    let mut orders = 0u64;
    // the solver's own order
    if let Some(k) = (Judge { p, lfp: &lfp, order: None }).check(rep) {
        worst_k = worst_k.max(k);
    }
    orders += 1;
    let mut perm: Vec<usize> = (0..p.n).collect();
    if p.n <= 6 {
        loop {
            if let Some(k) = (Judge { p, lfp: &lfp, order: Some(&perm) }).check(rep) {
                worst_k = worst_k.max(k);
            }
            orders += 1;
            if !next_permutation(&mut perm) {
                break;
            }
        }
        rep.obs("A:all-permutations");
    } else {
        for i in 0..random_orders + 2 {
            match i {
                0 => (),
                1 => perm.reverse(),
                _ => rng.shuffle(&mut perm),
            }
            if let Some(k) = (Judge { p, lfp: &lfp, order: Some(&perm) }).check(rep) {
                worst_k = worst_k.max(k);
            }
            orders += 1;
        }
        rep.obs("A:random-permutations");
    }
    rep.obs_n("A:orders", orders);
    rep.obs(&format!("A:bound-needed-to-stabilise(max over orders):{worst_k:02}"));
    if cyc && blk && p.n >= 3 && p.n <= 5 && rep.samples.is_empty() && rng.chance(1, 8) {
        let observed = guard(|| run_full(p, None)).ok().map(|o| show(&o.vals));
        rep.sample(json!({"kind": "generic", "problem": p.to_json(), "least_solution(reference)": show(&lfp), "observed(compute, own order)": observed, "orders_checked": orders, "bound_needed": worst_k}));
    }
}

// ---------------------------------------------------------------------------
// Workload B: the forward interprocedural wrapper

/// The analysis semantics: every transfer function is a `Tf` derived from a hash of the terms
/// the wrapper hands to the context, so a wrong term shows up as a wrong value.
#[derive(Clone, Copy)]
struct Sem {
    salt: u64,
}

impl Sem {
    fn tf(&self, kind: &str, key: &str) -> Tf {
        let h = mix(mix(self.salt, hash_str(kind)), hash_str(key));
        let mut tf = Tf::random(&mut Rng::new(h));
        if (h >> 40) % 2 == 0 {
            // program paths are long: keep half of the guards open so that values reach the call/return edges
            tf.guard = None;
        }
        tf
    }
    fn small_gen(&self, kind: &str, key: &str) -> u8 {
        let h = mix(mix(self.salt, hash_str(kind)), hash_str(key));
        if h % 3 == 0 {
            1u8 << ((h >> 8) % 6)
        } else {
            0
        }
    }
    fn def(&self, v: u8, def: &Term<Def>) -> Option<u8> {
        self.tf("def", &def.tid.to_string()).apply(v)
    }
    fn jump(&self, v: u8, jump: &Term<Jmp>, untaken: Option<&Term<Jmp>>, target: &Term<Blk>) -> Option<u8> {
        let mut r = self.tf("jmp", &jump.tid.to_string()).apply(v)?;
        if let Some(u) = untaken {
            r |= self.small_gen("untaken", &u.tid.to_string());
        }
        Some(r | self.small_gen("target", &format!("{}>{}", jump.tid, target.tid)))
    }
    fn specialize(&self, v: u8, condition: &Expression, block: &Term<Blk>, is_true: bool) -> Option<u8> {
        self.tf("cond", &format!("{condition}|{}|{is_true}", block.tid)).apply(v)
    }
    fn call(&self, v: u8, call: &Term<Jmp>, target: &Node, cconv: &Option<String>) -> Option<u8> {
        self.tf("call", &format!("{}|{target}|{cconv:?}", call.tid)).apply(v)
    }
    fn ret(&self, flow: Option<u8>, before: Option<u8>, call: &Term<Jmp>, ret: &Term<Jmp>, cconv: &Option<String>) -> Option<u8> {
        let key = format!("{}|{}|{cconv:?}", call.tid, ret.tid);
        let part_r = flow.and_then(|r| self.tf("retR", &key).apply(r));
        let part_c = before.and_then(|c| self.tf("retC", &key).apply(c));
        if self.small_gen("retmode", &call.tid.to_string()) == 0 {
            // nothing returns before the callee returned
            part_r.map(|r| r | part_c.unwrap_or(0))
        } else {
            match (part_r, part_c) {
                (None, None) => None,
                (a, b) => Some(a.unwrap_or(0) | b.unwrap_or(0)),
            }
        }
    }
    fn call_stub(&self, v: u8, call: &Term<Jmp>) -> Option<u8> {
        self.tf("stub", &call.tid.to_string()).apply(v)
    }
    // ---- backward analysis
    fn jumpsite(&self, v: u8, jump: &Term<Jmp>, untaken: Option<&Term<Jmp>>, site: &Term<Blk>) -> Option<u8> {
        let mut r = self.tf("bjmp", &jump.tid.to_string()).apply(v)?;
        if let Some(u) = untaken {
            r |= self.small_gen("buntaken", &u.tid.to_string());
        }
        Some(r | self.small_gen("bsite", &format!("{}<{}", jump.tid, site.tid)))
    }
    fn callsite(&self, target: Option<u8>, ret: Option<u8>, caller: &Term<Sub>, call: &Term<Jmp>, return_: &Term<Jmp>) -> Option<u8> {
        let key = format!("{}|{}|{}", caller.tid, call.tid, return_.tid);
        let part_t = target.and_then(|t| self.tf("csT", &key).apply(t));
        let part_r = ret.and_then(|r| self.tf("csR", &key).apply(r));
        if self.small_gen("csmode", &call.tid.to_string()) == 0 {
            part_t.map(|t| t | part_r.unwrap_or(0))
        } else {
            match (part_t, part_r) {
                (None, None) => None,
                (a, b) => Some(a.unwrap_or(0) | b.unwrap_or(0)),
            }
        }
    }
    fn split_call_stub(&self, v: u8) -> Option<u8> {
        self.tf("splitc", "").apply(v)
    }
    fn split_return_stub(&self, v: u8, sub: &Term<Sub>) -> Option<u8> {
        self.tf("splitr", &sub.tid.to_string()).apply(v)
    }
    fn bcall_stub(&self, v: u8, call: &Term<Jmp>) -> Option<u8> {
        self.tf("bstub", &call.tid.to_string()).apply(v)
    }
}

struct FwdCtx<'a> {
    graph: &'a Graph<'a>,
    sem: Sem,
    /// total number of transfer/merge calls (non-termination guard for the uncounted runs)
    work: Cell<u64>,
}

impl<'a> FwdCtx<'a> {
    fn new(graph: &'a Graph<'a>, sem: Sem) -> Self {
        FwdCtx { graph, sem, work: Cell::new(0) }
    }
    fn tick(&self) {
        self.work.set(self.work.get() + 1);
        if self.work.get() > 100_000 {
            panic!("{BUDGET_TAG}: more than 100000 transfer/merge calls in one solver call");
        }
    }
}

impl<'a> fwd::Context<'a> for FwdCtx<'a> {
    type Value = u8;
    fn get_graph(&self) -> &Graph<'a> {
        self.graph
    }
    fn merge(&self, a: &u8, b: &u8) -> u8 {
        self.tick();
        a | b
    }
    fn update_def(&self, v: &u8, def: &Term<Def>) -> Option<u8> {
        self.tick();
        self.sem.def(*v, def)
    }
    fn update_jump(&self, v: &u8, jump: &Term<Jmp>, untaken: Option<&Term<Jmp>>, target: &Term<Blk>) -> Option<u8> {
        self.tick();
        self.sem.jump(*v, jump, untaken, target)
    }
    fn update_call(&self, v: &u8, call: &Term<Jmp>, target: &Node, cconv: &Option<String>) -> Option<u8> {
        self.tick();
        self.sem.call(*v, call, target, cconv)
    }
    fn update_return(&self, v: Option<&u8>, before: Option<&u8>, call: &Term<Jmp>, ret: &Term<Jmp>, cconv: &Option<String>) -> Option<u8> {
        self.tick();
        self.sem.ret(v.copied(), before.copied(), call, ret, cconv)
    }
    fn update_call_stub(&self, v: &u8, call: &Term<Jmp>) -> Option<u8> {
        self.tick();
        self.sem.call_stub(*v, call)
    }
    fn specialize_conditional(&self, v: &u8, condition: &Expression, block: &Term<Blk>, is_true: bool) -> Option<u8> {
        self.tick();
        self.sem.specialize(*v, condition, block, is_true)
    }
}

struct BwdCtx<'a>(FwdCtx<'a>);

impl<'a> bwd::Context<'a> for BwdCtx<'a> {
    type Value = u8;
    fn get_graph(&self) -> &Graph<'a> {
        self.0.graph
    }
    fn merge(&self, a: &u8, b: &u8) -> u8 {
        self.0.tick();
        a | b
    }
    fn update_def(&self, v: &u8, def: &Term<Def>) -> Option<u8> {
        self.0.tick();
        self.0.sem.def(*v, def)
    }
    fn update_jumpsite(&self, v: &u8, jump: &Term<Jmp>, untaken: Option<&Term<Jmp>>, site: &Term<Blk>) -> Option<u8> {
        self.0.tick();
        self.0.sem.jumpsite(*v, jump, untaken, site)
    }
    fn update_callsite(&self, target: Option<&u8>, ret: Option<&u8>, caller: &Term<Sub>, call: &Term<Jmp>, return_: &Term<Jmp>) -> Option<u8> {
        self.0.tick();
        self.0.sem.callsite(target.copied(), ret.copied(), caller, call, return_)
    }
    fn split_call_stub(&self, v: &u8) -> Option<u8> {
        self.0.tick();
        self.0.sem.split_call_stub(*v)
    }
    fn split_return_stub(&self, v: &u8, sub: &Term<Sub>) -> Option<u8> {
        self.0.tick();
        self.0.sem.split_return_stub(*v, sub)
    }
    fn update_call_stub(&self, v: &u8, call: &Term<Jmp>) -> Option<u8> {
        self.0.tick();
        self.0.sem.bcall_stub(*v, call)
    }
    fn specialize_conditional(&self, v: &u8, _condition: &Expression, _is_true: bool) -> Option<u8> {
        // never called by the backward wrapper; the identity keeps the reference valid either way
        Some(*v)
    }
}

#[derive(Clone, Copy, PartialEq, Eq, Debug)]
enum Dir {
    Fwd,
    Bwd,
}

impl Dir {
    fn name(self) -> &'static str {
        match self {
            Dir::Fwd => "fwd-wrapper",
            Dir::Bwd => "bwd-wrapper",
        }
    }
    /// the node kind that carries combinator values
    fn is_comb_node(self, node: &Node) -> bool {
        match self {
            Dir::Fwd => matches!(node, Node::CallReturn { .. }),
            Dir::Bwd => matches!(node, Node::CallSource { .. }),
        }
    }
}

/// Reference node value: plain value or the (call_stub, interprocedural_flow) pair of a CallReturn node.
#[derive(Clone, Copy, PartialEq, Eq, Debug)]
enum RV {
    V(u8),
    C(Option<u8>, Option<u8>),
}

fn rv_of(nv: &NodeValue<u8>) -> RV {
    match nv {
        NodeValue::Value(v) => RV::V(*v),
        NodeValue::CallFlowCombinator { call_stub, interprocedural_flow } => RV::C(*call_stub, *interprocedural_flow),
    }
}

fn rv_join(a: RV, b: RV) -> Option<RV> {
    let jo = |x: Option<u8>, y: Option<u8>| match (x, y) {
        (None, None) => None,
        (p, q) => Some(p.unwrap_or(0) | q.unwrap_or(0)),
    };
    match (a, b) {
        (RV::V(x), RV::V(y)) => Some(RV::V(x | y)),
        (RV::C(a1, a2), RV::C(b1, b2)) => Some(RV::C(jo(a1, b1), jo(a2, b2))),
        _ => None,
    }
}

fn rv_le(a: Option<RV>, b: Option<RV>) -> bool {
    match (a, b) {
        (None, _) => true,
        (Some(_), None) => false,
        (Some(RV::V(x)), Some(RV::V(y))) => x & !y == 0,
        (Some(RV::C(a1, a2)), Some(RV::C(b1, b2))) => le(a1, b1) && le(a2, b2),
        _ => false,
    }
}

fn rv_show(vals: &[Option<RV>]) -> String {
    let o = |x: &Option<u8>| x.map_or("-".to_string(), |v| format!("{v:#04x}"));
    let parts: Vec<String> = vals
        .iter()
        .map(|v| match v {
            None => "-".to_string(),
            Some(RV::V(x)) => format!("{x:#04x}"),
            Some(RV::C(a, b)) => format!("(stub {} flow {})", o(a), o(b)),
        })
        .collect();
    format!("[{}]", parts.join(" "))
}

/// The transfer of one CFG edge, written from the documentation of the edge kinds in `graph.rs`
/// and of the `forward_interprocedural_fixpoint::Context` methods. `Err` = the node value has the
/// wrong shape for the edge (can only happen with default values on CallReturn nodes).
fn ref_edge(dir: Dir, graph: &Graph, sem: &Sem, e: EdgeIndex, x: RV) -> Result<Option<RV>, String> {
    match dir {
        Dir::Fwd => ref_edge_fwd(graph, sem, e, x),
        Dir::Bwd => ref_edge_bwd(graph, sem, e, x),
    }
}

/// The transfer of one edge of the *reversed* CFG in a backward analysis, written from the
/// documentation of `backward_interprocedural_fixpoint::Context`. Here `s` is the later and `t` the
/// earlier program point; CallSource nodes carry the (call_stub, interprocedural_flow) pair.
fn ref_edge_bwd(graph: &Graph, sem: &Sem, e: EdgeIndex, x: RV) -> Result<Option<RV>, String> {
    let (s, t) = graph.edge_endpoints(e).unwrap();
    let plain = |x: RV| match x {
        RV::V(v) => Ok(v),
        RV::C(..) => Err(format!("combinator value at the source of a reversed {} edge", graph[e])),
    };
    Ok(match graph[e] {
        Edge::Block => {
            let blk = match graph[s] {
                Node::BlkEnd(b, _) => b,
                _ => return Err("reversed Block edge does not start at a BlkEnd node".into()),
            };
            let mut acc = Some(plain(x)?);
            for def in blk.term.defs.iter().rev() {
                acc = acc.and_then(|v| sem.def(v, def));
            }
            acc.map(RV::V)
        }
        Edge::Jump(jump, untaken) => {
            let site = match graph[t] {
                Node::BlkEnd(b, _) => b,
                _ => return Err("reversed Jump edge does not end at a BlkEnd node".into()),
            };
            sem.jumpsite(plain(x)?, jump, untaken, site).map(RV::V)
        }
        Edge::ReturnCombine(_) => Some(RV::V(plain(x)?)),
        Edge::Call(_) => Some(RV::C(None, Some(plain(x)?))),
        Edge::CrCallStub => Some(RV::C(sem.split_call_stub(plain(x)?), None)),
        Edge::CrReturnStub => {
            let sub = match graph[t] {
                Node::BlkEnd(_, sub) => sub,
                _ => return Err("reversed CrReturnStub edge does not end at a BlkEnd node".into()),
            };
            sem.split_return_stub(plain(x)?, sub).map(RV::V)
        }
        Edge::CallCombine(label) => {
            let (stub, flow) = match x {
                RV::C(a, b) => (a, b),
                RV::V(_) => return Err("plain value at a CallSource node".into()),
            };
            let (cblk, csub) = match graph[s] {
                Node::CallSource { source, .. } => source,
                _ => return Err("reversed CallCombine edge does not start at a CallSource node".into()),
            };
            let call_term = cblk.term.jmps.iter().find(|j| matches!(j.term, Jmp::Call { .. })).ok_or("no call in call block")?;
            sem.callsite(flow, stub, csub, call_term, label).map(RV::V)
        }
        Edge::ExternCallStub(call) => sem.bcall_stub(plain(x)?, call).map(RV::V),
    })
}

fn ref_edge_fwd(graph: &Graph, sem: &Sem, e: EdgeIndex, x: RV) -> Result<Option<RV>, String> {
    let (s, t) = graph.edge_endpoints(e).unwrap();
    let plain = |x: RV| match x {
        RV::V(v) => Ok(v),
        RV::C(..) => Err(format!("combinator value at the source of a {} edge", graph[e])),
    };
    Ok(match graph[e] {
        Edge::Block => {
            let blk = match graph[s] {
                Node::BlkStart(b, _) => b,
                _ => return Err("Block edge does not start at a BlkStart node".into()),
            };
            let mut acc = Some(plain(x)?);
            for def in &blk.term.defs {
                acc = acc.and_then(|v| sem.def(v, def));
            }
            acc.map(RV::V)
        }
        Edge::Jump(jump, untaken) => {
            let v = plain(x)?;
            let (blk, target) = match (graph[s], graph[t]) {
                (Node::BlkEnd(b, _), Node::BlkStart(tb, _)) => (b, tb),
                _ => return Err("Jump edge not from BlkEnd to BlkStart".into()),
            };
            let refined = if let Jmp::CBranch { condition, .. } = &jump.term {
                sem.specialize(v, condition, blk, true)
            } else if let Some(Term { term: Jmp::CBranch { condition, .. }, .. }) = untaken {
                sem.specialize(v, condition, blk, false)
            } else {
                Some(v)
            };
            refined.and_then(|v| sem.jump(v, jump, untaken, target)).map(RV::V)
        }
        Edge::Call(call) => {
            let cconv = match graph[t] {
                Node::BlkStart(_, sub) => &sub.term.calling_convention,
                _ => return Err("Call edge does not end at a BlkStart node".into()),
            };
            sem.call(plain(x)?, call, &graph[t], cconv).map(RV::V)
        }
        Edge::ExternCallStub(call) => sem.call_stub(plain(x)?, call).map(RV::V),
        Edge::CallCombine(_) => Some(RV::V(plain(x)?)),
        Edge::CrCallStub => Some(RV::C(Some(plain(x)?), None)),
        Edge::CrReturnStub => Some(RV::C(None, Some(plain(x)?))),
        Edge::ReturnCombine(call_term) => {
            let (stub, flow) = match x {
                RV::C(a, b) => (a, b),
                RV::V(_) => return Err("plain value at a CallReturn node".into()),
            };
            let (rblk, rsub) = match graph[s] {
                Node::CallReturn { return_, .. } => return_,
                _ => return Err("ReturnCombine edge does not start at a CallReturn node".into()),
            };
            let ret_term = rblk.term.jmps.iter().find(|j| matches!(j.term, Jmp::Return(_))).ok_or("no return in return block")?;
            sem.ret(flow, stub, call_term, ret_term, &rsub.term.calling_convention).map(RV::V)
        }
    })
}

/// Chaotic iteration on the generalized graph.
fn ref_solve(dir: Dir, graph: &Graph, sem: &Sem, init: &[Option<RV>]) -> Result<Vec<Option<RV>>, String> {
    let mut val = init.to_vec();
    loop {
        let mut changed = false;
        for e in graph.edge_references() {
            let (u, v) = (e.source().index(), e.target().index());
            if let Some(x) = val[u] {
                if let Some(y) = ref_edge(dir, graph, sem, e.id(), x)? {
                    let new = match val[v] {
                        None => y,
                        Some(old) => rv_join(old, y).ok_or("values of different shape meet at a node")?,
                    };
                    if Some(new) != val[v] {
                        val[v] = Some(new);
                        changed = true;
                    }
                }
            }
        }
        if !changed {
            return Ok(val);
        }
    }
}

fn ref_unclosed(dir: Dir, graph: &Graph, sem: &Sem, vals: &[Option<RV>], skip: &[bool]) -> Option<usize> {
    for e in graph.edge_references() {
        let (u, v) = (e.source().index(), e.target().index());
        if skip[u] {
            continue;
        }
        if let Some(x) = vals[u] {
            if let Ok(Some(y)) = ref_edge(dir, graph, sem, e.id(), x) {
                if !rv_le(Some(y), vals[v]) {
                    return Some(e.id().index());
                }
            }
        }
    }
    None
}

// ---- program generation

fn var(name: &str) -> Variable {
    Variable { name: name.to_string(), size: ByteSize::new(8), is_temp: false }
}

fn cst(v: u64, bytes: u64) -> Expression {
    Expression::Const(Bitvector::from_u64(v).into_resize_unsigned(ByteSize::new(bytes)))
}

fn gen_program(rng: &mut Rng) -> Term<Program> {
    let n_subs = rng.range_usize(1, 4);
    let n_blocks: Vec<usize> = (0..n_subs).map(|_| if rng.chance(1, 12) { 0 } else { rng.range_usize(1, 4) }).collect();
    let blk_tid = |s: usize, b: usize| Tid::new(format!("s{s}b{b}"));
    let sub_tid = |s: usize| Tid::new(format!("sub{s}"));
    let externs = ["ext0", "ext1"];
    let regs = ["RAX", "RBX", "RCX"];
    let all_blocks: Vec<(usize, usize)> = (0..n_subs).flat_map(|s| (0..n_blocks[s]).map(move |b| (s, b))).collect();
    let mut subs = BTreeMap::new();
    for s in 0..n_subs {
        let mut blocks = Vec::new();
        for b in 0..n_blocks[s] {
            let local = |rng: &mut Rng| {
                if rng.chance(1, 10) && !all_blocks.is_empty() {
                    let (s2, b2) = *rng.pick(&all_blocks);
                    blk_tid(s2, b2)
                } else {
                    blk_tid(s, rng.usize_below(n_blocks[s]))
                }
            };
            let mut defs = Vec::new();
            for d in 0..rng.below(4) {
                let tid = Tid::new(format!("s{s}b{b}d{d}"));
                let term = match rng.below(3) {
                    0 => Def::Assign { var: var(regs[rng.usize_below(regs.len())]), value: cst(rng.below(100), 8) },
                    1 => Def::Load { var: var(regs[rng.usize_below(regs.len())]), address: Expression::Var(var(regs[rng.usize_below(regs.len())])) },
                    _ => Def::Store { address: Expression::Var(var(regs[rng.usize_below(regs.len())])), value: cst(rng.below(100), 8) },
                };
                defs.push(Term { tid, term });
            }
            let jt = |j: usize| Tid::new(format!("s{s}b{b}j{j}"));
            let mut jmps = Vec::new();
            let mut indirect = Vec::new();
            let ret_target = |rng: &mut Rng| if rng.chance(5, 6) { Some(local(rng)) } else { None };
            match rng.below(16) {
                0 => (),
                1..=3 => jmps.push(Term { tid: jt(0), term: Jmp::Branch(local(rng)) }),
                4..=6 => {
                    jmps.push(Term { tid: jt(0), term: Jmp::CBranch { target: local(rng), condition: cst(rng.below(4), 1) } });
                    jmps.push(Term { tid: jt(1), term: Jmp::Branch(local(rng)) });
                }
                7..=9 => jmps.push(Term { tid: jt(0), term: Jmp::Call { target: sub_tid(rng.usize_below(n_subs)), return_: ret_target(rng) } }),
                10 => jmps.push(Term { tid: jt(0), term: Jmp::Call { target: Tid::new(*rng.pick(&externs)), return_: ret_target(rng) } }),
                11..=12 => jmps.push(Term { tid: jt(0), term: Jmp::Return(Expression::Var(var("RAX"))) }),
                13 => jmps.push(Term { tid: jt(0), term: Jmp::CallInd { target: Expression::Var(var("RBX")), return_: ret_target(rng) } }),
                14 => {
                    for _ in 0..rng.below(4) {
                        indirect.push(local(rng));
                    }
                    jmps.push(Term { tid: jt(0), term: Jmp::BranchInd(Expression::Var(var("RCX"))) });
                }
                _ => jmps.push(Term { tid: jt(0), term: Jmp::CallOther { description: "syscall".into(), return_: ret_target(rng) } }),
            }
            // the last block of a called function returns more often than not
            if b + 1 == n_blocks[s] && s > 0 && rng.chance(2, 3) {
                jmps = vec![Term { tid: jt(0), term: Jmp::Return(Expression::Var(var("RAX"))) }];
                indirect.clear();
            }
            blocks.push(Term { tid: blk_tid(s, b), term: Blk { defs, jmps, indirect_jmp_targets: indirect } });
        }
        let cconv = match rng.below(3) {
            0 => None,
            1 => Some("__stdcall".to_string()),
            _ => Some("__cdecl".to_string()),
        };
        subs.insert(sub_tid(s), Term { tid: sub_tid(s), term: Sub { name: format!("sub{s}"), blocks, calling_convention: cconv } });
    }
    let mut extern_symbols = BTreeMap::new();
    for name in externs {
        extern_symbols.insert(
            Tid::new(name),
            ExternSymbol {
                tid: Tid::new(name),
                addresses: vec![],
                name: name.to_string(),
                calling_convention: None,
                parameters: vec![],
                return_values: vec![],
                no_return: false,
                has_var_args: false,
            },
        );
    }
    Term { tid: Tid::new("prog"), term: Program { subs, extern_symbols, entry_points: BTreeSet::new(), address_base_offset: 0 } }
}

fn wrapper_vals<T: Context<NodeValue = NodeValue<u8>>>(c: &Computation<T>, n: usize) -> Vec<Option<RV>> {
    (0..n).map(|i| c.get_node_value(NodeIndex::new(i)).map(rv_of)).collect()
}

struct WCase<'a> {
    dir: Dir,
    gen_seed: u64,
    graph: &'a Graph<'a>,
    sem: Sem,
    starts: &'a [(usize, u8)],
    default: Option<u8>,
    /// None if the reference is undefined (default value on a graph with CallReturn nodes)
    lfp: Option<&'a [Option<RV>]>,
}

impl<'a> WCase<'a> {
    fn case(&self) -> Value {
        program_case(self.dir, self.gen_seed, self.sem.salt, self.graph, self.starts, self.default)
    }
    fn size(&self) -> u64 {
        (self.graph.node_count() * 2 + self.graph.edge_count() + self.starts.len()) as u64
    }
    fn fail(&self, rep: &mut Report, what: &str, order: &str, detail: String) {
        if already_smaller(rep, &format!("{}:{what}", self.dir.name()), self.size()) {
            return;
        }
        let nodes: Vec<String> = self.graph.node_indices().map(|n| format!("{}:{}", n.index(), self.graph[n])).collect();
        // Known-finding discriminator: the case is in the dedicated sub-workload "default value given AND the
        // graph contains CallReturn/CallSource combinator nodes" and the solver call panicked (see DESIGN.md §11.4).
        let known = if what == "default-with-combinator-nodes:panic" { Some(KNOWN_WRAPPER_DEFAULT) } else { None };
        rep.violation(
            format!("{}:{what}", self.dir.name()),
            known,
            format!(
                "{}, order {order}, start values {:?}, default {:?}: {detail}; reference least solution = {}; nodes = {nodes:?}",
                self.dir.name(),
                self.starts,
                self.default,
                self.lfp.map_or("(undefined)".to_string(), rv_show)
            ),
            self.case(),
            self.size(),
        );
    }
    fn panic(&self, rep: &mut Report, order: &str, stage: &str, msg: &str) {
        if msg.contains(BUDGET_TAG) {
            self.fail(rep, "nontermination", order, format!("{stage} does not terminate: {msg}"));
        } else if self.lfp.is_none() {
            self.fail(rep, "default-with-combinator-nodes:panic", order, format!("{stage} panicked: {msg} (a default value was given and the graph contains CallReturn/CallSource combinator nodes)"));
        } else {
            self.fail(rep, &format!("panic:{}", site(msg)), order, format!("{stage} panicked: {msg}"));
        }
    }
    fn set_starts<T: Context<NodeValue = NodeValue<u8>>>(&self, c: &mut Computation<T>) {
        for (n, v) in self.starts {
            c.set_node_value(NodeIndex::new(*n), NodeValue::Value(*v));
        }
    }
    fn judge_final(&self, rep: &mut Report, order: &str, stage: &str, vals: &[Option<RV>], stab: bool, wl_len: usize) {
        if !stab || wl_len != 0 {
            self.fail(rep, &format!("{stage}:not-stabilized"), order, format!("has_stabilized() = {stab}, worklist length {wl_len} after the solver ran to the end"));
        }
        if let Some(lfp) = self.lfp {
            if vals != lfp {
                let what = if vals.iter().zip(lfp).any(|(a, b)| !rv_le(*a, *b)) { "value-above-least" } else { "value-below-least" };
                self.fail(rep, &format!("{stage}:{what}"), order, format!("node values = {}", rv_show(vals)));
            }
        }
    }

    /// One of the crate's three ways to create the computation.
    fn check_builtin(&self, rep: &mut Report, which: &str) -> Option<Vec<Option<RV>>> {
        rep.eval();
        let n = self.graph.node_count();
        let res = guard(|| {
            let ctx = FwdCtx::new(self.graph, self.sem);
            match self.dir {
                Dir::Fwd => {
                    let mut c = match which {
                        "default-order" => fwd::create_computation(ctx, self.default),
                        "bottom-up" => fwd::create_computation_with_bottom_up_worklist_order(ctx, self.default),
                        _ => fwd::create_computation_with_top_down_worklist_order(ctx, self.default),
                    };
                    self.set_starts(&mut c);
                    c.compute();
                    (wrapper_vals(&c, n), c.has_stabilized(), c.get_worklist().len())
                }
                Dir::Bwd => {
                    let ctx = BwdCtx(ctx);
                    let mut c = match which {
                        "default-order" => bwd::create_computation(ctx, self.default),
                        "bottom-up" => bwd::create_computation_with_bottom_up_worklist_order(ctx, self.default),
                        _ => bwd::create_computation_with_top_down_worklist_order(ctx, self.default),
                    };
                    self.set_starts(&mut c);
                    c.compute();
                    (wrapper_vals(&c, n), c.has_stabilized(), c.get_worklist().len())
                }
            }
        });
        match res {
            Err(msg) => {
                self.panic(rep, which, "compute()", &msg);
                None
            }
            Ok((vals, stab, wl)) => {
                self.judge_final(rep, which, "compute", &vals, stab, wl);
                Some(vals)
            }
        }
    }

    fn make_counting<G: Context<NodeValue = NodeValue<u8>>>(&self, inner: G, order: &[usize]) -> Computation<Counting<G>> {
        let mut c = Computation::from_node_priority_list(Counting::new(inner), self.default.map(NodeValue::Value), order.iter().map(|i| NodeIndex::new(*i)).collect());
        self.set_starts(&mut c);
        c
    }

    fn check_list(&self, rep: &mut Report, name: &str, order: &[usize], bounded: bool) {
        match self.dir {
            Dir::Fwd => self.check_list_with(rep, name, order, bounded, || fwd::GeneralizedContext::new(FwdCtx::new(self.graph, self.sem))),
            Dir::Bwd => self.check_list_with(rep, name, order, bounded, || bwd::GeneralizedContext::new(BwdCtx(FwdCtx::new(self.graph, self.sem)))),
        }
    }

    /// An explicit priority list through `from_node_priority_list` on the generalized context,
    /// with edge counters: compute() and bounded runs.
    fn check_list_with<G: Context<NodeValue = NodeValue<u8>>>(&self, rep: &mut Report, name: &str, order: &[usize], bounded: bool, inner: impl Fn() -> G) {
        let n = self.graph.node_count();
        rep.eval();
        match guard(|| {
            let mut c = self.make_counting(inner(), order);
            c.compute();
            (wrapper_vals(&c, n), c.has_stabilized(), c.get_worklist().len())
        }) {
            Err(msg) => {
                self.panic(rep, name, "compute()", &msg);
                return;
            }
            Ok((vals, stab, wl)) => self.judge_final(rep, name, "list-compute", &vals, stab, wl),
        }
        if !bounded || self.lfp.is_none() {
            return;
        }
        let lfp = self.lfp.unwrap();
        for k in 1..=20u64 {
            rep.eval();
            let res = guard(|| {
                let mut c = self.make_counting(inner(), order);
                c.compute_with_max_steps(k);
                let first = (wrapper_vals(&c, n), c.has_stabilized(), c.get_worklist().iter().map(|x| x.index()).collect::<Vec<_>>(), c.get_context().counts());
                let resumed = if first.1 {
                    None
                } else {
                    c.get_context().reset();
                    c.compute();
                    Some((wrapper_vals(&c, n), c.has_stabilized(), c.get_worklist().len()))
                };
                (first, resumed)
            });
            let ((vals, stab, wl, counts), resumed) = match res {
                Err(msg) => {
                    self.panic(rep, name, &format!("compute_with_max_steps({k})"), &msg);
                    return;
                }
                Ok(r) => r,
            };
            let worst = counts.iter().copied().max().unwrap_or(0);
            if worst as u64 > k {
                self.fail(rep, "step-bound-exceeded", name, format!("compute_with_max_steps({k}) evaluated an edge {worst} times"));
            }
            if stab != wl.is_empty() {
                self.fail(rep, "worklist-flag-mismatch", name, format!("after compute_with_max_steps({k}): has_stabilized() = {stab}, get_worklist() = {wl:?}"));
            }
            let mut in_wl = vec![false; n];
            for w in &wl {
                if *w < n {
                    in_wl[*w] = true;
                }
            }
            if stab {
                if let Some(e) = ref_unclosed(self.dir, self.graph, &self.sem, &vals, &vec![false; n]) {
                    self.fail(rep, "stabilized-but-not-closed", name, format!("compute_with_max_steps({k}) reports stabilisation but edge #{e} is not closed under {}", rv_show(&vals)));
                }
                self.judge_final(rep, name, "bounded", &vals, stab, wl.len());
                rep.obs(&format!("B:{}:bound-needed-to-stabilise:{k:02}", self.dir.name()));
                return;
            }
            if !vals.iter().zip(lfp).all(|(a, b)| rv_le(*a, *b)) {
                self.fail(rep, "intermediate-out-of-range", name, format!("unstabilised values after compute_with_max_steps({k}) exceed the least solution: {}", rv_show(&vals)));
            }
            if let Some(e) = ref_unclosed(self.dir, self.graph, &self.sem, &vals, &in_wl) {
                self.fail(rep, "unmarked-node-not-closed", name, format!("after compute_with_max_steps({k}) edge #{e} is not closed although its source is not in the worklist {wl:?}; values {}", rv_show(&vals)));
            }
            if let Some((rvals, rstab, rwl)) = resumed {
                rep.eval();
                self.judge_final(rep, name, "resume-compute", &rvals, rstab, rwl);
            }
        }
        self.fail(rep, "bounded:no-stabilisation", name, "a fresh computation with step bound 20 is still not stabilised".to_string());
    }
}

fn is_permutation(list: &[NodeIndex], n: usize) -> bool {
    let mut seen = vec![false; n];
    list.len() == n && list.iter().all(|x| x.index() < n && !std::mem::replace(&mut seen[x.index()], true))
}

/// The stored form of a workload-B case: the program is regenerated from `gen_seed`, the start values
/// and the default from `salt`; nodes/edges/starts are only written out for the human reader.
fn program_case(dir: Dir, gen_seed: u64, salt: u64, graph: &Graph, starts: &[(usize, u8)], default: Option<u8>) -> Value {
    json!({
        "kind": "program", "dir": if dir == Dir::Fwd { "fwd" } else { "bwd" }, "gen_seed": gen_seed.to_string(), "salt": salt.to_string(), "generator_version": crate::GENERATOR_VERSION,
        "nodes": graph.node_indices().map(|i| format!("{}:{}", i.index(), graph[i])).collect::<Vec<_>>(),
        "edges": graph.edge_references().map(|e| format!("{}->{} {}", e.source().index(), e.target().index(), e.weight())).collect::<Vec<_>>(),
        "starts": starts.iter().map(|(n, v)| json!([n, v])).collect::<Vec<_>>(), "default": default,
    })
}

fn check_program(dir: Dir, gen_seed: u64, salt: u64, rep: &mut Report, track: bool) {
    let program = &gen_program(&mut Rng::new(gen_seed));
    let mut rng = Rng::new(mix(salt, 0xB));
    let tag = if dir == Dir::Fwd { "B:fwd" } else { "B:bwd" };
    let graph = match guard(|| get_program_cfg(program)) {
        Ok(mut g) => {
            if dir == Dir::Bwd {
                // a backward analysis runs on the reversed CFG
                g.reverse();
            }
            g
        }
        Err(msg) => {
            // graph construction is C08's subject
            rep.inconclusive(&format!("get_program_cfg panicked: {}", site(&msg)));
            return;
        }
    };
    let n = graph.node_count();
    if n == 0 {
        rep.obs(&format!("{tag}:empty-graph"));
        return;
    }
    let sem = Sem { salt };
    // start values: function entries (forward) / ends of blocks without successor (backward) and a few random plain nodes
    let plain_nodes: Vec<usize> = graph.node_indices().filter(|i| !dir.is_comb_node(&graph[*i])).map(|i| i.index()).collect();
    let has_cr = plain_nodes.len() != n;
    let mut starts: Vec<(usize, u8)> = Vec::new();
    for i in &plain_nodes {
        let entry = match (dir, graph[NodeIndex::new(*i)]) {
            (Dir::Fwd, Node::BlkStart(b, s)) => s.term.blocks.first().map(|f| f.tid == b.tid).unwrap_or(false),
            (Dir::Bwd, Node::BlkEnd(..)) => graph.neighbors_directed(NodeIndex::new(*i), petgraph::Incoming).next().is_none(),
            _ => false,
        };
        if (entry && rng.chance(2, 3)) || rng.chance(1, 12) {
            starts.push((*i, sparse(&mut rng)));
        }
    }
    if starts.is_empty() {
        starts.push((*rng.pick(&plain_nodes), sparse(&mut rng)));
    }
    rng.shuffle(&mut starts);
    // the orders offered by the wrapper must be permutations of all nodes
    let mut named_orders: Vec<(&str, Vec<usize>)> = Vec::new();
    for (name, f) in [("bottom-up", fwd::create_bottom_up_worklist as fn(&Graph) -> Vec<NodeIndex>), ("top-down", fwd::create_top_down_worklist as fn(&Graph) -> Vec<NodeIndex>)] {
        rep.eval();
        match guard(|| f(&graph)) {
            Err(msg) => rep.violation(format!("{}:{name}-worklist:panic:{}", dir.name(), site(&msg)), None, format!("create_{name}_worklist panicked: {msg}"), program_case(dir, gen_seed, salt, &graph, &[], None), n as u64),
            Ok(list) => {
                if !is_permutation(&list, n) {
                    rep.violation(
                        format!("{}:{name}-worklist:not-a-permutation", dir.name()),
                        None,
                        format!("the {name} worklist {:?} is not a permutation of the {n} graph nodes", list.iter().map(|x| x.index()).collect::<Vec<_>>()),
                        program_case(dir, gen_seed, salt, &graph, &[], None),
                        n as u64,
                    );
                } else {
                    named_orders.push((name, list.iter().map(|x| x.index()).collect()));
                }
            }
        }
    }
    let defaults: Vec<Option<u8>> = if rng.chance(1, 3) { vec![None, Some(sparse(&mut rng))] } else { vec![None] };
    for default in defaults {
        let mut init: Vec<Option<RV>> = vec![default.map(RV::V); n];
        for (i, v) in &starts {
            init[*i] = Some(RV::V(*v));
        }
        let lfp_vec = if default.is_some() && has_cr {
            None
        } else {
            match ref_solve(dir, &graph, &sem, &init) {
                Ok(v) => Some(v),
                Err(why) => {
                    rep.inconclusive(&format!("reference undefined: {why}"));
                    continue;
                }
            }
        };
        let wc = WCase { dir, gen_seed, graph: &graph, sem, starts: &starts, default, lfp: lfp_vec.as_deref() };
        let mut results: Vec<(&str, Vec<Option<RV>>)> = Vec::new();
        for which in ["default-order", "bottom-up", "top-down"] {
            if let Some(v) = wc.check_builtin(rep, which) {
                results.push((which, v));
            }
        }
        for w in results.windows(2) {
            if w[0].1 != w[1].1 {
                wc.fail(rep, "orders-disagree", &format!("{} vs {}", w[0].0, w[1].0), format!("{} gives {} but {} gives {}", w[0].0, rv_show(&w[0].1), w[1].0, rv_show(&w[1].1)));
            }
        }
        for (name, order) in &named_orders {
            wc.check_list(rep, name, order, true);
        }
        let mut perm: Vec<usize> = (0..n).collect();
        for i in 0..8 {
            match i {
                0 => (),
                1 => perm.reverse(),
                _ => rng.shuffle(&mut perm),
            }
            wc.check_list(rep, "random-permutation", &perm, i < 4);
        }
        if !track {
            continue;
        }
        rep.obs(&format!("{tag}:default:{}", if default.is_some() { "some" } else { "none" }));
        if let Some(lfp) = &lfp_vec {
            let valued: Vec<bool> = lfp.iter().map(|v| v.is_some()).collect();
            let mut plain = Vec::new();
            let mut blocked = Vec::new();
            for e in graph.edge_references() {
                plain.push((e.source().index(), e.target().index()));
                blocked.push(matches!(lfp[e.source().index()], Some(x) if matches!(ref_edge(dir, &graph, &sem, e.id(), x), Ok(None))));
                rep.obs(&format!("{tag}:edge:{}", e.weight()));
            }
            let (cyc, blk) = shape(n, &plain, &valued, &blocked);
            if cyc {
                rep.obs(&format!("{tag}:cycle-with-values"));
            }
            if blk {
                rep.obs(&format!("{tag}:blocked-edge-in-least-solution"));
            }
            if lfp.iter().any(|v| matches!(v, Some(RV::C(Some(_), Some(_))))) {
                rep.obs(&format!("{tag}:combinator-node-with-both-flows"));
            }
            if cyc && blk {
                let fp = mix(mix(fp_of(program), salt ^ dir as u64), mix(fp_of(&starts), default.map_or(0x100, |d| d as u64)));
                rep.nontrivial(fp);
                if rep.samples.is_empty() && n <= 10 && rng.chance(1, 6) {
                    rep.sample(json!({"kind":"program","direction": dir.name(), "nodes": graph.node_indices().map(|i| format!("{}:{}", i.index(), graph[i])).collect::<Vec<_>>(),
                        "edges": graph.edge_references().map(|e| format!("{}->{} {}", e.source().index(), e.target().index(), e.weight())).collect::<Vec<_>>(),
                        "starts": starts, "default": default, "least_solution(reference)": rv_show(lfp),
                        "observed(bottom-up)": results.iter().find(|r| r.0 == "bottom-up").map(|r| rv_show(&r.1))}));
                }
            }
        } else {
            rep.obs(&format!("{tag}:default-on-graph-with-combinator-nodes(no-panic-check-only)"));
        }
    }
    if track {
        rep.obs(&format!("{tag}:graph-nodes:{:02}x", n / 10));
    }
}

// ---------------------------------------------------------------------------

fn run(cfg: &Cfg) -> Report {
    // 256 shards: every fourth one runs workload B (alternating forward / backward), the others workload A
    let shards = 256usize;
    let per_a = cfg.tier.pick(600usize, 18000usize);
    let per_b = cfg.tier.pick(800usize, 24000usize);
    let mut rep = par_shards(cfg, "c07", shards, |idx, rng, rep| {
        if idx % 4 != 1 {
            for _ in 0..per_a {
                let p = gen_problem(rng);
                check_problem(&p, rng, rep, 200);
            }
        } else {
            for _ in 0..per_b {
                let (gen_seed, salt) = (rng.next_u64(), rng.next_u64());
                check_program(if (idx / 4) % 2 == 0 { Dir::Fwd } else { Dir::Bwd }, gen_seed, salt, rep, true);
            }
        }
    });
    rep.exhaustive_parts.push("all node priority permutations of every generated problem with at most 6 nodes".into());
    rep
}

fn replay(_cfg: &Cfg, case: &Value) -> Report {
    let mut rep = Report::new();
    match case["kind"].as_str().unwrap_or("") {
        "generic" => match Problem::from_json(&case["problem"]) {
            None => rep.note("cannot parse the stored problem"),
            Some(p) => {
                let lfp = reference(&p);
                let order: Option<Vec<usize>> = case["order"].as_array().map(|a| a.iter().filter_map(|x| x.as_u64().map(|v| v as usize)).collect());
                let valid = match &order {
                    None => true,
                    Some(o) => is_permutation(&o.iter().map(|i| NodeIndex::new(*i)).collect::<Vec<_>>(), p.n),
                };
                if valid {
                    (Judge { p: &p, lfp: &lfp, order: order.as_deref() }).check(&mut rep);
                } else {
                    rep.note("stored order is not a permutation");
                }
            }
        },
        "program" => match (case["gen_seed"].as_str().and_then(|s| s.parse::<u64>().ok()), case["salt"].as_str().and_then(|s| s.parse::<u64>().ok())) {
            (Some(gen_seed), Some(salt)) => {
                if case["generator_version"].as_u64() != Some(crate::GENERATOR_VERSION as u64) {
                    rep.note("the case was stored by another generator version; the regenerated program may differ");
                }
                check_program(if case["dir"].as_str() == Some("bwd") { Dir::Bwd } else { Dir::Fwd }, gen_seed, salt, &mut rep, false)
            }
            _ => rep.note("cannot parse the stored program case"),
        },
        _ => rep.note("unknown replay case kind"),
    }
    rep
}
