//! Size-consistency ("typing") walk over IR expressions, defs and jumps (used by C12, C10, C11).
//! Written from the P-Code size rules; does not call `Expression::bytesize`.

use cwe_checker_lib::intermediate_representation::*;

/// Computes the size of an expression bottom-up, collecting every inconsistency.
pub fn expr_size(e: &Expression, errs: &mut Vec<String>) -> Option<u64> {
    use BinOpType::*;
    match e {
        Expression::Var(v) => {
            if u64::from(v.size) == 0 {
                errs.push(format!("variable {v} has size 0"));
            }
            Some(u64::from(v.size))
        }
        Expression::Const(bv) => {
            let bits = apint::Width::width(bv).to_usize() as u64;
            if bits % 8 != 0 {
                errs.push(format!("constant with bit width {bits}"));
            }
            Some(bits / 8)
        }
        Expression::Unknown { size, .. } => Some(u64::from(*size)),
        Expression::BinOp { op, lhs, rhs } => {
            let l = expr_size(lhs, errs);
            let r = expr_size(rhs, errs);
            let (l, r) = (l?, r?);
            match op {
                Piece => Some(l + r),
                IntLeft | IntRight | IntSRight => Some(l),
                IntEqual | IntNotEqual | IntLess | IntSLess | IntLessEqual | IntSLessEqual | IntCarry | IntSCarry
                | IntSBorrow | FloatEqual | FloatNotEqual | FloatLess | FloatLessEqual => {
                    if l != r {
                        errs.push(format!("operands of {op:?} have sizes {l} and {r} in {e}"));
                    }
                    Some(1)
                }
                BoolXOr | BoolAnd | BoolOr => {
                    if l != r {
                        errs.push(format!("operands of {op:?} have sizes {l} and {r} in {e}"));
                    }
                    if l != 1 || r != 1 {
                        errs.push(format!("boolean operation {op:?} on operands of size {l}/{r} in {e}"));
                    }
                    Some(1)
                }
                IntAdd | IntSub | IntXOr | IntAnd | IntOr | IntMult | IntDiv | IntRem | IntSDiv | IntSRem | FloatAdd
                | FloatSub | FloatMult | FloatDiv => {
                    if l != r {
                        errs.push(format!("operands of {op:?} have sizes {l} and {r} in {e}"));
                    }
                    Some(l)
                }
            }
        }
        Expression::UnOp { op, arg } => {
            let a = expr_size(arg, errs)?;
            match op {
                UnOpType::FloatNaN => Some(1),
                UnOpType::BoolNegate => {
                    if a != 1 {
                        errs.push(format!("BoolNegate on operand of size {a} in {e}"));
                    }
                    Some(a)
                }
                _ => Some(a),
            }
        }
        Expression::Cast { op, size, arg } => {
            let a = expr_size(arg, errs)?;
            let s = u64::from(*size);
            if matches!(op, CastOpType::IntZExt | CastOpType::IntSExt) && s < a {
                errs.push(format!("{op:?} to size {s} of an operand of size {a} in {e}"));
            }
            if s == 0 {
                errs.push(format!("cast to size 0 in {e}"));
            }
            Some(s)
        }
        Expression::Subpiece { low_byte, size, arg } => {
            let a = expr_size(arg, errs)?;
            let (lo, s) = (u64::from(*low_byte), u64::from(*size));
            if s == 0 || lo + s > a {
                errs.push(format!("subpiece [{lo},{lo}+{s}) of an operand of size {a} in {e}"));
            }
            Some(s)
        }
    }
}

pub fn check_def(def: &Term<Def>, pointer_size: u64, errs: &mut Vec<String>) {
    let n0 = errs.len();
    match &def.term {
        Def::Assign { var, value } => {
            if let Some(s) = expr_size(value, errs) {
                if s != u64::from(var.size) {
                    errs.push(format!("assignment of a value of size {s} to {var}"));
                }
            }
        }
        Def::Load { var, address } => {
            if let Some(s) = expr_size(address, errs) {
                if s != pointer_size {
                    errs.push(format!("load address of size {s} (pointer size {pointer_size})"));
                }
            }
            if u64::from(var.size) == 0 {
                errs.push("load into variable of size 0".to_string());
            }
        }
        Def::Store { address, value } => {
            if let Some(s) = expr_size(address, errs) {
                if s != pointer_size {
                    errs.push(format!("store address of size {s} (pointer size {pointer_size})"));
                }
            }
            expr_size(value, errs);
        }
    }
    for e in errs[n0..].iter_mut() {
        *e = format!("def {}: {e}", def.tid);
    }
}

pub fn check_jmp(jmp: &Term<Jmp>, pointer_size: u64, errs: &mut Vec<String>) {
    let n0 = errs.len();
    match &jmp.term {
        Jmp::CBranch { condition, .. } => {
            if let Some(s) = expr_size(condition, errs) {
                if s != 1 {
                    errs.push(format!("branch condition of size {s}"));
                }
            }
        }
        Jmp::BranchInd(e) | Jmp::CallInd { target: e, .. } | Jmp::Return(e) => {
            if let Some(s) = expr_size(e, errs) {
                if s != pointer_size {
                    errs.push(format!("indirect target of size {s} (pointer size {pointer_size})"));
                }
            }
        }
        _ => (),
    }
    for e in errs[n0..].iter_mut() {
        *e = format!("jmp {}: {e}", jmp.tid);
    }
}

/// All size inconsistencies of a project. `check_jump_targets`: also demand pointer-sized indirect targets.
pub fn check_project(project: &Project, check_jump_targets: bool) -> Vec<String> {
    let mut errs = Vec::new();
    let ps = u64::from(project.stack_pointer_register.size);
    for sub in project.program.term.subs.values() {
        for blk in &sub.term.blocks {
            for def in &blk.term.defs {
                check_def(def, ps, &mut errs);
            }
            for jmp in &blk.term.jmps {
                match &jmp.term {
                    Jmp::CBranch { .. } => check_jmp(jmp, ps, &mut errs),
                    _ if check_jump_targets => check_jmp(jmp, ps, &mut errs),
                    Jmp::BranchInd(e) | Jmp::CallInd { target: e, .. } | Jmp::Return(e) => {
                        expr_size(e, &mut errs);
                    }
                    _ => (),
                }
            }
        }
    }
    errs
}
