//! Conversions between the reference value type `pref::V` and the crate's `Bitvector`.

use crate::pref::V;
use apint::Width;
use cwe_checker_lib::intermediate_representation::{Bitvector, ByteSize};

pub fn to_bv(v: V) -> Bitvector {
    let bits = (v.w * 8) as usize;
    let full = Bitvector::from_u128(v.v);
    if bits == 128 {
        full
    } else {
        full.into_truncate(bits).unwrap()
    }
}

pub fn from_bv(bv: &Bitvector) -> V {
    let bits = bv.width().to_usize();
    assert!(bits % 8 == 0 && bits <= 128, "unsupported bitvector width {bits}");
    let w = (bits / 8) as u32;
    let ext = if bits == 128 { bv.clone() } else { bv.clone().into_zero_extend(128).unwrap() };
    V::new(ext.try_to_u128().unwrap(), w)
}

pub fn bs(w: u32) -> ByteSize {
    ByteSize::new(w as u64)
}

pub fn bv_i(val: i64, w: u32) -> Bitvector {
    to_bv(V::from_i(val as i128, w))
}
