//! C25 — log collection delivers every message sent before collection.
//!
//! Monitor shape: *history recorded at the client boundary + offline checker*.
//! A random plan (2..=6 sender threads, 1..=30 messages each, pauses between the sends, a
//! collection mode) is executed against the real `LogThread` (`spawn`, `get_msg_sender`,
//! `collect`, collector `LogThread::collect_and_deduplicate`). Every sender stamps start and end of
//! each `send` from ONE atomic counter per history, the collecting side stamps the collect request
//! (before calling `collect`) and its return. The checker `check_history` then decides the recorded
//! history using only the property statement and the documentation of `log.rs`:
//!
//! * no phantoms / alterations / duplicates: every returned message equals a sent one, at most once;
//!   a message whose `send` reported failure, or whose send started after `collect` returned, is never returned;
//! * delivery: every address-less log whose send completed before the collect request is returned;
//!   a send that completed before the collect request never reports failure;
//! * order: returned address-less logs keep real-time order (`end(m1) < start(m2)` => m1 before m2;
//!   this includes each sender's own order);
//! * deduplication (documented for `collect_and_deduplicate`: same address of origin => only the last
//!   message received is kept; first address of a CWE warning): per address at most one message is
//!   kept, exactly one if some send for the address completed before the collect request, and the kept
//!   message k is a possible last one: no other message m' for the address with
//!   `end(k) < start(m')` and `end(m') < request`.
//!
//! The relative order of addressed messages / warnings in the output is not documented and therefore
//! only observed (histogram `output-order:*`), never judged.
//!
//! A second collector (`plain`: keep everything until `Terminate`) written here exercises
//! `spawn`/`collect` without deduplication; there every message kind must be delivered and ordered.
//!
//! `bin/logmon.rs c25 <histories> <seed>` runs the same generator + checker with small parameters so
//! that it can be executed under Miri (data races / UB in the channel, many more schedules); the
//! thorough tier runs it as a subprocess.

use crate::core::*;
use crate::prng::{mix, Rng};
use cwe_checker_lib::intermediate_representation::Tid;
use cwe_checker_lib::utils::log::{CweWarning, LogLevel, LogMessage, LogThread, LogThreadMsg};
use serde::{Deserialize, Serialize};
use serde_json::{json, Value};
use std::collections::{BTreeMap, HashSet};
use std::sync::atomic::{AtomicU64, Ordering};
use std::sync::{Arc, Barrier, Mutex};
use std::time::Duration;

pub fn info() -> CheckInfo {
    CheckInfo {
        id: "C25",
        rule: "one evaluation = one executed history (plan of 2..=6 sender threads x 1..=30 messages + optional messages of the collecting thread, executed against the real LogThread with collect() racing with or following the senders) judged by the offline checker; each plan is executed twice. non-trivial = at least two messages were returned and (collect raced with at least one send, or address-less logs of different senders are interleaved in the output); distinct = hash of (plan, returned message order). extra: histories, messages sent/returned, distinct output orders (sequence of sender indices of the returned logs and warnings), distinct stamp interleavings (sequence of sender indices of all send stamps and the collect request in clock order)",
        assumptions: &[
            "a send 'completed before collection was requested' iff its end stamp precedes the stamp taken immediately before LogThread::collect is called (one SeqCst counter per history)",
            "m1 definitely precedes m2 iff end(m1) < start(m2); concurrent sends may be received in either order",
            "deduplication is judged as documented at collect_and_deduplicate: logs by location address, CWE warnings by their first address; CWE warnings always carry at least one address (the collector panics by contract otherwise)",
            "the order of addressed logs and of warnings in the output is undocumented and not judged",
            "a collect() that does not return within 30 s (native) is reported as a hang",
            "Miri (thorough tier only): unavailable / build failure / timeout is inconclusive, not a verdict; leaks are ignored (-Zmiri-ignore-leaks)",
        ],
        run,
        replay,
    }
}

// ---------------------------------------------------------------------------
// Plans

/// Reporting addresses. Distinct strings are distinct addresses of origin for the collector: besides plain hex addresses
/// the address Ghidra prints for the external space, the `UNKNOWN` of artificial terms and a hex string of another
/// width that is numerically equal to the first entry.
pub const ADDRS: [&str; 5] = ["00401000", "00402000", "UNKNOWN", "EXTERNAL:00000010", "401000"];

#[derive(Clone, Debug, PartialEq, Eq, Serialize, Deserialize)]
pub enum Pause {
    None,
    Yield(u32),
    Spin(u32),
    SleepUs(u32),
}

#[derive(Clone, Debug, PartialEq, Eq, Serialize, Deserialize)]
pub enum MKind {
    /// log message without location
    General,
    /// log message located at `ADDRS[i]`
    LogAt(usize),
    /// CWE warning whose first address is `ADDRS[i]`, `extra` selects further addresses
    Cwe(usize, u8),
}

#[derive(Clone, Debug, PartialEq, Eq, Serialize, Deserialize)]
pub struct MsgPlan {
    pub kind: MKind,
    pub pause: Pause,
    pub variant: u8,
}

#[derive(Clone, Debug, PartialEq, Eq, Serialize, Deserialize)]
pub enum Mode {
    /// all senders are joined before collect()
    AfterJoin,
    /// collect() after these pauses, senders still running
    Concurrent(Vec<Pause>),
    /// the first k senders are joined, the others still run
    AfterSome(usize),
}

#[derive(Clone, Copy, Debug, PartialEq, Eq, Serialize, Deserialize)]
pub enum Collector {
    /// `LogThread::collect_and_deduplicate`
    Dedup,
    /// keep everything until Terminate (defined in this file)
    Plain,
}

#[derive(Clone, Debug, PartialEq, Eq, Serialize, Deserialize)]
pub struct Plan {
    pub threads: Vec<Vec<MsgPlan>>,
    /// messages sent by the collecting thread itself right before collect() (sender index = threads.len())
    pub main_msgs: Vec<MsgPlan>,
    pub mode: Mode,
    pub collector: Collector,
    /// true: the sender is a clone of a clone of the LogThread's sender
    pub cloned_twice: Vec<bool>,
}

#[derive(Clone, Copy, Debug)]
pub struct Params {
    pub min_threads: usize,
    pub max_threads: usize,
    pub max_msgs: usize,
    pub max_spin: u32,
    pub max_sleep_us: u32,
    pub max_main_msgs: usize,
}

pub const NATIVE: Params = Params { min_threads: 2, max_threads: 6, max_msgs: 30, max_spin: 4000, max_sleep_us: 400, max_main_msgs: 3 };
pub const MIRI: Params = Params { min_threads: 2, max_threads: 3, max_msgs: 4, max_spin: 6, max_sleep_us: 20, max_main_msgs: 2 };

fn random_pause(rng: &mut Rng, p: &Params) -> Pause {
    match rng.below(20) {
        0..=8 => Pause::None,
        9..=12 => Pause::Yield(1 + rng.below(3) as u32),
        13..=17 => Pause::Spin(1 + rng.below(p.max_spin as u64) as u32),
        _ => Pause::SleepUs(1 + rng.below(p.max_sleep_us as u64) as u32),
    }
}

fn random_msg(rng: &mut Rng, p: &Params, profile: u64) -> MsgPlan {
    // profile 0: mixed, 1: mostly address-less, 2: mostly addressed (few addresses => many overwrites)
    let r = rng.below(12);
    let kind = match (profile, r) {
        (1, 0..=8) | (0, 0..=4) | (2, 0..=1) => MKind::General,
        (_, x) if x % 2 == 0 => MKind::LogAt(rng.usize_below(ADDRS.len())),
        _ => MKind::Cwe(rng.usize_below(ADDRS.len()), rng.below(3) as u8),
    };
    MsgPlan { kind, pause: random_pause(rng, p), variant: rng.below(4) as u8 }
}

pub fn random_plan(rng: &mut Rng, p: &Params) -> Plan {
    let n = rng.range_usize(p.min_threads, p.max_threads);
    let profile = rng.below(3);
    let short = rng.chance(1, 3);
    let threads: Vec<Vec<MsgPlan>> = (0..n)
        .map(|_| {
            let k = if short { rng.range_usize(1, p.max_msgs.min(5)) } else { rng.range_usize(1, p.max_msgs) };
            (0..k).map(|_| random_msg(rng, p, profile)).collect()
        })
        .collect();
    let main_msgs = if rng.chance(1, 3) { (0..rng.range_usize(1, p.max_main_msgs)).map(|_| random_msg(rng, p, profile)).collect() } else { Vec::new() };
    let mode = match rng.below(10) {
        0..=2 => Mode::AfterJoin,
        3..=4 => Mode::AfterSome(rng.range_usize(1, n - 1)),
        _ => Mode::Concurrent((0..rng.usize_below(4)).map(|_| random_pause(rng, p)).collect()),
    };
    let collector = if rng.chance(1, 6) { Collector::Plain } else { Collector::Dedup };
    let cloned_twice = (0..n).map(|_| rng.chance(1, 3)).collect();
    Plan { threads, main_msgs, mode, collector, cloned_twice }
}

/// The message sender `t` sends as its `c`-th message.
pub fn make_msg(t: usize, c: usize, mp: &MsgPlan) -> LogThreadMsg {
    let text = format!("m:{t}:{c}");
    match &mp.kind {
        MKind::General | MKind::LogAt(_) => {
            let level = match mp.variant % 3 {
                0 => LogLevel::Debug,
                1 => LogLevel::Error,
                _ => LogLevel::Info,
            };
            let source = if mp.variant >= 2 { Some(format!("analysis{}", mp.variant)) } else { None };
            let location = match mp.kind {
                MKind::LogAt(a) => {
                    let mut tid = Tid::new(format!("instr_{}_{}_{}", ADDRS[a], mp.variant, t));
                    tid.address = ADDRS[a].to_string();
                    Some(tid)
                }
                _ => None,
            };
            LogThreadMsg::Log(LogMessage { text, level, location, source })
        }
        MKind::Cwe(a, extra) => {
            let addresses: Vec<String> = match extra {
                0 => vec![ADDRS[*a].to_string()],
                1 => vec![ADDRS[*a].to_string(), ADDRS[(*a + 1) % ADDRS.len()].to_string()],
                _ => vec![ADDRS[*a].to_string(), "0040ffff".to_string(), ADDRS[(*a + 2) % ADDRS.len()].to_string()],
            };
            let name = ["CWE476", "CWE119", "CWE416", "CWE476"][mp.variant as usize % 4];
            LogThreadMsg::Cwe(CweWarning::new(name, "0.1", text).addresses(addresses).tids(vec![format!("instr_{}_{}", ADDRS[*a], mp.variant)]))
        }
    }
}

fn do_pause(p: &Pause) {
    match p {
        Pause::None => (),
        Pause::Yield(k) => {
            for _ in 0..*k {
                std::thread::yield_now();
            }
        }
        Pause::Spin(n) => {
            for _ in 0..*n {
                std::hint::spin_loop();
            }
        }
        Pause::SleepUs(us) => std::thread::sleep(Duration::from_micros(*us as u64)),
    }
}

// ---------------------------------------------------------------------------
// Execution (records the history at the client boundary)

#[derive(Clone, Debug, PartialEq, Eq, Serialize, Deserialize)]
pub struct Rec {
    pub thread: usize,
    pub ctr: usize,
    pub start: u64,
    pub end: u64,
    pub ok: bool,
}

#[derive(Clone, Debug, Serialize, Deserialize)]
pub struct History {
    pub recs: Vec<Rec>,
    /// stamp taken immediately before `collect()` is called
    pub c_req: u64,
    /// stamp taken immediately after `collect()` returned
    pub c_ret: u64,
    pub logs: Vec<LogMessage>,
    pub cwes: Vec<CweWarning>,
}

fn plain_collector(receiver: crossbeam_channel::Receiver<LogThreadMsg>) -> (Vec<LogMessage>, Vec<CweWarning>) {
    let mut logs = Vec::new();
    let mut cwes = Vec::new();
    while let Ok(msg) = receiver.recv() {
        match msg {
            LogThreadMsg::Log(l) => logs.push(l),
            LogThreadMsg::Cwe(c) => cwes.push(c),
            LogThreadMsg::Terminate => break,
        }
    }
    (logs, cwes)
}

fn send_all(t: usize, msgs: &[MsgPlan], tx: &crossbeam_channel::Sender<LogThreadMsg>, clock: &AtomicU64) -> Vec<Rec> {
    let mut recs = Vec::with_capacity(msgs.len());
    for (c, mp) in msgs.iter().enumerate() {
        do_pause(&mp.pause);
        let msg = make_msg(t, c, mp);
        let start = clock.fetch_add(1, Ordering::SeqCst);
        let ok = tx.send(msg).is_ok();
        let end = clock.fetch_add(1, Ordering::SeqCst);
        recs.push(Rec { thread: t, ctr: c, start, end, ok });
    }
    recs
}

type Job = Box<dyn FnOnce() + Send + 'static>;

/// Persistent worker threads (one per sender slot + one for `collect()`), reused for all histories
/// of a shard: creating and destroying ~8 threads per history dominated the run time (address-space
/// operations of 16 concurrent shards serialise in the kernel). The collector thread of the
/// `LogThread` under test is of course still spawned per history by `LogThread::spawn`.
pub struct Pool {
    workers: Vec<(Option<std::sync::mpsc::Sender<Job>>, Option<std::thread::JoinHandle<()>>)>,
    /// set when a job hung: the threads are abandoned instead of joined
    poisoned: bool,
}

impl Pool {
    pub fn new(sender_slots: usize) -> Pool {
        let workers = (0..sender_slots + 1)
            .map(|_| {
                let (tx, rx) = std::sync::mpsc::channel::<Job>();
                let handle = std::thread::spawn(move || {
                    while let Ok(job) = rx.recv() {
                        job();
                    }
                });
                (Some(tx), Some(handle))
            })
            .collect();
        Pool { workers, poisoned: false }
    }
    fn slots(&self) -> usize {
        self.workers.len() - 1
    }
    fn run(&self, slot: usize, job: Job) {
        if let Some(tx) = &self.workers[slot].0 {
            let _ = tx.send(job);
        }
    }
}

impl Drop for Pool {
    fn drop(&mut self) {
        for w in self.workers.iter_mut() {
            w.0.take();
        }
        if !self.poisoned {
            for w in self.workers.iter_mut() {
                if let Some(h) = w.1.take() {
                    let _ = h.join();
                }
            }
        }
    }
}

/// Execute a plan once. `Err` = collect() hung or panicked (message says which).
pub fn execute(plan: &Arc<Plan>, pool: &mut Pool) -> Result<History, String> {
    let n = plan.threads.len();
    if n > pool.slots() || pool.poisoned {
        *pool = Pool::new(n.max(pool.slots()));
    }
    let clock = Arc::new(AtomicU64::new(1));
    let log_thread = match plan.collector {
        Collector::Dedup => LogThread::spawn(LogThread::collect_and_deduplicate),
        Collector::Plain => LogThread::spawn(plain_collector),
    };
    let barrier = Arc::new(Barrier::new(n + 1));
    let timeout = if cfg!(miri) { Duration::from_secs(3600) } else { Duration::from_secs(30) };
    let (res_tx, res_rx) = std::sync::mpsc::channel::<(usize, Vec<Rec>)>();
    for i in 0..n {
        let tx = {
            let s = log_thread.get_msg_sender();
            if plan.cloned_twice[i] {
                s.clone()
            } else {
                s
            }
        };
        let (plan, clock, barrier, res_tx) = (plan.clone(), clock.clone(), barrier.clone(), res_tx.clone());
        pool.run(
            i,
            Box::new(move || {
                barrier.wait();
                let r = send_all(i, &plan.threads[i], &tx, &clock);
                drop(tx);
                let _ = res_tx.send((i, r));
            }),
        );
    }
    drop(res_tx);
    barrier.wait();
    let mut recs: Vec<Rec> = Vec::new();
    let mut finished = vec![false; n];
    // "join" sender i = wait until it reports that all its sends returned and its sender is dropped
    let mut wait_for = |upto: usize, finished: &mut Vec<bool>, recs: &mut Vec<Rec>| -> Result<(), String> {
        while !finished[..upto].iter().all(|f| *f) {
            match res_rx.recv_timeout(timeout) {
                Ok((i, r)) => {
                    finished[i] = true;
                    recs.extend(r);
                }
                Err(_) => return Err("sender-hang".to_string()),
            }
        }
        Ok(())
    };
    let mut early: Result<(), String> = Ok(());
    match &plan.mode {
        Mode::AfterJoin => early = wait_for(n, &mut finished, &mut recs),
        Mode::AfterSome(k) => early = wait_for((*k).min(n), &mut finished, &mut recs),
        Mode::Concurrent(pauses) => {
            for p in pauses {
                do_pause(p);
            }
        }
    }
    if let Err(e) = early {
        pool.poisoned = true;
        return Err(e);
    }
    if !plan.main_msgs.is_empty() {
        let tx = log_thread.get_msg_sender();
        recs.extend(send_all(n, &plan.main_msgs, &tx, &clock));
    }
    // collect() on the helper thread so that a hang is observable
    let (rtx, rrx) = std::sync::mpsc::channel();
    let clock2 = clock.clone();
    pool.run(
        pool.slots(),
        Box::new(move || {
            let res = std::panic::catch_unwind(std::panic::AssertUnwindSafe(move || {
                let c_req = clock2.fetch_add(1, Ordering::SeqCst);
                let (logs, cwes) = log_thread.collect();
                let c_ret = clock2.fetch_add(1, Ordering::SeqCst);
                (c_req, c_ret, logs, cwes)
            }));
            let _ = rtx.send(res.map_err(|_| ()));
        }),
    );
    let outcome = match rrx.recv_timeout(timeout) {
        Ok(Ok(v)) => Ok(v),
        Ok(Err(())) => Err("panic".to_string()),
        Err(_) => {
            pool.poisoned = true;
            Err("hang".to_string())
        }
    };
    if let Err(e) = wait_for(n, &mut finished, &mut recs) {
        pool.poisoned = true;
        return Err(e);
    }
    let (c_req, c_ret, logs, cwes) = outcome?;
    recs.sort_by_key(|r| r.start);
    Ok(History { recs, c_req, c_ret, logs, cwes })
}

// ---------------------------------------------------------------------------
// Offline checker

#[derive(Clone, Debug)]
pub struct Finding {
    pub signature: String,
    pub detail: String,
}

fn parse_id(text: &str) -> Option<(usize, usize)> {
    let mut it = text.split(':');
    if it.next()? != "m" {
        return None;
    }
    let t = it.next()?.parse().ok()?;
    let c = it.next()?.parse().ok()?;
    if it.next().is_some() {
        return None;
    }
    Some((t, c))
}

fn msg_plan<'a>(plan: &'a Plan, t: usize, c: usize) -> Option<&'a MsgPlan> {
    if t < plan.threads.len() {
        plan.threads[t].get(c)
    } else if t == plan.threads.len() {
        plan.main_msgs.get(c)
    } else {
        None
    }
}

/// What the checker extracted from the output (for coverage statistics).
#[derive(Default, Debug)]
pub struct Facts {
    pub sent: usize,
    pub returned: usize,
    /// messages whose send had not completed when collect was requested
    pub not_completed_at_request: usize,
    /// returned although the send had not completed at the request
    pub returned_racing: usize,
    /// returned although the send *started* after the request
    pub returned_started_after_request: usize,
    /// sends that reported a disconnected channel
    pub failed_sends: usize,
    /// addressed messages overwritten by a later one
    pub overwritten: usize,
    /// sends that overlapped in time with the send of another thread
    pub overlapping: usize,
    /// sender indices of the returned logs, '|' , sender indices of the returned warnings
    pub order_sig: Vec<u8>,
    pub interleaved: bool,
    /// addressed logs first (sorted by address), then address-less logs; warnings sorted by first address
    pub documented_shape: bool,
}

/// Decide one recorded history. Pure function of (plan, history).
pub fn check_history(plan: &Plan, h: &History) -> (Vec<Finding>, Facts) {
    let mut out: Vec<Finding> = Vec::new();
    let mut facts = Facts::default();
    let mut fail = |sig: &str, detail: String| out.push(Finding { signature: sig.to_string(), detail });
    let dedup = plan.collector == Collector::Dedup;
    let recs: BTreeMap<(usize, usize), &Rec> = h.recs.iter().map(|r| ((r.thread, r.ctr), r)).collect();
    facts.sent = recs.len();
    facts.failed_sends = h.recs.iter().filter(|r| !r.ok).count();
    facts.not_completed_at_request = h.recs.iter().filter(|r| r.end > h.c_req).count();
    facts.overlapping = h.recs.iter().filter(|r| r.end != r.start + 1).count();

    // ---- identify every returned message
    // position in the respective output vector
    let mut log_pos: BTreeMap<(usize, usize), usize> = BTreeMap::new();
    let mut cwe_pos: BTreeMap<(usize, usize), usize> = BTreeMap::new();
    let identify = |is_cwe: bool, pos: usize, text: &str, rendered: String, equal: &dyn Fn(&LogThreadMsg) -> bool, fail: &mut dyn FnMut(&str, String)| -> Option<(usize, usize)> {
        let kind = if is_cwe { "warning" } else { "log" };
        let id = match parse_id(text) {
            Some(id) => id,
            None => {
                fail("phantom:unknown-message", format!("returned {kind} #{pos} `{rendered}` was never sent"));
                return None;
            }
        };
        let (mp, rec) = match (msg_plan(plan, id.0, id.1), recs.get(&id)) {
            (Some(mp), Some(rec)) => (mp, rec),
            _ => {
                fail("phantom:unknown-message", format!("returned {kind} #{pos} `{rendered}` was never sent"));
                return None;
            }
        };
        let sent = make_msg(id.0, id.1, mp);
        if !equal(&sent) {
            fail("phantom:altered-message", format!("returned {kind} #{pos} `{rendered}` differs from the message sent as m:{}:{} = {sent:?}", id.0, id.1));
            return None;
        }
        if !rec.ok {
            fail("phantom:returned-after-failed-send", format!("m:{}:{} was returned although its send reported a disconnected channel", id.0, id.1));
        }
        if rec.start > h.c_ret {
            fail("phantom:sent-after-collect-returned", format!("m:{}:{} was returned although its send started (stamp {}) after collect() had returned (stamp {})", id.0, id.1, rec.start, h.c_ret));
        }
        Some(id)
    };
    for (pos, l) in h.logs.iter().enumerate() {
        let l2 = l.clone();
        if let Some(id) = identify(false, pos, &l.text, format!("{l}"), &move |m| matches!(m, LogThreadMsg::Log(x) if *x == l2), &mut fail) {
            if log_pos.insert(id, pos).is_some() {
                fail("duplicate:log", format!("log m:{}:{} was returned twice", id.0, id.1));
            }
        }
    }
    for (pos, w) in h.cwes.iter().enumerate() {
        let w2 = w.clone();
        if let Some(id) = identify(true, pos, &w.description, format!("{w}"), &move |m| matches!(m, LogThreadMsg::Cwe(x) if *x == w2), &mut fail) {
            if cwe_pos.insert(id, pos).is_some() {
                fail("duplicate:warning", format!("warning m:{}:{} was returned twice", id.0, id.1));
            }
        }
    }
    facts.returned = log_pos.len() + cwe_pos.len();

    // ---- classes of sent messages
    // class key: None = must be delivered individually; Some((is_cwe, addr)) = deduplicated by address
    let class_of = |mp: &MsgPlan| -> Option<(bool, usize)> {
        if !dedup {
            return None;
        }
        match mp.kind {
            MKind::General => None,
            MKind::LogAt(a) => Some((false, a)),
            MKind::Cwe(a, _) => Some((true, a)),
        }
    };
    let is_returned = |id: &(usize, usize)| log_pos.contains_key(id) || cwe_pos.contains_key(id);
    let mut by_addr: BTreeMap<(bool, usize), Vec<&Rec>> = BTreeMap::new();
    for r in &h.recs {
        let mp = match msg_plan(plan, r.thread, r.ctr) {
            Some(mp) => mp,
            None => continue,
        };
        let id = (r.thread, r.ctr);
        let completed = r.end < h.c_req;
        if completed && !r.ok {
            fail("delivery:send-failed-before-collect", format!("send of m:{}:{} completed (stamp {}) before collect was requested (stamp {}) but reported a disconnected channel", id.0, id.1, r.end, h.c_req));
        }
        if is_returned(&id) {
            if !completed {
                facts.returned_racing += 1;
            }
            if r.start > h.c_req {
                facts.returned_started_after_request += 1;
            }
        }
        match class_of(mp) {
            None => {
                if completed && r.ok && !is_returned(&id) {
                    let what = match mp.kind {
                        MKind::General => "address-less log",
                        MKind::LogAt(_) => "log (plain collector)",
                        MKind::Cwe(..) => "warning (plain collector)",
                    };
                    fail(
                        "delivery:lost-message",
                        format!("{what} m:{}:{} was sent completely (end stamp {}) before collect was requested (stamp {}) but is not among the returned messages", id.0, id.1, r.end, h.c_req),
                    );
                }
            }
            Some(key) => by_addr.entry(key).or_default().push(r),
        }
    }

    // ---- order of individually delivered messages (real-time order)
    let order_check = |pos: &BTreeMap<(usize, usize), usize>, what: &str, fail: &mut dyn FnMut(&str, String)| {
        let items: Vec<(&Rec, usize)> = pos
            .iter()
            .filter_map(|(id, p)| {
                let r = recs.get(id)?;
                let mp = msg_plan(plan, id.0, id.1)?;
                if class_of(mp).is_none() {
                    Some((*r, *p))
                } else {
                    None
                }
            })
            .collect();
        for (r1, p1) in &items {
            for (r2, p2) in &items {
                if r1.end < r2.start && p1 > p2 {
                    let class = if r1.thread == r2.thread { "same-sender" } else { "real-time" };
                    fail(
                        &format!("order:{what}:{class}"),
                        format!(
                            "{what} m:{}:{} (send finished at stamp {}) precedes m:{}:{} (send started at stamp {}) but is returned at position {} after position {}",
                            r1.thread, r1.ctr, r1.end, r2.thread, r2.ctr, r2.start, p1, p2
                        ),
                    );
                    return;
                }
            }
        }
    };
    order_check(&log_pos, "log", &mut fail);
    if !dedup {
        order_check(&cwe_pos, "warning", &mut fail);
    }

    // ---- deduplicated classes
    for ((is_cwe, a), members) in &by_addr {
        let kind = if *is_cwe { "warning" } else { "log" };
        let kept: Vec<&&Rec> = members.iter().filter(|r| is_returned(&(r.thread, r.ctr))).collect();
        let completed: Vec<&&Rec> = members.iter().filter(|r| r.end < h.c_req && r.ok).collect();
        if kept.len() > 1 {
            fail(
                &format!("dedup:{kind}:several-kept"),
                format!("{} {kind}s for address {} were returned ({}), documented: only the last one is kept", kept.len(), ADDRS[*a], kept.iter().map(|r| format!("m:{}:{}", r.thread, r.ctr)).collect::<Vec<_>>().join(", ")),
            );
            continue;
        }
        if kept.is_empty() {
            if let Some(r) = completed.first() {
                fail(
                    &format!("dedup:{kind}:none-kept"),
                    format!("no {kind} for address {} was returned although e.g. m:{}:{} was sent completely (end stamp {}) before the collect request (stamp {})", ADDRS[*a], r.thread, r.ctr, r.end, h.c_req),
                );
            }
            continue;
        }
        let k = kept[0];
        facts.overwritten += members.len() - 1;
        if let Some(later) = completed.iter().find(|m| k.end < m.start) {
            fail(
                &format!("dedup:{kind}:not-the-last"),
                format!(
                    "for address {} the {kind} m:{}:{} (send finished at stamp {}) was kept, but m:{}:{} was sent after it (start stamp {}) and completely before the collect request (end stamp {} < {}); the last one must be kept",
                    ADDRS[*a], k.thread, k.ctr, k.end, later.thread, later.ctr, later.start, later.end, h.c_req
                ),
            );
        }
    }

    // ---- observations only: output order signature and shape
    let mut sig: Vec<u8> = Vec::new();
    let mut general_threads: Vec<usize> = Vec::new();
    for l in &h.logs {
        if let Some((t, _)) = parse_id(&l.text) {
            sig.push(t as u8);
            if l.location.is_none() {
                general_threads.push(t);
            }
        }
    }
    sig.push(0xff);
    for w in &h.cwes {
        if let Some((t, _)) = parse_id(&w.description) {
            sig.push(t as u8);
        }
    }
    facts.order_sig = sig;
    facts.interleaved = general_threads.windows(2).any(|w| w[0] > w[1]) || {
        // a sender's block is split by another sender
        let mut seen: Vec<usize> = Vec::new();
        let mut split = false;
        for w in general_threads.windows(2) {
            if w[0] != w[1] {
                if seen.contains(&w[1]) {
                    split = true;
                }
                seen.push(w[0]);
            }
        }
        split
    };
    if dedup {
        let first_general = h.logs.iter().position(|l| l.location.is_none()).unwrap_or(h.logs.len());
        let addressed: Vec<&str> = h.logs[..first_general].iter().filter_map(|l| l.location.as_ref().map(|t| t.address.as_str())).collect();
        let tail_ok = h.logs[first_general..].iter().all(|l| l.location.is_none());
        let sorted = addressed.windows(2).all(|w| w[0] < w[1]);
        let cwe_sorted = h.cwes.windows(2).all(|w| w[0].addresses.first() < w[1].addresses.first());
        facts.documented_shape = tail_ok && sorted && cwe_sorted;
    } else {
        facts.documented_shape = true;
    }
    (out, facts)
}

// ---------------------------------------------------------------------------
// Driving

fn plan_hash(plan: &Plan) -> u64 {
    crate::prng::hash_str(&serde_json::to_string(plan).unwrap_or_default())
}

fn stamp_interleaving(plan: &Plan, h: &History) -> u64 {
    // sequence of sender indices of all stamps in clock order, with the collect request/return
    let mut ev: Vec<(u64, u8)> = Vec::new();
    for r in &h.recs {
        ev.push((r.start, r.thread as u8));
        ev.push((r.end, r.thread as u8 | 0x40));
    }
    ev.push((h.c_req, 0xfe));
    ev.push((h.c_ret, 0xff));
    ev.sort();
    let mut x = plan.threads.len() as u64;
    for (_, t) in ev {
        x = mix(x, t as u64);
    }
    x
}

pub struct Shared {
    pub orders: Mutex<HashSet<u64>>,
    pub interleavings: Mutex<HashSet<u64>>,
}

impl Shared {
    pub fn new() -> Shared {
        Shared { orders: Mutex::new(HashSet::new()), interleavings: Mutex::new(HashSet::new()) }
    }
}

impl Default for Shared {
    fn default() -> Self {
        Shared::new()
    }
}

fn history_json(h: &History) -> Value {
    json!({
        "stamps": h.recs.iter().map(|r| json!([format!("m:{}:{}", r.thread, r.ctr), r.start, r.end, r.ok])).collect::<Vec<_>>(),
        "collect_requested": h.c_req,
        "collect_returned": h.c_ret,
        "returned_logs": h.logs.iter().map(|l| match &l.location { Some(t) => format!("{}@{}", l.text, t.address), None => l.text.clone() }).collect::<Vec<_>>(),
        "returned_warnings": h.cwes.iter().map(|w| format!("{}@{:?}", w.description, w.addresses)).collect::<Vec<_>>(),
    })
}

/// Execute `plan` once and judge it. Returns the output fingerprint (None if no output).
pub fn run_and_check(plan: &Arc<Plan>, pool: &mut Pool, rep: &mut Report, shared: &Shared) -> Option<u64> {
    rep.eval();
    let n_msgs: usize = plan.threads.iter().map(|t| t.len()).sum::<usize>() + plan.main_msgs.len();
    let case = |h: Option<&History>| json!({"kind": "history", "plan": &**plan, "recorded": h.map(history_json)});
    let coll = match plan.collector {
        Collector::Dedup => "collect_and_deduplicate",
        Collector::Plain => "plain",
    };
    let h = match guard(|| execute(plan, pool)) {
        Ok(Ok(h)) => h,
        Ok(Err(what)) => {
            rep.violation(
                format!("collect:{what}:{coll}"),
                None,
                format!("LogThread::collect() did not deliver a result ({what}) for a history of {n_msgs} messages; expected the collected messages"),
                case(None),
                n_msgs as u64,
            );
            return None;
        }
        Err(p) => {
            rep.violation(format!("collect:panic:{}", panic_site(&p)), None, format!("executing the history panicked: {p}"), case(None), n_msgs as u64);
            return None;
        }
    };
    let (findings, facts) = check_history(plan, &h);
    if !findings.is_empty() {
        rep.obs("histories:violating");
    }
    for f in findings {
        rep.violation(format!("{}:{coll}", f.signature), None, f.detail, case(Some(&h)), n_msgs as u64);
    }
    // ---- coverage
    rep.obs_n("histories", 1);
    rep.obs_n("messages:sent", facts.sent as u64);
    rep.obs_n("messages:returned", facts.returned as u64);
    rep.obs_n("messages:not-kept-by-deduplication", facts.overwritten as u64);
    rep.obs_n("messages:send-not-completed-at-collect-request", facts.not_completed_at_request as u64);
    rep.obs_n("messages:returned-though-send-raced-with-request", facts.returned_racing as u64);
    rep.obs_n("messages:returned-though-send-started-after-request", facts.returned_started_after_request as u64);
    rep.obs_n("messages:send-reported-disconnected", facts.failed_sends as u64);
    rep.obs_n("messages:send-overlapped-another-send-or-the-request", facts.overlapping as u64);
    rep.obs(&format!("collector:{coll}"));
    rep.obs(match &plan.mode {
        Mode::AfterJoin => "mode:collect-after-all-joined",
        Mode::AfterSome(_) => "mode:collect-after-some-joined",
        Mode::Concurrent(_) => "mode:collect-concurrent",
    });
    rep.obs(&format!("senders:{}", plan.threads.len()));
    if facts.not_completed_at_request > 0 {
        rep.obs("history:collect-raced-with-sends");
    }
    if facts.interleaved {
        rep.obs("history:address-less-logs-interleaved");
    }
    if plan.collector == Collector::Dedup {
        rep.obs(if facts.documented_shape { "output-order:addressed-by-address-then-address-less" } else { "output-order:other" });
    }
    let mut o = 0x25u64;
    for b in &facts.order_sig {
        o = mix(o, *b as u64);
    }
    let mut full = o;
    for l in &h.logs {
        full = mix(full, crate::prng::hash_str(&l.text));
    }
    for w in &h.cwes {
        full = mix(full, crate::prng::hash_str(&w.description));
    }
    shared.orders.lock().unwrap().insert(o);
    shared.interleavings.lock().unwrap().insert(stamp_interleaving(plan, &h));
    if facts.returned >= 2 && (facts.not_completed_at_request > 0 || facts.interleaved) {
        rep.nontrivial(mix(plan_hash(plan), full));
    }
    if rep.wants_sample() && facts.interleaved && facts.not_completed_at_request > 0 && n_msgs <= 12 && facts.overwritten > 0 {
        rep.sample(json!({"plan": &**plan, "recorded": history_json(&h), "verdict": "held"}));
    }
    Some(full)
}

/// Sub-workload with *non-unique* messages: identical address-less logs (same text, level, source) sent repeatedly by
/// 1..4 senders that are all joined before `collect()`. With identical payloads individual messages cannot be told
/// apart, so the oracle is a multiset one: for every text, returned count == sent count (every send completed before
/// collection, nothing may be lost or invented); with a single sender the returned sequence must equal the sent one.
/// (The main workload gives every message a unique id, which by construction never exercises equal neighbours.)
pub fn duplicate_text_history(rng: &mut Rng, rep: &mut Report) {
    let n_threads = rng.range_usize(1, 4);
    let texts = ["x", "y", "z"];
    let plans: Vec<Vec<usize>> = (0..n_threads)
        .map(|_| {
            let k = rng.range_usize(1, 12);
            let mut v = Vec::new();
            let mut cur = rng.usize_below(3);
            for _ in 0..k {
                if rng.chance(1, 3) {
                    cur = rng.usize_below(3);
                }
                v.push(cur);
            }
            v
        })
        .collect();
    let with_level = rng.bool();
    let log_thread = LogThread::spawn(LogThread::collect_and_deduplicate);
    let mk = |i: usize| LogThreadMsg::Log(LogMessage { text: texts[i].to_string(), level: if with_level { LogLevel::Info } else { LogLevel::Debug }, location: None, source: None });
    let handles: Vec<std::thread::JoinHandle<bool>> = plans
        .iter()
        .map(|p| {
            let tx = log_thread.get_msg_sender();
            let msgs: Vec<LogThreadMsg> = p.iter().map(|i| mk(*i)).collect();
            std::thread::spawn(move || {
                let mut ok = true;
                for m in msgs {
                    ok &= tx.send(m).is_ok();
                }
                ok
            })
        })
        .collect();
    let mut all_sent = true;
    for h in handles {
        all_sent &= h.join().unwrap_or(false);
    }
    let (logs, _cwes) = log_thread.collect();
    rep.eval();
    rep.obs("duplicate-text:histories");
    let case = json!({"kind": "duplicate-text", "plans": plans, "with_level": with_level});
    let returned: Vec<usize> = logs.iter().filter_map(|l| texts.iter().position(|t| *t == l.text)).collect();
    if !all_sent {
        rep.violation("duplicate-text:send-failed-before-collect", None, "a send on a live LogThread failed before collect() was called".to_string(), case, 1);
        return;
    }
    let size: u64 = plans.iter().map(|p| p.len() as u64).sum();
    for (i, t) in texts.iter().enumerate() {
        let sent = plans.iter().flatten().filter(|x| **x == i).count();
        let got = returned.iter().filter(|x| **x == i).count();
        if sent != got {
            rep.violation(
                if got < sent { "duplicate-text:lost-message" } else { "duplicate-text:invented-message" },
                None,
                format!("{sent} address-less logs with text {t:?} were sent (all sends completed before collect) but {got} were returned; sent per sender: {plans:?}, returned: {returned:?}"),
                case.clone(),
                size,
            );
        }
    }
    if n_threads == 1 && returned.len() == plans[0].len() && returned != plans[0] {
        rep.violation("duplicate-text:order", None, format!("single sender sent {:?} but {:?} was returned", plans[0], returned), case, size);
    }
    if plans.iter().any(|p| p.windows(2).any(|w| w[0] == w[1])) {
        rep.nontrivial(fp_of(&plans) ^ 0xd0b1e);
    }
}

fn run(cfg: &Cfg) -> Report {
    let shared = Shared::new();
    let shards = 128usize;
    let plans_per_shard = cfg.tier.pick(60usize, 1000usize);
    // Miri first (thorough only), concurrently with the native histories
    let miri = if cfg.tier == Tier::Thorough { Some(MiriRun::start(cfg, 3, cfg.seed, 0, 64)) } else { None };
    let mut rep = par_shards(cfg, "c25", shards, |_idx, rng, rep| {
        let mut pool = Pool::new(NATIVE.max_threads);
        for _ in 0..plans_per_shard {
            let plan = Arc::new(random_plan(rng, &NATIVE));
            let a = run_and_check(&plan, &mut pool, rep, &shared);
            let b = run_and_check(&plan, &mut pool, rep, &shared);
            if let (Some(a), Some(b)) = (a, b) {
                rep.obs(if a == b { "plan:same-output-in-both-executions" } else { "plan:different-output-in-the-two-executions" });
            }
        }
        for _ in 0..plans_per_shard / 4 {
            duplicate_text_history(rng, rep);
        }
    });
    let get = |rep: &Report, k: &str| rep.observed.get(k).copied().unwrap_or(0);
    rep.extra.insert("histories".into(), json!(get(&rep, "histories")));
    rep.extra.insert("messages_sent".into(), json!(get(&rep, "messages:sent")));
    rep.extra.insert("messages_returned".into(), json!(get(&rep, "messages:returned")));
    rep.extra.insert("distinct_output_orders".into(), json!(shared.orders.lock().unwrap().len()));
    rep.extra.insert("distinct_stamp_interleavings".into(), json!(shared.interleavings.lock().unwrap().len()));
    match miri {
        Some(m) => m.finish(cfg, &mut rep),
        None => {
            rep.extra.insert("miri".into(), json!("not run in the quick tier"));
        }
    }
    rep
}

fn replay(cfg: &Cfg, case: &Value) -> Report {
    let mut rep = Report::new();
    match case["kind"].as_str() {
        Some("history") => match serde_json::from_value::<Plan>(case["plan"].clone()) {
            Ok(plan) => {
                if plan.threads.is_empty() || plan.cloned_twice.len() != plan.threads.len() || plan.threads.len() > 64 {
                    rep.note("malformed plan in replay case");
                    return rep;
                }
                // schedules cannot be pinned: re-execute the plan many times, stop at the first violation
                let shared = Shared::new();
                let plan = Arc::new(plan);
                let mut pool = Pool::new(plan.threads.len());
                let n = 3000;
                for i in 0..n {
                    run_and_check(&plan, &mut pool, &mut rep, &shared);
                    if !rep.violations.is_empty() {
                        rep.note(format!("violation reproduced in re-execution {} of the plan", i + 1));
                        break;
                    }
                }
                if rep.violations.is_empty() {
                    rep.note(format!("{n} re-executions of the stored plan ({} distinct output orders) held; the recorded schedule itself cannot be pinned", shared.orders.lock().unwrap().len()));
                }
            }
            Err(e) => rep.note(format!("cannot parse replay plan: {e}")),
        },
        Some("duplicate-text") => {
            // re-execute histories of the same shape (schedules cannot be pinned)
            let mut rng = Rng::derive(cfg.seed, "c25-duplicate-replay", 0);
            for _ in 0..2000 {
                duplicate_text_history(&mut rng, &mut rep);
                if !rep.violations.is_empty() {
                    break;
                }
            }
        }
        Some("miri") => {
            let histories = case["histories"].as_u64().unwrap_or(3);
            let seed = case["seed"].as_u64().unwrap_or(1);
            let lo = case["miri_seeds"][0].as_u64().unwrap_or(0);
            let hi = case["miri_seeds"][1].as_u64().unwrap_or(8);
            MiriRun::start(cfg, histories, seed, lo, hi).finish(cfg, &mut rep);
        }
        _ => rep.note("unknown replay case kind"),
    }
    rep
}

// ---------------------------------------------------------------------------
// logmon entry point (small parameters, std threads only: runs under Miri)

/// `logmon c25 <histories> <seed>`; returns the process exit code.
pub fn logmon_main(args: &[String]) -> i32 {
    let histories: u64 = args.first().and_then(|s| s.parse().ok()).unwrap_or(3);
    let seed: u64 = args.get(1).and_then(|s| s.parse().ok()).unwrap_or(1);
    // small parameters by default (Miri is ~10^4 times slower); LOGMON_PARAMS=native selects the sizes of the native monitor
    let params = if std::env::var("LOGMON_PARAMS").as_deref() == Ok("native") { NATIVE } else { MIRI };
    let shared = Shared::new();
    let mut rep = Report::new();
    let mut rng = Rng::derive(seed, "logmon-c25", 0);
    let mut pool = Pool::new(params.max_threads);
    for _ in 0..histories {
        let plan = Arc::new(random_plan(&mut rng, &params));
        run_and_check(&plan, &mut pool, &mut rep, &shared);
    }
    drop(pool);
    let get = |k: &str| rep.observed.get(k).copied().unwrap_or(0);
    for (sig, v) in &rep.violations {
        println!("VIOLATION property=C25 signature={sig} detail={} case={}", v.detail, v.case);
    }
    println!(
        "logmon c25: histories={} messages_sent={} messages_returned={} raced={} distinct_output_orders={} violations={}",
        get("histories"),
        get("messages:sent"),
        get("messages:returned"),
        get("history:collect-raced-with-sends"),
        shared.orders.lock().unwrap().len(),
        rep.violations.len()
    );
    if rep.violations.is_empty() {
        0
    } else {
        1
    }
}

// ---------------------------------------------------------------------------
// Miri subprocess (thorough tier)

pub struct MiriRun {
    child: Option<std::process::Child>,
    out_path: std::path::PathBuf,
    histories: u64,
    seed: u64,
    seeds: (u64, u64),
    started: std::time::Instant,
    started_sys: std::time::SystemTime,
    error: Option<String>,
}

impl MiriRun {
    pub fn start(cfg: &Cfg, histories: u64, seed: u64, lo: u64, hi: u64) -> MiriRun {
        use std::os::unix::process::CommandExt;
        let target = cfg.harness_dir.join("target-miri");
        let _ = std::fs::create_dir_all(&target);
        let out_path = target.join(format!("logmon-c25-{}-{}.out", std::process::id(), seed));
        let mut run = MiriRun { child: None, out_path: out_path.clone(), histories, seed, seeds: (lo, hi), started: std::time::Instant::now(), started_sys: std::time::SystemTime::now(), error: None };
        let file = match std::fs::File::create(&out_path) {
            Ok(f) => f,
            Err(e) => {
                run.error = Some(format!("cannot create {out_path:?}: {e}"));
                return run;
            }
        };
        let file2 = match file.try_clone() {
            Ok(f) => f,
            Err(e) => {
                run.error = Some(format!("cannot clone output handle: {e}"));
                return run;
            }
        };
        let mut cmd = std::process::Command::new("cargo");
        cmd.current_dir(&cfg.harness_dir)
            .args(["+nightly", "miri", "run", "--offline", "--target-dir", "target-miri", "--bin", "logmon", "--", "c25"])
            .arg(histories.to_string())
            .arg(seed.to_string())
            .env("MIRIFLAGS", format!("-Zmiri-disable-isolation -Zmiri-ignore-leaks -Zmiri-many-seeds={lo}..{hi}"))
            .env("RUST_BACKTRACE", "0")
            .env("RUST_LIB_BACKTRACE", "0")
            .stdin(std::process::Stdio::null())
            .stdout(std::process::Stdio::from(file))
            .stderr(std::process::Stdio::from(file2))
            .process_group(0);
        match cmd.spawn() {
            Ok(c) => run.child = Some(c),
            Err(e) => run.error = Some(format!("cannot start cargo miri: {e}")),
        }
        run
    }

    /// Wait (generous timeout), classify the output and record it in `rep`.
    pub fn finish(mut self, cfg: &Cfg, rep: &mut Report) {
        let limit = Duration::from_secs(if cfg.tier == Tier::Thorough { 780 } else { 600 });
        let mut status: Option<std::process::ExitStatus> = None;
        let mut timed_out = false;
        if let Some(child) = self.child.as_mut() {
            loop {
                match child.try_wait() {
                    Ok(Some(s)) => {
                        status = Some(s);
                        break;
                    }
                    Ok(None) => {
                        if self.started.elapsed() > limit {
                            timed_out = true;
                            let pid = child.id();
                            let _ = std::process::Command::new("kill").args(["-KILL", &format!("-{pid}")]).status();
                            let _ = child.kill();
                            let _ = child.wait();
                            break;
                        }
                        std::thread::sleep(Duration::from_millis(200));
                    }
                    Err(e) => {
                        self.error = Some(format!("waiting for cargo miri failed: {e}"));
                        break;
                    }
                }
            }
        }
        let text = std::fs::read_to_string(&self.out_path).unwrap_or_default();
        // duration of the Miri run itself = last write to its output file (we may have waited for it much later)
        let wall = std::fs::metadata(&self.out_path)
            .and_then(|m| m.modified())
            .ok()
            .and_then(|t| t.duration_since(self.started_sys).ok())
            .map(|d| d.as_secs_f64())
            .unwrap_or_else(|| self.started.elapsed().as_secs_f64());
        let _ = std::fs::remove_file(&self.out_path);
        let case = json!({"kind": "miri", "histories": self.histories, "seed": self.seed, "miri_seeds": [self.seeds.0, self.seeds.1]});
        let tail = |n: usize| -> String {
            let lines: Vec<&str> = text.lines().collect();
            lines[lines.len().saturating_sub(n)..].join("\n")
        };
        let ok_runs = text.lines().filter(|l| l.starts_with("logmon c25:") && l.ends_with("violations=0")).count();
        let mut summary = json!({"miri_seeds": [self.seeds.0, self.seeds.1], "histories_per_seed": self.histories, "seed": self.seed, "clean_runs": ok_runs, "wall_s": (wall * 10.0).round() / 10.0});
        let mut verdict = "clean";
        // --- verdict lines
        let mut found = false;
        for l in text.lines() {
            let t = l.trim();
            if let Some(rest) = t.strip_prefix("VIOLATION property=C25 signature=") {
                let sig = rest.split(" detail=").next().unwrap_or("history");
                rep.violation(format!("miri:history:{sig}"), None, format!("under Miri: {}", rest.chars().take(1500).collect::<String>()), case.clone(), 5);
                found = true;
            } else if t.starts_with("error: Undefined Behavior") {
                let what = t.trim_start_matches("error: Undefined Behavior:").trim();
                let class = if what.contains("Data race") { "data-race".to_string() } else { what.split(|c: char| !c.is_alphanumeric() && c != ' ').next().unwrap_or("ub").trim().replace(' ', "-").chars().take(40).collect() };
                rep.violation(format!("miri:ub:{class}"), None, format!("Miri reports undefined behaviour while running C25 histories: {t}\n{}", tail(40)), case.clone(), 1);
                found = true;
            } else if t.starts_with("error: deadlock") || t.starts_with("error: the evaluated program deadlocked") {
                rep.violation("miri:deadlock", None, format!("Miri reports a deadlock while running C25 histories: {t}\n{}", tail(40)), case.clone(), 2);
                found = true;
            }
        }
        if found {
            verdict = "violation";
        } else if let Some(e) = &self.error {
            rep.inconclusive("miri:unavailable");
            rep.note(format!("Miri run not possible: {e}"));
            verdict = "unavailable";
        } else if timed_out {
            rep.inconclusive("miri:timeout");
            rep.note(format!("Miri run exceeded {} s and was killed ({} clean seed runs before that)", limit.as_secs(), ok_runs));
            verdict = "timeout";
        } else if !status.map(|s| s.success()).unwrap_or(false) {
            let reason = if text.contains("unsupported operation") {
                "miri:unsupported-operation"
            } else if text.contains("could not compile") || text.contains("error[E") {
                "miri:build-failed"
            } else if text.contains("is not installed") || text.contains("no such command") || text.contains("not installed") {
                "miri:unavailable"
            } else {
                "miri:failed-without-diagnosis"
            };
            rep.inconclusive(reason);
            rep.note(format!("Miri run ended with {status:?} ({reason}); last output:\n{}", tail(15)));
            verdict = "inconclusive";
        } else {
            rep.evals(ok_runs as u64 * self.histories);
            rep.obs_n("miri:clean-seed-runs", ok_runs as u64);
        }
        summary["verdict"] = json!(verdict);
        rep.extra.insert("miri".into(), summary);
    }
}
