//! C23 — results do not depend on hashing or scheduling.
//!
//! Each generated input is analysed several times by the real CLI in fresh processes (fresh
//! `RandomState` seeds), alternately pinned to one CPU and free to use all CPUs, with the same
//! `--partial` list in shuffled order. The `--json --quiet` output must be byte-identical.

use crate::c21::*;
use crate::core::*;
use crate::prng::{hash_str, mix, Rng};
use serde_json::{json, Value};

pub fn info() -> CheckInfo {
    CheckInfo {
        id: "C23",
        rule: "generated inputs biased towards order sensitivity (jumps into blocks of other functions so that blocks are duplicated per function, blocks listed in two functions, many extern symbols, several allocation/taint sources per function, loops with unknown bounds (widening), Ghidra-style reuse of few temporary names, many TIDs with a common prefix) analysed 6 (quick) / 24 (thorough) times in fresh processes: odd runs pinned to a single CPU with taskset, even runs unpinned; selection = default, all checks, or a random --partial list whose order is reshuffled for every run. Oracle: exit status and --json --quiet stdout of every run byte-identical to the first run. non-trivial = all runs finished, the output contains >= 1 warning; distinct = hash of (P-Code JSON, selection)",
        assumptions: &[
            "the hash seeds of a process cannot be pinned from outside: a violation is a witnessed difference, its replay re-runs the stored input n times and reports 'k of n runs differ'; absence of a difference in n runs is not a proof of determinism",
            "runs that hit the 60 s watchdog make the input inconclusive",
        ],
        run,
        replay,
    }
}

fn gen_opts(rng: &mut Rng) -> GenOpts {
    let kind = match rng.below(10) {
        0..=4 => ElfKind::Exec,
        5..=7 => ElfKind::Pie,
        _ => ElfKind::Lkm,
    };
    GenOpts { kind, order_bias: true, trigger_bias: rng.bool(), debug_sections: rng.chance(1, 5) }
}

/// The selection of one input: None = default; Some(list) = --partial with these names (order reshuffled per run).
fn pick_selection(rng: &mut Rng, env: &CliEnv, lkm: bool) -> Option<Vec<String>> {
    let names: Vec<String> = if lkm {
        env.names().into_iter().filter(|n| cwe_checker_lib::checkers::MODULES_LKM.contains(&n.as_str())).collect()
    } else {
        env.names()
    };
    match rng.below(4) {
        0 => None,
        1 | 2 => Some(names),
        _ => {
            let mut v: Vec<String> = names.iter().filter(|_| rng.bool()).cloned().collect();
            for h in ["CWE119", "CWE416", "CWE476", "CWE252", "CWE78", "Memory"] {
                if rng.chance(1, 3) && names.iter().any(|n| n == h) && !v.iter().any(|n| n == h) {
                    v.push(h.to_string());
                }
            }
            if v.is_empty() {
                v.push(names[0].clone());
            }
            Some(v)
        }
    }
}

struct Outcome {
    /// names of all warnings in the symmetric differences (first run vs. every differing run)
    diff_names: std::collections::BTreeSet<String>,
    /// a difference that is not a set difference of well-formed warnings (exit status, order, non-JSON)
    other_diff: bool,
    differing: usize,
    completed: usize,
    first_diff: Option<String>,
    warnings_in_first: usize,
}

/// Describe the first difference between two outputs (by warning).
fn describe_diff(a: &[u8], b: &[u8]) -> String {
    let pa: Option<Vec<Value>> = serde_json::from_slice::<Value>(a).ok().and_then(|v| v.as_array().cloned());
    let pb: Option<Vec<Value>> = serde_json::from_slice::<Value>(b).ok().and_then(|v| v.as_array().cloned());
    match (pa, pb) {
        (Some(x), Some(y)) => {
            let only_a: Vec<String> = x.iter().filter(|w| !y.contains(w)).take(2).map(|w| w.to_string().chars().take(300).collect()).collect();
            let only_b: Vec<String> = y.iter().filter(|w| !x.contains(w)).take(2).map(|w| w.to_string().chars().take(300).collect()).collect();
            if only_a.is_empty() && only_b.is_empty() {
                format!("same {} warnings in a different order / multiplicity ({} vs {})", x.len(), x.len(), y.len())
            } else {
                format!("{} vs {} warnings; only in first run: {only_a:?}; only in other run: {only_b:?}", x.len(), y.len())
            }
        }
        _ => format!("outputs of {} and {} bytes, at least one is not a JSON array", a.len(), b.len()),
    }
}

/// Names of the warnings that are in exactly one of the two outputs (None: an output is not a JSON array).
fn sym_diff_names(a: &[u8], b: &[u8]) -> Option<Vec<String>> {
    let pa = serde_json::from_slice::<Value>(a).ok()?.as_array()?.clone();
    let pb = serde_json::from_slice::<Value>(b).ok()?.as_array()?.clone();
    let mut names = Vec::new();
    for w in pa.iter().filter(|w| !pb.contains(w)).chain(pb.iter().filter(|w| !pa.contains(w))) {
        names.push(w["name"].as_str().unwrap_or("?").to_string());
    }
    Some(names)
}

/// Known-finding key: expression propagation substitutes the entries of a HashMap one after the other
/// (`propagate_input_expressions`, Load/Store/jump arms); when an entry's expression mentions a variable that
/// is itself a key (possible once an expression reaches recursion depth 10) the resulting Store value is
/// either `f(B)` or `f(g(..))` depending on the iteration order, and CWE190's syntactic
/// "block contains a multiplication" test sees the multiplication only in the second form.
pub const KNOWN_EXPRPROP_CWE190: &str = "c23-expression-propagation-hash-order-reaches-cwe190";

/// Discriminator: every warning that is present in one run and absent in another is a CWE190 warning
/// and there is no other kind of difference (exit status, order, malformed output).
fn is_known_cwe190(oc: &Outcome) -> bool {
    oc.differing > 0 && !oc.other_diff && oc.diff_names.len() == 1 && oc.diff_names.contains("CWE190")
}

fn class_of(oc: &Outcome, fallback: &str) -> String {
    if oc.other_diff || oc.diff_names.is_empty() {
        fallback.to_string()
    } else {
        oc.diff_names.iter().cloned().collect::<Vec<_>>().join("+")
    }
}

fn diff_class(a: &[u8], b: &[u8]) -> String {
    let names = |x: &[u8]| -> Option<Vec<Value>> { serde_json::from_slice::<Value>(x).ok().and_then(|v| v.as_array().cloned()) };
    match (names(a), names(b)) {
        (Some(x), Some(y)) => {
            let d = x.iter().find(|w| !y.contains(w)).or_else(|| y.iter().find(|w| !x.contains(w)));
            match d {
                Some(w) => w["name"].as_str().unwrap_or("?").to_string(),
                None => "order".to_string(),
            }
        }
        _ => "not-json".to_string(),
    }
}

#[allow(clippy::too_many_arguments)]
fn repeat_runs(env: &CliEnv, files: &InputFiles, selection: &Option<Vec<String>>, n: usize, cpu: usize, stop_at: Option<(&Cfg, f64)>, rng: &mut Rng, rep: &mut Report) -> (Outcome, Option<(String, String)>) {
    let mut first: Option<(Option<i32>, Vec<u8>)> = None;
    let mut oc = Outcome { diff_names: Default::default(), other_diff: false, differing: 0, completed: 0, first_diff: None, warnings_in_first: 0 };
    let mut sig: Option<(String, String)> = None;
    for j in 0..n {
        if let Some((cfg, limit)) = stop_at {
            if j >= 2 && cfg.elapsed_s() > limit {
                // out of wall-clock budget: judge what was run, the input does not count as a completed case
                rep.obs("input-abandoned-at-hard-deadline");
                break;
            }
        }
        let mut args: Vec<String> = Vec::new();
        if let Some(list) = selection {
            let mut l = list.clone();
            if j > 0 {
                rng.shuffle(&mut l);
            }
            args = vec!["--partial".into(), l.join(",")];
        }
        let opts = RunOpts { cpu: if j % 2 == 1 { Some(cpu) } else { None }, ..Default::default() };
        let out = run_cli(env, files, &args, &opts);
        rep.eval();
        if out.timed_out || out.spawn_error.is_some() {
            rep.inconclusive(if out.timed_out { "watchdog" } else { "spawn-error" });
            continue;
        }
        oc.completed += 1;
        match &first {
            None => {
                oc.warnings_in_first = serde_json::from_slice::<Value>(&out.stdout).ok().and_then(|v| v.as_array().map(|a| a.len())).unwrap_or(0);
                first = Some((out.exit, out.stdout));
            }
            Some((exit0, out0)) => {
                if *exit0 != out.exit || *out0 != out.stdout {
                    oc.differing += 1;
                    match (*exit0 == out.exit, sym_diff_names(out0, &out.stdout)) {
                        (true, Some(names)) if !names.is_empty() => oc.diff_names.extend(names),
                        _ => oc.other_diff = true,
                    }
                    if oc.first_diff.is_none() {
                        let d = if *exit0 != out.exit { format!("exit status {exit0:?} vs {:?}", out.exit) } else { describe_diff(out0, &out.stdout) };
                        oc.first_diff = Some(format!("run #{j} ({}) differs from run #0: {d}", if j % 2 == 1 { "pinned to one CPU" } else { "unpinned" }));
                        let class = if *exit0 != out.exit { "exit-status".to_string() } else { diff_class(out0, &out.stdout) };
                        sig = Some((class, args.join(" ")));
                    }
                }
            }
        }
    }
    (oc, sig)
}

fn check_input(cfg: &Cfg, env: &CliEnv, inp: &Input, n: usize, cpu: usize, ir_probe: bool, rng: &mut Rng, rep: &mut Report) {
    let hard = cfg.tier.pick(50.0, 800.0);
    let files = match write_input(&inp.pcode, &inp.elf) {
        Ok(f) => f,
        Err(e) => {
            rep.inconclusive(&format!("harness:{e}"));
            return;
        }
    };
    let selection = pick_selection(rng, env, inp.kind == ElfKind::Lkm);
    let (oc, sig) = repeat_runs(env, &files, &selection, n, cpu, Some((cfg, hard)), rng, rep);
    let mode = match &selection {
        None => "default",
        Some(l) if l.len() >= env.modules.len() => "all",
        Some(_) => "partial",
    };
    rep.obs(&format!("input:{mode}:{:?}", inp.kind));
    if oc.differing > 0 {
        let (class, _) = sig.unwrap_or_default();
        let class = class_of(&oc, &class);
        let mut case = input_case(inp);
        case["selection"] = json!(selection);
        case["runs"] = json!(n.max(12));
        rep.violation(
            format!("output-differs:{class}"),
            if is_known_cwe190(&oc) { Some(KNOWN_EXPRPROP_CWE190) } else { None },
            format!("{} of {} runs printed an output different from the first run ({mode} selection). {}", oc.differing, oc.completed, oc.first_diff.unwrap_or_default()),
            case,
            inp.pcode.len() as u64,
        );
    } else if oc.completed == n && oc.warnings_in_first > 0 {
        let sel = selection.as_ref().map(|l| {
            let mut s = l.clone();
            s.sort();
            s.join(",")
        });
        rep.nontrivial(mix(hash_str(&inp.pcode), hash_str(&sel.unwrap_or_default())));
        if rep.wants_sample() {
            rep.sample(json!({"kind": format!("{:?}", inp.kind), "functions": inp.n_subs, "blocks": inp.n_blocks, "loops": inp.loops, "features": inp.features, "selection": selection, "runs": n, "identical_outputs": true, "warnings": oc.warnings_in_first}));
        }
    }
    // diagnostic (no verdict): is the optimised IR itself identical across processes?
    if ir_probe && cfg.elapsed_s() < hard - 8.0 {
        let mut outs: Vec<Vec<u8>> = Vec::new();
        for _ in 0..3 {
            let o = run_cli(env, &files, &["--debug".to_string(), "ir-opt".to_string()], &RunOpts::default());
            if !o.timed_out && o.spawn_error.is_none() {
                outs.push(o.stdout);
            }
        }
        if outs.len() == 3 {
            if outs[0] == outs[1] && outs[1] == outs[2] {
                rep.obs("diagnostic:optimised-IR-identical-in-3-processes");
            } else {
                rep.obs("diagnostic:optimised-IR-differs-between-processes");
                if oc.differing == 0 && oc.warnings_in_first > 0 {
                    rep.obs("diagnostic:IR-differs-but-warnings-identical");
                }
            }
        }
    }
    for f in ["long-expression-chain", "jump-into-other-function", "block-listed-in-two-functions", "while", "do-while", "alloc", "recursion", "switch"] {
        if inp.features.contains(f) {
            rep.obs(&format!("feature:{f}"));
        }
    }
}

// ---------------------------------------------------------------------------------------------
// In-process repetition: the same library pipeline the CLI runs (disassemble_binary with the saved P-Code, CFG,
// function signatures, pointer inference, every check except CWE78) executed several times in THIS process.
// Every `HashMap`/`HashSet` instance gets its own `RandomState`, so iteration orders differ between repetitions
// just as they differ between processes - at a fraction of the cost of a process spawn, which buys many more inputs.

fn shipped_config(lkm: bool) -> Option<Value> {
    let path = if lkm { "/repo/src/lkm_config.json" } else { "/repo/src/config.json" };
    serde_json::from_str(&std::fs::read_to_string(path).ok()?).ok()
}

/// One in-process analysis; returns the sorted warnings rendered as JSON text.
fn inprocess_analyse(elf: &std::path::Path, pcode: &std::path::Path) -> Result<String, String> {
    use cwe_checker_lib::analysis::graph;
    use cwe_checker_lib::pipeline::{disassemble_binary, AnalysisResults};
    use cwe_checker_lib::utils::debug;
    let settings = debug::SettingsBuilder::default()
        .set_verbosity(debug::Verbosity::Quiet)
        .set_saved_pcode_raw(pcode.to_path_buf())
        .build();
    let (binary, project, _logs) = disassemble_binary(elf, None, &settings).map_err(|e| format!("disassemble_binary: {e}"))?;
    let lkm = project.runtime_memory_image.is_lkm;
    let config = shipped_config(lkm).ok_or("cannot read the shipped configuration")?;
    let mut modules = cwe_checker_lib::get_modules();
    if lkm {
        modules.retain(|m| cwe_checker_lib::checkers::MODULES_LKM.contains(&m.name));
    } else {
        modules.retain(|m| m.name != "CWE78");
    }
    let (cfg_graph, _l) = graph::get_program_cfg_with_logs(&project.program);
    let ar = AnalysisResults::new(&binary, &cfg_graph, &project);
    let (sigs, _l) = ar.compute_function_signatures();
    let ar = ar.with_function_signatures(Some(&sigs));
    let pi = ar.compute_pointer_inference(&config["Memory"], false);
    let ar = ar.with_pointer_inference(Some(&pi));
    let mut all = Vec::new();
    for m in modules {
        let (_logs, mut cwes) = (m.run)(&ar, &config[&m.name]);
        all.append(&mut cwes);
    }
    all.sort();
    serde_json::to_string(&all).map_err(|e| e.to_string())
}

fn inprocess_check(inp: &Input, reps: usize, rep: &mut Report) {
    let files = match write_input(&inp.pcode, &inp.elf) {
        Ok(f) => f,
        Err(e) => {
            rep.inconclusive(&format!("harness:{e}"));
            return;
        }
    };
    let mut first: Option<String> = None;
    let mut worker = BoundedWorker::new();
    for k in 0..reps {
        rep.eval();
        if ABANDONED_THREADS.load(std::sync::atomic::Ordering::SeqCst) >= ABANDONED_CAP {
            rep.inconclusive("inprocess:skipped-after-repeated-non-termination");
            return;
        }
        // on a helper thread with a CPU-time bound: a pipeline that does not terminate is C21 material, but must not hang this check
        let (elf, pcode) = (std::path::PathBuf::from(&files.elf), std::path::PathBuf::from(&files.pcode));
        let res = match worker.run(30_000, move || guard(|| inprocess_analyse(&elf, &pcode))) {
            Bounded::Done(r) => r,
            Bounded::Hang { .. } => {
                rep.inconclusive("inprocess:no-termination-within-30s-cpu");
                return;
            }
            Bounded::Starved | Bounded::Died => {
                rep.inconclusive("inprocess:helper-thread-lost");
                return;
            }
        };
        match res {
            Ok(Ok(out)) => match &first {
                None => first = Some(out),
                Some(f) if *f != out => {
                    let names = |s: &str| -> std::collections::BTreeSet<String> {
                        serde_json::from_str::<Value>(s).ok().and_then(|v| v.as_array().cloned()).unwrap_or_default().iter().map(|w| w.to_string()).collect()
                    };
                    let (a, b) = (names(f), names(&out));
                    let diff: Vec<String> = a.symmetric_difference(&b).map(|w| serde_json::from_str::<Value>(w).ok().and_then(|v| v["name"].as_str().map(|s| s.to_string())).unwrap_or_default()).collect();
                    let mut kinds: Vec<String> = diff.clone();
                    kinds.sort();
                    kinds.dedup();
                    let what = if kinds.is_empty() { "order".to_string() } else { kinds.join("+") };
                    rep.violation(
                        format!("inprocess:output-differs:{what}"),
                        None,
                        format!("repetition {k} of the in-process pipeline on the same input produced different warnings than repetition 0 (differing warnings: {diff:?})"),
                        {
                            let mut c = input_case(inp);
                            c["mode"] = json!("inprocess");
                            c
                        },
                        inp.pcode.len() as u64,
                    );
                    return;
                }
                _ => (),
            },
            Ok(Err(e)) => {
                rep.inconclusive(&format!("inprocess:pipeline-error:{}", e.chars().take(40).collect::<String>()));
                return;
            }
            Err(p) => {
                // crashes are C21 material
                rep.inconclusive(&format!("inprocess:panic:{}", panic_site(&p)));
                return;
            }
        }
    }
    rep.obs("inprocess:inputs-compared");
    if first.as_deref().map(|f| f.len() > 2).unwrap_or(false) {
        rep.nontrivial(hash_str(&inp.pcode) ^ 0x1b9c);
    }
}

fn run(cfg: &Cfg) -> Report {
    let mut rep = run_cli_part(cfg);
    // in-process part afterwards (cheap, bounded by its own wall-clock budget; skipped inputs are counted)
    let ip_shards = cfg.tier.pick(32usize, 256usize);
    let ip_per_shard = cfg.tier.pick(8usize, 24usize);
    let ip_reps = cfg.tier.pick(5usize, 12usize);
    let ip_budget = deadline_s(cfg) + cfg.tier.pick(12.0, 150.0);
    let inproc = par_shards(cfg, "c23-inprocess", ip_shards, |_idx, rng, rep| {
        for _ in 0..ip_per_shard {
            if cfg.elapsed_s() > ip_budget {
                rep.obs("inprocess:skipped-after-budget");
                continue;
            }
            let opts = gen_opts(rng);
            let inp = gen_input(rng, &opts);
            inprocess_check(&inp, ip_reps, rep);
        }
    });
    rep.merge(inproc);
    rep
}

fn run_cli_part(cfg: &Cfg) -> Report {
    let env = match cli_env(cfg) {
        Ok(e) => e,
        Err(reason) => {
            let mut rep = Report::new();
            rep.inconclusive(&reason);
            return rep;
        }
    };
    let shards = cfg.tier.pick(128usize, 1024usize);
    let per_shard = cfg.tier.pick(6usize, 5usize);
    let n = cfg.tier.pick(6usize, 24usize);
    let ncpu = std::thread::available_parallelism().map(|x| x.get()).unwrap_or(1);
    let have_taskset = which("taskset");
    let mut rep = par_shards(cfg, "c23", shards, |idx, rng, rep| {
        if !have_taskset {
            rep.inconclusive("taskset-not-installed");
            return;
        }
        for i in 0..per_shard {
            // an input in flight costs up to 9 runs: stop earlier than the single-run monitors
            if cfg.elapsed_s() > deadline_s(cfg) - cfg.tier.pick(9.0, 40.0) {
                rep.obs("skipped-after-deadline");
                continue;
            }
            let opts = gen_opts(rng);
            let inp = gen_input(rng, &opts);
            check_input(cfg, &env, &inp, n, idx % ncpu, i % 4 == 0, rng, rep);
        }
    });
    if rep.observed.contains_key("skipped-after-deadline") {
        rep.note(format!("machine too slow for the full workload: {} inputs skipped after the deadline", rep.observed["skipped-after-deadline"]));
    }
    rep
}

fn replay(cfg: &Cfg, case: &Value) -> Report {
    let mut rep = Report::new();
    let env = match cli_env(cfg) {
        Ok(e) => e,
        Err(reason) => {
            rep.inconclusive(&reason);
            return rep;
        }
    };
    if case["mode"] == json!("inprocess") {
        if let Some((pcode, elf)) = input_from_case(case) {
            let inp = Input { pcode, elf, kind: ElfKind::Exec, loops: 0, n_subs: 0, n_blocks: 0, max_blocks_per_sub: 0, expect: Default::default(), features: Default::default(), extern_names: Vec::new() };
            inprocess_check(&inp, 40, &mut rep);
        }
        return rep;
    }
    let Some((pcode, elf)) = input_from_case(case) else {
        rep.note("replay case has no input");
        return rep;
    };
    let Ok(files) = write_input(&pcode, &elf) else {
        rep.note("cannot write input files");
        return rep;
    };
    let selection: Option<Vec<String>> = case["selection"].as_array().map(|a| a.iter().filter_map(|x| x.as_str().map(String::from)).collect());
    let n = case["runs"].as_u64().unwrap_or(12) as usize;
    let mut rng = Rng::derive(cfg.seed, "c23-replay", 0);
    let (oc, sig) = repeat_runs(&env, &files, &selection, n, 0, None, &mut rng, &mut rep);
    rep.note(format!("{} of {} runs differ from the first run", oc.differing, oc.completed));
    if oc.differing > 0 {
        let (class, _) = sig.unwrap_or_default();
        let class = class_of(&oc, &class);
        rep.violation(format!("output-differs:{class}"), if is_known_cwe190(&oc) { Some(KNOWN_EXPRPROP_CWE190) } else { None }, format!("{} of {} runs differ from the first run. {}", oc.differing, oc.completed, oc.first_diff.unwrap_or_default()), case.clone(), pcode.len() as u64);
    }
    rep
}
