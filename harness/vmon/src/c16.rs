//! C16 — call-site checkers report exactly the specified call sites.
//!
//! Monitor shape: the real check modules CWE676 / CWE782 / CWE426 / CWE332 are run through their
//! public entry `CWE_MODULE.run` on an `AnalysisResults` built as the CLI builds it (normalized
//! project + `graph::get_program_cfg`), on random programs with random import tables, call sites
//! and configurations. The oracle is a direct scan over the (normalized) program, written from the
//! property statement; the multisets of identifying warning fields are compared.

use crate::core::*;
use crate::irb::*;
use crate::prng::Rng;
use cwe_checker_lib::analysis::graph;
use cwe_checker_lib::intermediate_representation::*;
use cwe_checker_lib::utils::log::CweWarning;
use cwe_checker_lib::pipeline::AnalysisResults;
use serde_json::{json, Value};
use std::collections::{BTreeMap, BTreeSet};


/// Report a violation, building detail and case only if it would replace the stored witness of its signature.
macro_rules! viol {
    ($rep:expr, $sig:expr, $size:expr, $detail:expr, $case:expr) => {{
        let sig: String = $sig.into();
        let keep = match $rep.violations.get(&sig) {
            Some(old) => old.size > $size,
            None => true,
        };
        if keep {
            $rep.violation(sig, None, $detail, $case, $size);
        } else {
            $rep.violation_count += 1;
        }
    }};
}

pub fn info() -> CheckInfo {
    CheckInfo {
        id: "C16",
        rule: "random x86-64-style programs (1..5 functions, 1..7 blocks each; branches, conditional branches, indirect jumps, returns, dead ends, extern/internal/indirect calls with and without return site, calls as second jump after a conditional branch, several calls per function, functions without calls, equal function names, functions named like dangerous symbols, two terms at one address) with a random import table (names from the shipped lists of CWE676/CWE426/CWE332 + ioctl/system + near-miss decoys such as strcpy_s, system2, _ioctl, srandom) are normalized (basic; basic+optimize in half of the cases) and given, with random configurations (subsets of shipped lists, decoys, duplicates, empty lists, extra keys; the CWE782 section null, empty, with an empty or with a random `symbols` list), to CWE676/CWE782/CWE426/CWE332 via CWE_MODULE.run; the warning multisets (check name, addresses, tids, symbols, `other`; for CWE332 the configured pair named in the message) are compared with a direct scan of the program. non-trivial = at least one warning is expected and the program contains at least one call that must not be reported by any of the four checks; distinct = hash of (program, configurations)",
        assumptions: &[
            "names in the import table are unique and every extern symbol is stored under its own tid (as the extractor emits them); programs with duplicated import names are driven too but a divergence there is only counted as an observation",
            "the program judged is the normalized one the check modules receive (normalize_basic, plus normalize_optimize in half of the cases), as in the CLI pipeline",
            "CWE332 warnings carry the pair only in the description: the names of configured symbols occurring as whitespace-separated words are extracted, nothing else of the text is compared; configured names contain no whitespace",
            "a configuration listing the same pair twice is expected to yield the warning twice (one per configured pair entry); a symbol listed twice in a symbol list counts once",
        ],
        run,
        replay,
    }
}

// ---------------------------------------------------------------------------
// Name pools

pub const L676: &[&str] = &[
    "alloca", "_alloca", "scanf", "wscanf", "sscanf", "swscanf", "vscanf", "vsscanf", "strlen", "wcslen", "strtok", "strtok_r", "wcstok", "strcat", "strncat", "wcscat", "wcsncat", "strcpy", "strncpy", "wcscpy", "wcsncpy", "stpcpy", "stpncpy", "wcpcpy", "wcpncpy", "memcpy", "wmemcpy", "memmove", "wmemmove", "memcmp", "wmemcmp", "memset", "wmemset", "gets", "sprintf", "vsprintf", "swprintf", "vswprintf", "snprintf", "vsnprintf", "realpath", "getwd", "wctomb", "wcrtomb", "wcstombs", "wcsrtombs", "wcsnrtombs",
];
pub const L426: &[&str] = &["setresgid", "setresuid", "setuid", "setgid", "seteuid", "setegid"];
pub const SPECIAL: &[&str] = &["system", "ioctl", "srand", "rand"];
pub const DECOYS: &[&str] = &[
    "strcpy_s", "system2", "_ioctl", "ioctl_", "ioctl64", "srandom", "random", "rand_r", "xstrcpy", "Strcpy", "STRCPY", "strcp", "trcpy", "memcpy_chk", "__memcpy_chk", "setuid2", "_setuid", "setreuid", "psystem", "System", "sys", "printf", "malloc", "free", "exit", "puts", "open", "access", "chroot", "chdir", "srand48", "arc4random", "get", "s", "",
];

fn all_names() -> Vec<&'static str> {
    let mut v: Vec<&str> = Vec::new();
    v.extend_from_slice(L676);
    v.extend_from_slice(L426);
    v.extend_from_slice(SPECIAL);
    v.extend_from_slice(DECOYS);
    v
}

// ---------------------------------------------------------------------------
// Generator

struct Ids {
    n: u32,
    last_addr: u32,
}
impl Ids {
    fn fresh(&mut self, rng: &mut Rng, prefix: &str) -> Tid {
        self.n += 1;
        // two terms at the same address now and then (several terms of one instruction)
        if !(self.last_addr != 0 && rng.chance(1, 8)) {
            self.last_addr = 0x401000 + self.n * 3 + rng.below(3) as u32;
        }
        tid(&format!("{prefix}_{:08x}_{}", self.last_addr, self.n), &format!("{:08x}", self.last_addr))
    }
}

/// Generated case: the normalized project and the four configurations.
pub struct Case {
    pub project: Project,
    pub configs: Value,
    pub dup_names: bool,
}

fn pick_names(rng: &mut Rng, table: &[String], pool: &[&'static str], n_table: usize, n_pool: usize) -> Vec<String> {
    let mut v: Vec<String> = Vec::new();
    for _ in 0..n_table {
        if !table.is_empty() {
            v.push(rng.pick(table).clone());
        }
    }
    for _ in 0..n_pool {
        v.push(rng.pick(pool).to_string());
    }
    rng.shuffle(&mut v);
    v
}

pub fn gen_case(rng: &mut Rng) -> Case {
    let pool = all_names();
    // ---- import table
    let mut names: Vec<String> = Vec::new();
    for s in SPECIAL {
        if rng.chance(3, 5) {
            names.push(s.to_string());
        }
    }
    let n_extra = rng.range_usize(0, 9);
    for _ in 0..n_extra {
        let n = match rng.below(4) {
            0 => rng.pick(L676).to_string(),
            1 => rng.pick(L426).to_string(),
            2 => rng.pick(DECOYS).to_string(),
            _ => rng.pick(&pool).to_string(),
        };
        names.push(n);
    }
    let dup_names = rng.chance(1, 16);
    if !dup_names {
        let mut seen = BTreeSet::new();
        names.retain(|n| seen.insert(n.clone()));
    } else if !names.is_empty() {
        let n = rng.pick(&names).clone();
        names.push(n);
    }
    rng.shuffle(&mut names);
    let mut ids = Ids { n: 0, last_addr: 0 };
    let mut externs = Vec::new();
    let mut ext_tids: Vec<Tid> = Vec::new();
    for (i, n) in names.iter().enumerate() {
        // extern tids: id unrelated to the order of names (the maps are ordered by tid)
        let t = tid(&format!("sub_ext_{:03}_{}", rng.below(1000), i), &format!("{:08x}", 0x500000 + i * 16));
        let no_return = n == "exit" || rng.chance(1, 20);
        externs.push(extern_symbol(n, t.clone(), &["RDI"], Some("RAX"), no_return));
        ext_tids.push(t);
    }
    // ---- functions
    let n_subs = rng.range_usize(1, 5);
    let mut sub_names: Vec<String> = Vec::new();
    for i in 0..n_subs {
        let name = match rng.below(10) {
            0 if i > 0 => sub_names[rng.usize_below(i)].clone(), // same name as another function
            1 => rng.pick(&["system", "ioctl", "strcpy", "setuid", "rand"]).to_string(), // internal function named like a symbol
            2 if !names.is_empty() => rng.pick(&names).clone(),
            _ => format!("fn_{i}"),
        };
        sub_names.push(name);
    }
    let sub_tids: Vec<Tid> = (0..n_subs).map(|i| tid(&format!("sub_{:08x}", 0x400000 + i * 0x100), &format!("{:08x}", 0x400000 + i * 0x100))).collect();
    let blk_counts: Vec<usize> = (0..n_subs).map(|_| rng.range_usize(1, 7)).collect();
    let blk_tids: Vec<Vec<Tid>> = (0..n_subs)
        .map(|s| (0..blk_counts[s]).map(|b| tid(&format!("blk_{:08x}", 0x400000 + s * 0x100 + b * 8), &format!("{:08x}", 0x400000 + s * 0x100 + b * 8))).collect())
        .collect();
    // call density profile of the program / of a function
    let mut subs = Vec::new();
    for s in 0..n_subs {
        let call_heavy = rng.below(4); // 0: no calls at all in this function
        let mut blocks = Vec::new();
        for b in 0..blk_counts[s] {
            let n = blk_counts[s];
            let mut defs = Vec::new();
            for _ in 0..rng.below(3) {
                defs.push(assign(ids.fresh(rng, "instr"), reg(*rng.pick(&["RAX", "RDI", "RSI"])), e_const(rng.below(100) as i64, 8)));
            }
            let target = |rng: &mut Rng| -> Tid {
                if rng.chance(1, 24) {
                    // jump into another function (normalization duplicates the block)
                    let o = rng.usize_below(n_subs);
                    blk_tids[o][rng.usize_below(blk_counts[o])].clone()
                } else if b + 1 < n && rng.chance(2, 3) {
                    blk_tids[s][rng.range_usize(b + 1, n - 1)].clone()
                } else {
                    blk_tids[s][rng.usize_below(n)].clone()
                }
            };
            let ret_site = |rng: &mut Rng, p_none: u64| -> Option<Tid> {
                if rng.chance(p_none, 8) {
                    None
                } else {
                    Some(target(rng))
                }
            };
            let mut jmps = Vec::new();
            let want_call = call_heavy > 0 && rng.chance(call_heavy + 1, 6);
            if want_call {
                if rng.chance(1, 8) {
                    jmps.push(jmp(ids.fresh(rng, "instr"), Jmp::CBranch { target: target(rng), condition: e_var(&var("ZF", 1)) }));
                }
                match rng.below(10) {
                    0 => {
                        let t = sub_tids[rng.usize_below(n_subs)].clone();
                        let r = ret_site(rng, 1);
                        jmps.push(jmp(ids.fresh(rng, "instr"), Jmp::Call { target: t, return_: r }));
                    }
                    1 => {
                        let r = ret_site(rng, 1);
                        jmps.push(jmp(ids.fresh(rng, "instr"), Jmp::CallInd { target: e_reg("RAX"), return_: r }));
                    }
                    _ if !ext_tids.is_empty() => {
                        let t = rng.pick(&ext_tids).clone();
                        let r = ret_site(rng, 2);
                        jmps.push(jmp(ids.fresh(rng, "instr"), Jmp::Call { target: t, return_: r }));
                    }
                    _ => jmps.push(jmp(ids.fresh(rng, "instr"), Jmp::Return(e_reg("RAX")))),
                }
            } else {
                match rng.below(10) {
                    0..=2 => jmps.push(jmp(ids.fresh(rng, "instr"), Jmp::Branch(target(rng)))),
                    3..=5 => {
                        jmps.push(jmp(ids.fresh(rng, "instr"), Jmp::CBranch { target: target(rng), condition: e_var(&var("ZF", 1)) }));
                        jmps.push(jmp(ids.fresh(rng, "instr"), Jmp::Branch(target(rng))));
                    }
                    6 => jmps.push(jmp(ids.fresh(rng, "instr"), Jmp::BranchInd(e_reg("RAX")))),
                    7 if rng.chance(1, 3) => (), // dead end
                    _ => jmps.push(jmp(ids.fresh(rng, "instr"), Jmp::Return(e_reg("RAX")))),
                }
            }
            let mut block = blk(blk_tids[s][b].clone(), defs, jmps);
            if matches!(block.term.jmps.last().map(|j| &j.term), Some(Jmp::BranchInd(_))) {
                for _ in 0..rng.below(3) {
                    block.term.indirect_jmp_targets.push(blk_tids[s][rng.usize_below(n)].clone());
                }
            }
            blocks.push(block);
        }
        subs.push(sub(sub_tids[s].clone(), &sub_names[s], blocks));
    }
    let mut project = project_x64(program(subs, externs, Some(sub_tids[0].clone())));
    let _ = project.normalize_basic();
    if rng.bool() {
        let _ = project.normalize_optimize();
    }
    // ---- configurations
    let c676: Vec<String> = match rng.below(8) {
        0 => Vec::new(),
        1 => L676.iter().map(|s| s.to_string()).collect(),
        _ => {
            let (a, b) = (rng.range_usize(0, 4), rng.range_usize(0, 8));
            pick_names(rng, &names, &pool, a, b)
        }
    };
    let c426: Vec<String> = match rng.below(8) {
        0 => Vec::new(),
        1 => L426.iter().map(|s| s.to_string()).collect(),
        _ => {
            let (a, b) = (rng.range_usize(0, 3), rng.range_usize(0, 5));
            pick_names(rng, &names, &pool, a, b)
        }
    };
    let mut c332: Vec<(String, String)> = Vec::new();
    if rng.chance(1, 4) {
        c332.push(("srand".into(), "rand".into()));
    }
    for _ in 0..rng.below(4) {
        let a = pick_names(rng, &names, &pool, 1, 1);
        let b = pick_names(rng, &names, &pool, 1, 1);
        c332.push((a[0].clone(), b[0].clone()));
    }
    if !c332.is_empty() && rng.chance(1, 10) {
        let p = rng.pick(&c332).clone();
        c332.push(p);
    }
    // names with whitespace or empty cannot be recognised in the CWE332 message: keep them out of the pairs
    c332.retain(|(a, b)| !a.is_empty() && !b.is_empty());
    let configs = json!({
        "CWE676": {"_comment": "generated", "symbols": c676},
        // the ioctl check takes no list: whatever its section says (the shipped one has an empty `symbols` key), it reports
        // the calls to ioctl and nothing else
        "CWE782": match rng.below(4) {
            0 => Value::Null,
            1 => json!({"symbols": []}),
            2 => json!({}),
            _ => {
                let (a, b) = (rng.range_usize(0, 3), rng.range_usize(0, 4));
                json!({"symbols": pick_names(rng, &names, &pool, a, b)})
            }
        },
        "CWE426": {"symbols": c426, "_comment": "generated"},
        "CWE332": {"pairs": c332},
    });
    Case { project, configs, dup_names }
}

// ---------------------------------------------------------------------------
// Oracle: direct scan

/// Canonical rendering of the identifying fields of one warning.
type Key = (String, Vec<String>, Vec<String>, Vec<String>, Vec<Vec<String>>);

fn strings(v: &Value, key: &str) -> Vec<String> {
    v[key].as_array().map(|a| a.iter().filter_map(|s| s.as_str().map(|s| s.to_string())).collect()).unwrap_or_default()
}

pub struct Expected {
    pub per_check: BTreeMap<&'static str, Vec<Key>>,
    /// number of call jumps in the program that no check may report
    pub silent_calls: usize,
}

/// All direct calls of the program: (sub, jump tid, name of the imported symbol called, if any).
fn direct_calls(project: &Project) -> Vec<(&Term<Sub>, &Tid, Option<&str>)> {
    let prog = &project.program.term;
    let mut out = Vec::new();
    for sub in prog.subs.values() {
        for blk in &sub.term.blocks {
            for j in &blk.term.jmps {
                match &j.term {
                    Jmp::Call { target, .. } => {
                        // imported symbol = an entry of the import table whose tid is the call target
                        let name = prog.extern_symbols.values().find(|e| &e.tid == target).map(|e| e.name.as_str());
                        out.push((sub, &j.tid, name));
                    }
                    Jmp::CallInd { .. } => out.push((sub, &j.tid, None)),
                    _ => (),
                }
            }
        }
    }
    out
}

pub fn expected(project: &Project, configs: &Value) -> Expected {
    let prog = &project.program.term;
    let imported: BTreeSet<&str> = prog.extern_symbols.values().map(|e| e.name.as_str()).collect();
    let calls = direct_calls(project);
    let c676: BTreeSet<String> = strings(&configs["CWE676"], "symbols").into_iter().collect();
    let c426: BTreeSet<String> = strings(&configs["CWE426"], "symbols").into_iter().collect();
    let mut per_check: BTreeMap<&'static str, Vec<Key>> = BTreeMap::new();
    let mut reported: BTreeSet<&Tid> = BTreeSet::new();
    // CWE676: one warning per call to an imported symbol on the list
    let e676 = per_check.entry("CWE676").or_default();
    for (sub, jt, name) in &calls {
        if let Some(n) = name {
            if c676.contains(*n) {
                e676.push(("CWE676".into(), vec![jt.address.clone()], vec![format!("{jt}")], vec![sub.term.name.clone()], vec![vec!["dangerous_function".to_string(), n.to_string()]]));
                reported.insert(jt);
            }
        }
    }
    // CWE782: one warning per call to ioctl
    let e782 = per_check.entry("CWE782").or_default();
    for (sub, jt, name) in &calls {
        if *name == Some("ioctl") {
            e782.push(("CWE782".into(), vec![jt.address.clone()], vec![format!("{jt}")], vec![sub.term.name.clone()], vec![]));
            reported.insert(jt);
        }
    }
    // CWE426: each function that calls both system and a configured (imported) privilege-changing function
    let e426 = per_check.entry("CWE426").or_default();
    for sub in prog.subs.values() {
        let mine: Vec<&str> = calls.iter().filter(|(s, _, _)| s.tid == sub.tid).filter_map(|(_, _, n)| *n).collect();
        let calls_system = mine.iter().any(|n| *n == "system");
        let calls_priv = mine.iter().any(|n| c426.contains(*n));
        if calls_system && calls_priv {
            e426.push(("CWE426".into(), vec![sub.tid.address.clone()], vec![format!("{}", sub.tid)], vec![sub.term.name.clone()], vec![]));
            for (s, jt, n) in &calls {
                if s.tid == sub.tid && n.map(|n| n == "system" || c426.contains(n)).unwrap_or(false) {
                    reported.insert(jt);
                }
            }
        }
    }
    // CWE332: each configured pair whose generator is imported while the initializer is not
    let e332 = per_check.entry("CWE332").or_default();
    if let Some(pairs) = configs["CWE332"]["pairs"].as_array() {
        for p in pairs {
            let (init, gen) = (p[0].as_str().unwrap_or(""), p[1].as_str().unwrap_or(""));
            if imported.contains(gen) && !imported.contains(init) {
                let mut names = vec![init.to_string(), gen.to_string()];
                names.sort();
                e332.push(("CWE332".into(), vec![], vec![], names, vec![]));
            }
        }
    }
    for v in per_check.values_mut() {
        v.sort();
    }
    let silent_calls = calls.iter().filter(|(_, jt, _)| !reported.contains(jt)).count();
    Expected { per_check, silent_calls }
}

/// The identifying fields of an observed warning. For CWE332 (no structured fields) the configured
/// names occurring as words of the message.
fn observed_key(w: &CweWarning, configs: &Value) -> Key {
    if w.name == "CWE332" && w.symbols.is_empty() {
        let mut universe: BTreeSet<String> = BTreeSet::new();
        if let Some(pairs) = configs["CWE332"]["pairs"].as_array() {
            for p in pairs {
                for i in 0..2 {
                    universe.insert(p[i].as_str().unwrap_or("").to_string());
                }
            }
        }
        let mut names: Vec<String> = Vec::new();
        for word in w.description.split_whitespace() {
            if universe.contains(word) {
                names.push(word.to_string());
            }
        }
        names.sort();
        return (w.name.clone(), w.addresses.clone(), w.tids.clone(), names, w.other.clone());
    }
    (w.name.clone(), w.addresses.clone(), w.tids.clone(), w.symbols.clone(), w.other.clone())
}

fn run_module(project: &Project, module: &cwe_checker_lib::CweModule, params: &Value) -> Result<Vec<CweWarning>, String> {
    guard(|| {
        let cfg = graph::get_program_cfg(&project.program);
        let binary: Vec<u8> = Vec::new();
        let results = AnalysisResults::new(&binary, &cfg, project);
        let (_logs, warnings) = (module.run)(&results, params);
        warnings
    })
}

fn modules() -> Vec<&'static cwe_checker_lib::CweModule> {
    use cwe_checker_lib::checkers::*;
    vec![&cwe_676::CWE_MODULE, &cwe_782::CWE_MODULE, &cwe_426::CWE_MODULE, &cwe_332::CWE_MODULE]
}

fn diff(exp: &[Key], got: &[Key]) -> (Vec<Key>, Vec<Key>) {
    // multiset difference
    let mut missing = Vec::new();
    let mut got_left: Vec<Key> = got.to_vec();
    for e in exp {
        if let Some(p) = got_left.iter().position(|g| g == e) {
            got_left.remove(p);
        } else {
            missing.push(e.clone());
        }
    }
    (missing, got_left)
}

/// Classify a divergence for the signature: what kind of field disagrees.
fn classify(missing: &[Key], surplus: &[Key]) -> &'static str {
    if surplus.is_empty() {
        "missing-warning"
    } else if missing.is_empty() {
        "surplus-warning"
    } else if missing.len() == surplus.len() {
        // same number of warnings: some field differs
        let same = |f: &dyn Fn(&Key) -> String| {
            let mut a: Vec<String> = missing.iter().map(f).collect();
            let mut b: Vec<String> = surplus.iter().map(f).collect();
            a.sort();
            b.sort();
            a == b
        };
        if !same(&|k| format!("{:?}", k.2)) {
            "wrong-tid"
        } else if !same(&|k| format!("{:?}", k.1)) {
            "wrong-address"
        } else if !same(&|k| format!("{:?}", k.3)) {
            "wrong-symbols"
        } else {
            "wrong-other"
        }
    } else {
        "different-warnings"
    }
}

pub fn check_case(project: &Project, configs: &Value, dup_names: bool, rep: &mut Report) -> bool {
    let exp = expected(project, configs);
    let size = project.program.term.subs.values().map(|s| 1 + s.term.blocks.len() as u64).sum::<u64>() + project.program.term.extern_symbols.len() as u64;
    let case = || json!({"project": project_to_json(project), "configs": configs, "dup_names": dup_names});
    let mut total_expected = 0usize;
    for module in modules() {
        let name = module.name;
        rep.eval();
        let e = &exp.per_check[name];
        total_expected += e.len();
        match run_module(project, module, &configs[name]) {
            Err(p) => {
                if dup_names {
                    rep.obs(&format!("dup-import-names:{name}:panic"));
                } else {
                    viol!(rep, format!("{name}:panic:{}", panic_site(&p)), size, format!("{name} panicked: {p}\nconfig: {}\n{}", configs[name], show_program(&project.program.term)), case());
                }
            }
            Ok(ws) => {
                let mut got: Vec<Key> = ws.iter().map(|w| observed_key(w, configs)).collect();
                got.sort();
                if let Some(w) = ws.iter().find(|w| w.name != name) {
                    viol!(rep, format!("{name}:wrong-check-name"), size, format!("{name} produced a warning named {}", w.name), case());
                }
                if &got != e {
                    let (missing, surplus) = diff(e, &got);
                    if dup_names {
                        rep.obs(&format!("dup-import-names:{name}:differs-from-by-name-scan"));
                    } else {
                        viol!(rep, format!("{name}:{}", classify(&missing, &surplus)), size, format!(
                                "{name} with config {}: expected {} warning(s), observed {}.\n  expected but not reported (name, addresses, tids, symbols, other): {:?}\n  reported but not expected: {:?}\n{}",
                                configs[name], e.len(), got.len(), missing, surplus, show_program(&project.program.term)
                            ), case());
                    }
                } else {
                    rep.obs(&format!("{name}:agree:{}", match e.len() { 0 => "0", 1 => "1", 2..=3 => "2-3", _ => "4+" }));
                }
            }
        }
    }
    let nontrivial = total_expected > 0 && exp.silent_calls > 0 && !dup_names;
    if nontrivial {
        rep.nontrivial(crate::prng::mix(fp_of(&project.program), fp_json(configs)));
    }
    nontrivial
}

fn run(cfg: &Cfg) -> Report {
    let shards = cfg.tier.pick(512usize, 1024usize);
    let per_shard = cfg.tier.pick(1000usize, 2000usize);
    let mut rep = par_shards(cfg, "c16", shards, |idx, rng, rep| {
        for i in 0..per_shard {
            let case = match guard(|| gen_case(rng)) {
                Ok(c) => c,
                Err(msg) => {
                    rep.inconclusive(&format!("generator-or-normalization-panic:{}", panic_site(&msg)));
                    continue;
                }
            };
            let nt = check_case(&case.project, &case.configs, case.dup_names, rep);
            rep.obs(if case.dup_names { "workload:duplicated-import-names" } else { "workload:main" });
            if idx == 0 && nt && i < 40 && rep.wants_sample() {
                let exp = expected(&case.project, &case.configs);
                rep.sample(json!({"program": show_program(&case.project.program.term), "configs": case.configs, "expected": format!("{:?}", exp.per_check)}));
            }
        }
    });
    fixed_cases(&mut rep);
    rep
}

/// A few hand-written cases (each statement clause once, deterministic).
fn fixed_cases(rep: &mut Report) {
    let ext = |n: &str, i: usize| extern_symbol(n, tid(&format!("sub_ext_{n}_{i}"), &format!("ext{i}")), &["RDI"], Some("RAX"), false);
    let call = |id: &str, target: &ExternSymbol, ret: Option<&str>| jmp(tid(id, &format!("a_{id}")), Jmp::Call { target: target.tid.clone(), return_: ret.map(|r| tid(r, r)) });
    let (system, setuid, strcpy, strcpy_s, ioctl, rand) = (ext("system", 0), ext("setuid", 1), ext("strcpy", 2), ext("strcpy_s", 3), ext("ioctl", 4), ext("rand", 5));
    let f = sub(
        tid("sub_f", "f"),
        "f",
        vec![
            blk(tid("b0", "b0"), vec![], vec![call("c0", &strcpy, Some("b1"))]),
            blk(tid("b1", "b1"), vec![], vec![call("c1", &strcpy, Some("b2"))]),
            blk(tid("b2", "b2"), vec![], vec![call("c2", &strcpy_s, Some("b3"))]),
            blk(tid("b3", "b3"), vec![], vec![call("c3", &system, Some("b4"))]),
            blk(tid("b4", "b4"), vec![], vec![call("c4", &ioctl, None)]),
        ],
    );
    let g = sub(
        tid("sub_g", "g"),
        "g",
        vec![
            blk(tid("g0", "g0"), vec![], vec![call("d0", &system, Some("g1"))]),
            blk(tid("g1", "g1"), vec![], vec![call("d1", &setuid, Some("g2"))]),
            blk(tid("g2", "g2"), vec![], vec![call("d2", &rand, Some("g3"))]),
            blk(tid("g3", "g3"), vec![], vec![jmp(tid("d3", "d3"), Jmp::Return(e_reg("RAX")))]),
        ],
    );
    let mut project = project_x64(program(vec![f, g], vec![system, setuid, strcpy, strcpy_s, ioctl, rand], None));
    let _ = project.normalize_basic();
    let configs = json!({
        "CWE676": {"symbols": ["strcpy", "memcpy"]},
        "CWE782": {"symbols": []},
        "CWE426": {"symbols": ["setuid", "setgid"]},
        "CWE332": {"pairs": [["srand", "rand"], ["system", "rand"], ["srand", "random"]]},
    });
    check_case(&project, &configs, false, rep);
}

fn replay(_cfg: &Cfg, case: &Value) -> Report {
    let mut rep = Report::new();
    match project_from_json(&case["project"]) {
        Ok(project) => {
            check_case(&project, &case["configs"], case["dup_names"].as_bool().unwrap_or(false), &mut rep);
        }
        Err(e) => rep.note(format!("cannot parse replay case: {e}")),
    }
    rep
}
