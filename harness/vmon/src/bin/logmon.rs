fn main() {
    vmon::core::install_quiet_panic_hook();
    println!("logmon: not yet implemented");
}
