//! `logmon <subcommand> [args..]` — small, std-threads-only workloads of the monitors that are meant
//! to be executed under Miri (sanitizer layer), e.g.
//!
//! `MIRIFLAGS="-Zmiri-disable-isolation -Zmiri-many-seeds=0..8" cargo +nightly miri run --target-dir target-miri --bin logmon -- c25 3 1`
//!
//! Subcommands:
//! * `c25 <histories> <seed>` — C25 log-collection histories (generator + offline checker of `vmon::c25`)
//!
//! Exit code: 0 = held, 1 = violation (a line `VIOLATION property=<id> ...` is printed),
//! 2 = usage / unknown subcommand (never a verdict).

fn usage() -> i32 {
    eprintln!("usage: logmon <subcommand> [args..]");
    eprintln!("  c25 <histories> <seed>   log-collection histories with small parameters");
    2
}

fn main() {
    vmon::core::install_quiet_panic_hook();
    let args: Vec<String> = std::env::args().collect();
    let code = match args.get(1).map(|s| s.as_str()) {
        Some("c25") => vmon::c25::logmon_main(&args[2..]),
        Some("c01-wide") => vmon::c01::logmon_main(&args[2..]),
        Some("c05") => vmon::c05::logmon_main(&args[2..]),
        Some("help") | Some("--help") | Some("-h") => {
            usage();
            0
        }
        Some(other) => {
            eprintln!("logmon: unknown subcommand `{other}` (nothing executed)");
            usage()
        }
        None => usage(),
    };
    std::process::exit(code);
}
