//! `vcheck <Cxx> --tier quick|thorough [--seed N] [--replay file]`
//!
//! exit 0: property held on everything explored (KNOWN-FINDING lines may be printed)
//! exit 1: at least one violation that is not a recorded known finding
//! exit 2: inconclusive / harness error (never a verdict)

use serde_json::{json, Value};
use std::path::PathBuf;
use std::time::Instant;
use vmon::core::*;

fn usage() -> ! {
    eprintln!("usage: vcheck <Cxx> --tier quick|thorough [--seed N] [--replay file] [--threads N]");
    std::process::exit(2);
}

fn main() {
    let args: Vec<String> = std::env::args().collect();
    if args.len() < 2 {
        usage();
    }
    let prop = args[1].clone();
    let mut tier = match std::env::var("VERIF_TIER").ok().as_deref() {
        Some("thorough") => Tier::Thorough,
        _ => Tier::Quick,
    };
    let mut seed: u64 = std::env::var("VERIF_SEED")
        .ok()
        .and_then(|s| s.trim().parse::<i64>().ok())
        .map(|v| v as u64)
        .unwrap_or(1);
    let mut replay: Option<PathBuf> = None;
    let mut threads: usize = std::thread::available_parallelism().map(|n| n.get()).unwrap_or(8).min(16);
    let mut i = 2;
    while i < args.len() {
        match args[i].as_str() {
            "--tier" => {
                i += 1;
                tier = match args.get(i).map(|s| s.as_str()) {
                    Some("quick") => Tier::Quick,
                    Some("thorough") => Tier::Thorough,
                    _ => usage(),
                };
            }
            "--seed" => {
                i += 1;
                seed = args.get(i).and_then(|s| s.parse::<i64>().ok()).map(|v| v as u64).unwrap_or_else(|| usage());
            }
            "--replay" => {
                i += 1;
                replay = Some(PathBuf::from(args.get(i).unwrap_or_else(|| usage())));
            }
            "--threads" => {
                i += 1;
                threads = args.get(i).and_then(|s| s.parse().ok()).unwrap_or_else(|| usage());
            }
            _ => usage(),
        }
        i += 1;
    }
    let verif_dir = std::env::var("VERIF_DIR").map(PathBuf::from).unwrap_or_else(|_| PathBuf::from("/verif"));
    let cfg = Cfg {
        prop: prop.clone(),
        tier,
        seed,
        threads,
        harness_dir: verif_dir.join("harness"),
        verif_dir: verif_dir.clone(),
        started: Instant::now(),
    };
    let info = match vmon::registry().into_iter().find(|c| c.id == prop) {
        Some(i) => i,
        None => {
            eprintln!("unknown property {prop}");
            std::process::exit(2);
        }
    };
    install_quiet_panic_hook();

    // ---- replay mode -------------------------------------------------------
    if let Some(path) = replay {
        let text = std::fs::read_to_string(&path).unwrap_or_else(|e| {
            eprintln!("cannot read {path:?}: {e}");
            std::process::exit(2)
        });
        let v: Value = serde_json::from_str(&text).unwrap_or_else(|e| {
            eprintln!("cannot parse {path:?}: {e}");
            std::process::exit(2)
        });
        let case = v.get("case").cloned().unwrap_or(v.clone());
        let rep = (info.replay)(&cfg, &case);
        if rep.violations.is_empty() {
            println!("REPLAY property={prop} result=held (case no longer violates)");
            for n in &rep.notes {
                println!("note: {n}");
            }
            std::process::exit(0);
        }
        for (sig, viol) in &rep.violations {
            println!("REPLAY property={prop} signature={sig}\n  {}", viol.detail);
            println!("VIOLATION property={prop} replay={}", path.display());
        }
        std::process::exit(1);
    }

    // ---- known findings ----------------------------------------------------
    let known: Value = std::fs::read_to_string(verif_dir.join("known_findings.json"))
        .ok()
        .and_then(|t| serde_json::from_str(&t).ok())
        .unwrap_or(json!({"open": [], "fixed": []}));
    let open: Vec<Value> = known["open"]
        .as_array()
        .cloned()
        .unwrap_or_default()
        .into_iter()
        .filter(|e| e["property"] == json!(prop))
        .collect();

    let mut known_lines: Vec<String> = Vec::new();
    let mut total = Report::new();
    // replay each open finding's witness first: the line is printed deterministically
    for e in &open {
        let key = e["key"].as_str().unwrap_or("");
        let what = e["what"].as_str().unwrap_or("");
        let wpath = verif_dir.join(e["witness"].as_str().unwrap_or(""));
        match std::fs::read_to_string(&wpath).ok().and_then(|t| serde_json::from_str::<Value>(&t).ok()) {
            Some(v) => {
                let case = v.get("case").cloned().unwrap_or(v.clone());
                let rep = (info.replay)(&cfg, &case);
                let reproduced = rep.violations.values().any(|v| v.known_key.as_deref() == Some(key));
                if reproduced {
                    let line = format!("KNOWN-FINDING: property={prop} {what}");
                    println!("{line}");
                    known_lines.push(line);
                } else {
                    println!("note: known finding '{key}' of {prop} no longer reproduces on its witness {}", wpath.display());
                    total.note(format!("known finding '{key}' no longer reproduces on its witness"));
                }
                // violations of the witness replay that are NOT the known one count as ordinary violations
                for (sig, viol) in rep.violations {
                    if viol.known_key.as_deref() != Some(key) {
                        total.violations.insert(sig, viol);
                    }
                }
            }
            None => {
                eprintln!("INCONCLUSIVE property={prop} reason=witness file {} unreadable", wpath.display());
                std::process::exit(2);
            }
        }
    }

    // ---- main run ----------------------------------------------------------
    let rep = (info.run)(&cfg);
    total.merge(rep);

    let open_keys: Vec<String> = open.iter().filter_map(|e| e["key"].as_str().map(|s| s.to_string())).collect();
    let mut new_violations = 0usize;
    let replay_dir = verif_dir.join("replays").join(&prop);
    for (sig, viol) in &total.violations {
        if let Some(k) = &viol.known_key {
            if open_keys.contains(k) {
                let what = open.iter().find(|e| e["key"] == json!(k)).and_then(|e| e["what"].as_str()).unwrap_or("");
                let line = format!("KNOWN-FINDING: property={prop} {what}");
                if !known_lines.contains(&line) {
                    println!("{line}");
                    known_lines.push(line);
                }
                continue;
            }
        }
        new_violations += 1;
        let _ = std::fs::create_dir_all(&replay_dir);
        let fname = format!("{}-{:016x}.json", tier.name(), vmon::prng::hash_str(sig));
        let path = replay_dir.join(fname);
        let body = json!({
            "property": prop, "signature": sig, "detail": viol.detail, "known_key": viol.known_key,
            "seed": seed, "tier": tier.name(), "generator_version": vmon::GENERATOR_VERSION, "case": viol.case,
        });
        let _ = std::fs::write(&path, serde_json::to_string_pretty(&body).unwrap());
        println!("violation signature: {sig}\n  {}", viol.detail);
        println!("VIOLATION property={prop} replay={}", path.display());
    }

    let ev = evidence_json(&cfg, &info, &total, &known_lines, new_violations);
    let evdir = verif_dir.join("evidence");
    let _ = std::fs::create_dir_all(&evdir);
    let evpath = evdir.join(format!("{prop}.json"));
    std::fs::write(&evpath, serde_json::to_string_pretty(&ev).unwrap()).expect("cannot write evidence");

    let inconc: u64 = total.inconclusive.values().sum();
    println!(
        "SUMMARY property={prop} tier={} seed={seed} evaluations={} distinct_nontrivial={} violations={} known={} inconclusive={} wall_s={:.1}",
        tier.name(), total.evaluations, total.nontrivial.len(), new_violations, known_lines.len(), inconc, cfg.elapsed_s()
    );
    for (k, v) in &total.inconclusive {
        println!("  inconclusive[{k}]={v}");
    }
    if new_violations > 0 {
        std::process::exit(1);
    }
    if total.inconclusive.keys().any(|k| k.starts_with("harness-panic")) {
        println!("INCONCLUSIVE property={prop} reason=harness panic (see notes in evidence)");
        for n in &total.notes {
            println!("note: {n}");
        }
        std::process::exit(2);
    }
    if total.evaluations == 0 || total.nontrivial.len() < 2 {
        println!("INCONCLUSIVE property={prop} reason=monitors observed nothing non-trivial");
        std::process::exit(2);
    }
    std::process::exit(0);
}
