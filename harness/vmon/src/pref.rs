//! `pref` — reference evaluator for Ghidra P-Code integer operations.
//!
//! Written from the P-Code reference manual with plain machine arithmetic on
//! `(u128, width_in_bytes)`. It never touches `apint` or any function of the
//! crate under test; conversions from/to `Bitvector` live in `conv`.

use cwe_checker_lib::intermediate_representation::{BinOpType, CastOpType, UnOpType};

/// A concrete value of `w` bytes (1..=16), stored zero-extended.
#[derive(Clone, Copy, PartialEq, Eq, Hash, Debug, PartialOrd, Ord)]
pub struct V {
    pub v: u128,
    pub w: u32,
}

pub fn mask(w: u32) -> u128 {
    if w >= 16 {
        u128::MAX
    } else {
        (1u128 << (8 * w)) - 1
    }
}

impl V {
    pub fn new(v: u128, w: u32) -> V {
        assert!((1..=16).contains(&w));
        V { v: v & mask(w), w }
    }
    pub fn from_i(v: i128, w: u32) -> V {
        V::new(v as u128, w)
    }
    pub fn bits(&self) -> u32 {
        self.w * 8
    }
    pub fn sign(&self) -> bool {
        (self.v >> (self.bits() - 1)) & 1 == 1
    }
    /// Signed interpretation.
    pub fn s(&self) -> i128 {
        if self.w == 16 {
            self.v as i128
        } else if self.sign() {
            (self.v as i128) - (1i128 << self.bits())
        } else {
            self.v as i128
        }
    }
    pub fn b(x: bool) -> V {
        V { v: x as u128, w: 1 }
    }
}

/// Result of the reference: a value or 'unknown' (operation not supported / undefined).
pub type R = Option<V>;

pub fn is_float_bin(op: BinOpType) -> bool {
    use BinOpType::*;
    matches!(
        op,
        FloatEqual | FloatNotEqual | FloatLess | FloatLessEqual | FloatAdd | FloatSub | FloatMult | FloatDiv
    )
}

pub fn is_bool_bin(op: BinOpType) -> bool {
    matches!(op, BinOpType::BoolAnd | BinOpType::BoolOr | BinOpType::BoolXOr)
}

pub fn is_shift(op: BinOpType) -> bool {
    matches!(op, BinOpType::IntLeft | BinOpType::IntRight | BinOpType::IntSRight)
}

pub fn is_compare_or_flag(op: BinOpType) -> bool {
    use BinOpType::*;
    matches!(
        op,
        IntEqual | IntNotEqual | IntLess | IntSLess | IntLessEqual | IntSLessEqual | IntCarry | IntSCarry | IntSBorrow
    )
}

/// Width of the result of a binary operation, `None` if it cannot be represented (piece wider than 16 bytes).
pub fn bin_width(op: BinOpType, lw: u32, rw: u32) -> Option<u32> {
    use BinOpType::*;
    match op {
        Piece => {
            if lw + rw <= 16 {
                Some(lw + rw)
            } else {
                None
            }
        }
        IntEqual | IntNotEqual | IntLess | IntSLess | IntLessEqual | IntSLessEqual | IntCarry | IntSCarry
        | IntSBorrow | BoolXOr | BoolAnd | BoolOr | FloatEqual | FloatNotEqual | FloatLess | FloatLessEqual => Some(1),
        _ => Some(lw),
    }
}

pub fn bin(op: BinOpType, a: V, b: V) -> R {
    use BinOpType::*;
    let w = a.w;
    let m = mask(w);
    let bits = a.bits();
    match op {
        Piece => {
            let nw = a.w + b.w;
            if nw > 16 {
                return None;
            }
            Some(V::new((a.v << b.bits()) | b.v, nw))
        }
        IntEqual => Some(V::b(a.v == b.v)),
        IntNotEqual => Some(V::b(a.v != b.v)),
        IntLess => Some(V::b(a.v < b.v)),
        IntLessEqual => Some(V::b(a.v <= b.v)),
        IntSLess => Some(V::b(a.s() < b.s())),
        IntSLessEqual => Some(V::b(a.s() <= b.s())),
        IntAdd => Some(V::new(a.v.wrapping_add(b.v), w)),
        IntSub => Some(V::new(a.v.wrapping_sub(b.v), w)),
        IntCarry => {
            // unsigned overflow of a + b at width w
            let sum = a.v.wrapping_add(b.v) & m;
            Some(V::b(sum < a.v))
        }
        IntSCarry => {
            // signed overflow of a + b
            let r = V::new(a.v.wrapping_add(b.v), w);
            Some(V::b(a.sign() == b.sign() && r.sign() != a.sign()))
        }
        IntSBorrow => {
            // signed overflow of a - b
            let r = V::new(a.v.wrapping_sub(b.v), w);
            Some(V::b(a.sign() != b.sign() && r.sign() != a.sign()))
        }
        IntXOr => Some(V::new(a.v ^ b.v, w)),
        IntAnd => Some(V::new(a.v & b.v, w)),
        IntOr => Some(V::new(a.v | b.v, w)),
        IntLeft => {
            if b.v >= bits as u128 {
                Some(V::new(0, w))
            } else {
                Some(V::new(a.v << (b.v as u32), w))
            }
        }
        IntRight => {
            if b.v >= bits as u128 {
                Some(V::new(0, w))
            } else {
                Some(V::new(a.v >> (b.v as u32), w))
            }
        }
        IntSRight => {
            if b.v >= bits as u128 {
                Some(V::new(if a.sign() { m } else { 0 }, w))
            } else {
                let sh = b.v as u32;
                let mut r = a.v >> sh;
                if a.sign() && sh > 0 {
                    // fill the top `sh` bits
                    let fill = m & !(m >> sh);
                    r |= fill;
                }
                Some(V::new(r, w))
            }
        }
        IntMult => {
            if w > 8 {
                return None;
            }
            Some(V::new(a.v.wrapping_mul(b.v), w))
        }
        IntDiv => {
            if w > 8 || b.v == 0 {
                return None;
            }
            Some(V::new(a.v / b.v, w))
        }
        IntRem => {
            if w > 8 || b.v == 0 {
                return None;
            }
            Some(V::new(a.v % b.v, w))
        }
        IntSDiv => {
            if w > 8 || b.v == 0 {
                return None;
            }
            // truncating division; MIN / -1 wraps to MIN
            let q = a.s().wrapping_div(b.s());
            Some(V::from_i(q, w))
        }
        IntSRem => {
            if w > 8 || b.v == 0 {
                return None;
            }
            let r = a.s().wrapping_rem(b.s());
            Some(V::from_i(r, w))
        }
        BoolXOr => Some(V::new(a.v ^ b.v, w)),
        BoolAnd => Some(V::new(a.v & b.v, w)),
        BoolOr => Some(V::new(a.v | b.v, w)),
        FloatEqual | FloatNotEqual | FloatLess | FloatLessEqual | FloatAdd | FloatSub | FloatMult | FloatDiv => None,
    }
}

pub fn un(op: UnOpType, a: V) -> R {
    use UnOpType::*;
    match op {
        IntNegate => Some(V::new(!a.v, a.w)),
        Int2Comp => Some(V::new(0u128.wrapping_sub(a.v), a.w)),
        BoolNegate => Some(V::new((a.v == 0) as u128, a.w)),
        _ => None,
    }
}

pub fn cast(op: CastOpType, size: u32, a: V) -> R {
    use CastOpType::*;
    if size > 16 {
        return None;
    }
    match op {
        IntZExt => Some(V::new(a.v, size)),
        IntSExt => Some(V::new(a.s() as u128, size)),
        PopCount => Some(V::new(a.v.count_ones() as u128, size)),
        LzCount => {
            let lz = if a.v == 0 { a.bits() } else { a.bits() - (128 - a.v.leading_zeros()) };
            Some(V::new(lz as u128, size))
        }
        Int2Float | Float2Float | Trunc => None,
    }
}

pub fn subpiece(low_byte: u32, size: u32, a: V) -> V {
    assert!(low_byte + size <= a.w && size >= 1);
    V::new(a.v >> (8 * low_byte), size)
}

pub const INT_BIN_OPS: &[BinOpType] = &[
    BinOpType::Piece,
    BinOpType::IntEqual,
    BinOpType::IntNotEqual,
    BinOpType::IntLess,
    BinOpType::IntSLess,
    BinOpType::IntLessEqual,
    BinOpType::IntSLessEqual,
    BinOpType::IntAdd,
    BinOpType::IntSub,
    BinOpType::IntCarry,
    BinOpType::IntSCarry,
    BinOpType::IntSBorrow,
    BinOpType::IntXOr,
    BinOpType::IntAnd,
    BinOpType::IntOr,
    BinOpType::IntLeft,
    BinOpType::IntRight,
    BinOpType::IntSRight,
    BinOpType::IntMult,
    BinOpType::IntDiv,
    BinOpType::IntRem,
    BinOpType::IntSDiv,
    BinOpType::IntSRem,
    BinOpType::BoolXOr,
    BinOpType::BoolAnd,
    BinOpType::BoolOr,
];

pub const FLOAT_BIN_OPS: &[BinOpType] = &[
    BinOpType::FloatEqual,
    BinOpType::FloatNotEqual,
    BinOpType::FloatLess,
    BinOpType::FloatLessEqual,
    BinOpType::FloatAdd,
    BinOpType::FloatSub,
    BinOpType::FloatMult,
    BinOpType::FloatDiv,
];

pub const INT_UN_OPS: &[UnOpType] = &[UnOpType::IntNegate, UnOpType::Int2Comp, UnOpType::BoolNegate];
pub const FLOAT_UN_OPS: &[UnOpType] = &[
    UnOpType::FloatNegate,
    UnOpType::FloatAbs,
    UnOpType::FloatSqrt,
    UnOpType::FloatCeil,
    UnOpType::FloatFloor,
    UnOpType::FloatRound,
    UnOpType::FloatNaN,
];
pub const INT_CASTS: &[CastOpType] =
    &[CastOpType::IntZExt, CastOpType::IntSExt, CastOpType::PopCount, CastOpType::LzCount];
pub const FLOAT_CASTS: &[CastOpType] = &[CastOpType::Int2Float, CastOpType::Float2Float, CastOpType::Trunc];

#[cfg(test)]
mod tests {
    use super::*;
    #[test]
    fn basics() {
        let a = V::from_i(-5, 1);
        let b = V::from_i(-3, 1);
        assert_eq!(bin(BinOpType::IntSBorrow, a, b), Some(V::b(false)));
        assert_eq!(bin(BinOpType::IntSBorrow, V::from_i(-128, 1), V::new(1, 1)), Some(V::b(true)));
        assert_eq!(bin(BinOpType::IntSCarry, V::new(127, 1), V::new(1, 1)), Some(V::b(true)));
        assert_eq!(bin(BinOpType::IntCarry, V::new(255, 1), V::new(1, 1)), Some(V::b(true)));
        assert_eq!(bin(BinOpType::IntSRight, V::new(0x80, 1), V::new(1, 1)), Some(V::new(0xC0, 1)));
        assert_eq!(bin(BinOpType::IntSRight, V::new(0x80, 1), V::new(9, 1)), Some(V::new(0xFF, 1)));
        assert_eq!(bin(BinOpType::IntSDiv, V::new(0x80, 1), V::new(0xFF, 1)), Some(V::new(0x80, 1)));
        assert_eq!(bin(BinOpType::IntSRem, V::from_i(-7, 1), V::new(2, 1)), Some(V::from_i(-1, 1)));
        assert_eq!(bin(BinOpType::Piece, V::new(0xAB, 1), V::new(0xCDEF, 2)), Some(V::new(0xABCDEF, 3)));
        assert_eq!(cast(CastOpType::LzCount, 1, V::new(1, 2)), Some(V::new(15, 1)));
        assert_eq!(cast(CastOpType::LzCount, 1, V::new(0, 2)), Some(V::new(16, 1)));
        assert_eq!(cast(CastOpType::IntSExt, 2, V::new(0x80, 1)), Some(V::new(0xFF80, 2)));
        assert_eq!(subpiece(1, 1, V::new(0xABCD, 2)), V::new(0xAB, 1));
        assert_eq!(V::new(u128::MAX, 16).s(), -1);
    }
}
