//! `irb` — small builder helpers for IR terms and x86-64-style projects.
//! (The crate's own mocks are `#[cfg(test)]` and not reachable from here.)

use crate::conv::*;
use cwe_checker_lib::intermediate_representation::*;
use std::collections::{BTreeMap, BTreeSet};

pub fn var(name: &str, size: u64) -> Variable {
    Variable { name: name.to_string(), size: ByteSize::new(size), is_temp: false }
}
pub fn tmp(name: &str, size: u64) -> Variable {
    Variable { name: name.to_string(), size: ByteSize::new(size), is_temp: true }
}
pub fn reg(name: &str) -> Variable {
    var(name, 8)
}

pub const GPR64: &[&str] = &[
    "RAX", "RBX", "RCX", "RDX", "RSI", "RDI", "RBP", "RSP", "R8", "R9", "R10", "R11", "R12", "R13", "R14", "R15",
];
pub const FLAGS: &[&str] = &["ZF", "CF", "SF", "OF"];
pub const PARAM_REGS: &[&str] = &["RDI", "RSI", "RDX", "RCX", "R8", "R9"];
pub const CALLEE_SAVED: &[&str] = &["RBP", "RBX", "RSP", "R12", "R13", "R14", "R15"];

pub fn e_var(v: &Variable) -> Expression {
    Expression::Var(v.clone())
}
pub fn e_reg(name: &str) -> Expression {
    Expression::Var(reg(name))
}
pub fn e_const(val: i64, w: u32) -> Expression {
    Expression::Const(bv_i(val, w))
}
pub fn e_bin(op: BinOpType, l: Expression, r: Expression) -> Expression {
    Expression::BinOp { op, lhs: Box::new(l), rhs: Box::new(r) }
}
pub fn e_un(op: UnOpType, a: Expression) -> Expression {
    Expression::UnOp { op, arg: Box::new(a) }
}
pub fn e_cast(op: CastOpType, size: u32, a: Expression) -> Expression {
    Expression::Cast { op, size: bs(size), arg: Box::new(a) }
}
pub fn e_subpiece(low: u32, size: u32, a: Expression) -> Expression {
    Expression::Subpiece { low_byte: bs(low), size: bs(size), arg: Box::new(a) }
}
/// `reg + offset` (or just `reg` if offset == 0)
pub fn e_reg_off(name: &str, off: i64) -> Expression {
    if off == 0 {
        e_reg(name)
    } else {
        e_bin(BinOpType::IntAdd, e_reg(name), e_const(off, 8))
    }
}

/// Tid with id and address (the `id` field is private: go through serde).
pub fn tid(id: &str, address: &str) -> Tid {
    serde_json::from_value(serde_json::json!({"id": id, "address": address})).unwrap()
}
pub fn tid_id(t: &Tid) -> String {
    format!("{t}")
}

pub fn assign(t: Tid, v: Variable, value: Expression) -> Term<Def> {
    Term { tid: t, term: Def::Assign { var: v, value } }
}
pub fn load(t: Tid, v: Variable, address: Expression) -> Term<Def> {
    Term { tid: t, term: Def::Load { var: v, address } }
}
pub fn store(t: Tid, address: Expression, value: Expression) -> Term<Def> {
    Term { tid: t, term: Def::Store { address, value } }
}
pub fn jmp(t: Tid, j: Jmp) -> Term<Jmp> {
    Term { tid: t, term: j }
}
pub fn blk(t: Tid, defs: Vec<Term<Def>>, jmps: Vec<Term<Jmp>>) -> Term<Blk> {
    Term { tid: t, term: Blk { defs, jmps, indirect_jmp_targets: Vec::new() } }
}
pub fn sub(t: Tid, name: &str, blocks: Vec<Term<Blk>>) -> Term<Sub> {
    Term { tid: t, term: Sub { name: name.to_string(), blocks, calling_convention: None } }
}

pub fn cconv_sysv() -> CallingConvention {
    CallingConvention {
        name: "__stdcall".to_string(),
        integer_parameter_register: PARAM_REGS.iter().map(|n| reg(n)).collect(),
        float_parameter_register: Vec::new(),
        integer_return_register: vec![reg("RAX"), reg("RDX")],
        float_return_register: Vec::new(),
        callee_saved_register: CALLEE_SAVED.iter().map(|n| reg(n)).collect(),
    }
}

pub fn datatypes_x64() -> DatatypeProperties {
    DatatypeProperties {
        char_size: bs(1),
        double_size: bs(8),
        float_size: bs(4),
        integer_size: bs(4),
        long_double_size: bs(16),
        long_long_size: bs(8),
        long_size: bs(8),
        pointer_size: bs(8),
        short_size: bs(2),
    }
}

/// Extern symbol with register parameters / one optional return register.
pub fn extern_symbol(name: &str, t: Tid, params: &[&str], ret: Option<&str>, no_return: bool) -> ExternSymbol {
    ExternSymbol {
        tid: t,
        addresses: vec!["UNKNOWN".to_string()],
        name: name.to_string(),
        calling_convention: Some("__stdcall".to_string()),
        parameters: params.iter().map(|p| Arg::Register { expr: e_reg(p), data_type: None }).collect(),
        return_values: ret.iter().map(|r| Arg::Register { expr: e_reg(r), data_type: None }).collect(),
        no_return,
        has_var_args: false,
    }
}

pub fn program(subs: Vec<Term<Sub>>, externs: Vec<ExternSymbol>, entry: Option<Tid>) -> Program {
    Program {
        subs: subs.into_iter().map(|s| (s.tid.clone(), s)).collect(),
        extern_symbols: externs.into_iter().map(|e| (e.tid.clone(), e)).collect(),
        entry_points: entry.into_iter().collect::<BTreeSet<_>>(),
        address_base_offset: 0,
    }
}

/// x86-64 project around a program (registers, System-V calling convention as `__stdcall`, empty memory image).
pub fn project_x64(prog: Program) -> Project {
    let mut register_set: BTreeSet<Variable> = GPR64.iter().map(|n| reg(n)).collect();
    for f in FLAGS {
        register_set.insert(var(f, 1));
    }
    Project {
        program: Term { tid: Tid::new("program"), term: prog },
        cpu_architecture: "x86_64".to_string(),
        stack_pointer_register: reg("RSP"),
        calling_conventions: BTreeMap::from([("__stdcall".to_string(), cconv_sysv())]),
        register_set,
        datatype_properties: datatypes_x64(),
        runtime_memory_image: RuntimeMemoryImage::empty(true),
    }
}

/// Render a sub as text (for samples / violation details).
pub fn show_sub(s: &Term<Sub>) -> String {
    let mut out = format!("SUB [{}] {}\n", s.tid, s.term.name);
    for b in &s.term.blocks {
        out += &format!("  BLK [{}]\n", b.tid);
        for d in &b.term.defs {
            out += &format!("    [{}] {}\n", d.tid, d.term);
        }
        for j in &b.term.jmps {
            out += &format!("    [{}] {}\n", j.tid, j.term);
        }
        if !b.term.indirect_jmp_targets.is_empty() {
            out += &format!("    indirect targets: {:?}\n", b.term.indirect_jmp_targets.iter().map(|t| format!("{t}")).collect::<Vec<_>>());
        }
    }
    out
}

pub fn show_program(p: &Program) -> String {
    let mut out = String::new();
    for s in p.subs.values() {
        out += &show_sub(s);
    }
    for e in p.extern_symbols.values() {
        out += &format!("EXTERN [{}] {} no_return={}\n", e.tid, e.name, e.no_return);
    }
    out
}

/// `Project` cannot go through `serde_json::Value` directly (maps keyed by `Tid`); use list form.
pub fn project_to_json(p: &Project) -> serde_json::Value {
    serde_json::json!({
        "program_tid": p.program.tid,
        "subs": p.program.term.subs.values().collect::<Vec<_>>(),
        "extern_symbols": p.program.term.extern_symbols.values().collect::<Vec<_>>(),
        "entry_points": p.program.term.entry_points,
        "address_base_offset": p.program.term.address_base_offset,
        "cpu_architecture": p.cpu_architecture,
        "stack_pointer_register": p.stack_pointer_register,
        "calling_conventions": p.calling_conventions,
        "register_set": p.register_set,
        "datatype_properties": p.datatype_properties,
        "runtime_memory_image": p.runtime_memory_image,
    })
}

pub fn project_from_json(v: &serde_json::Value) -> Result<Project, String> {
    fn get<T: serde::de::DeserializeOwned>(v: &serde_json::Value, k: &str) -> Result<T, String> {
        serde_json::from_value(v[k].clone()).map_err(|e| format!("field {k}: {e}"))
    }
    let subs: Vec<Term<Sub>> = get(v, "subs")?;
    let externs: Vec<ExternSymbol> = get(v, "extern_symbols")?;
    Ok(Project {
        program: Term {
            tid: get(v, "program_tid")?,
            term: Program {
                subs: subs.into_iter().map(|s| (s.tid.clone(), s)).collect(),
                extern_symbols: externs.into_iter().map(|e| (e.tid.clone(), e)).collect(),
                entry_points: get(v, "entry_points")?,
                address_base_offset: get(v, "address_base_offset")?,
            },
        },
        cpu_architecture: get(v, "cpu_architecture")?,
        stack_pointer_register: get(v, "stack_pointer_register")?,
        calling_conventions: get(v, "calling_conventions")?,
        register_set: get(v, "register_set")?,
        datatype_properties: get(v, "datatype_properties")?,
        runtime_memory_image: get(v, "runtime_memory_image")?,
    })
}
