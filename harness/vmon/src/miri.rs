//! Shared helper: run a `logmon` subcommand under Miri (thorough tiers only).
//! Unavailable Miri / build failure / timeout are *inconclusive*, never a verdict.

use crate::core::*;
use serde_json::json;
use std::process::Command;

pub enum MiriOutcome {
    /// exit 0; the tail of the output is kept for the evidence
    Clean(String),
    /// logmon itself reported a violating case (its VIOLATION line)
    Violation(String),
    /// Miri reported undefined behaviour / a data race / a deadlock
    Ub(String),
    Inconclusive(String),
}

/// `args`: logmon arguments, e.g. ["c01-wide", "300", "1"]. `many_seeds`: Some((lo, hi)) adds -Zmiri-many-seeds=lo..hi.
pub fn run_logmon_under_miri(cfg: &Cfg, args: &[String], many_seeds: Option<(u64, u64)>, timeout_s: u64) -> MiriOutcome {
    run_logmon_under_miri_with(cfg, args, many_seeds, timeout_s, "")
}

/// `extra_flags`: additional MIRIFLAGS (e.g. "-Zmiri-disable-stacked-borrows").
pub fn run_logmon_under_miri_with(cfg: &Cfg, args: &[String], many_seeds: Option<(u64, u64)>, timeout_s: u64, extra_flags: &str) -> MiriOutcome {
    let mut flags = format!("-Zmiri-disable-isolation -Zmiri-ignore-leaks {extra_flags}");
    if let Some((lo, hi)) = many_seeds {
        flags += &format!(" -Zmiri-many-seeds={lo}..{hi}");
    }
    let mut cmd = Command::new("timeout");
    cmd.args(["-k", "10", &timeout_s.to_string(), "cargo", "+nightly", "miri", "run", "--offline", "--target-dir", "target-miri", "--bin", "logmon", "--"]);
    cmd.args(args);
    cmd.current_dir(&cfg.harness_dir)
        .env("MIRIFLAGS", flags)
        .env("RUST_BACKTRACE", "0")
        .env("CARGO_NET_OFFLINE", "true")
        .env("CARGO_TERM_COLOR", "never");
    let out = match cmd.output() {
        Ok(o) => o,
        Err(e) => return MiriOutcome::Inconclusive(format!("cannot start cargo miri: {e}")),
    };
    let text = format!("{}\n{}", String::from_utf8_lossy(&out.stdout), String::from_utf8_lossy(&out.stderr));
    let tail: String = {
        let lines: Vec<&str> = text.lines().collect();
        lines[lines.len().saturating_sub(12)..].join("\n")
    };
    if let Some(l) = text.lines().find(|l| l.starts_with("VIOLATION")) {
        return MiriOutcome::Violation(l.chars().take(2000).collect());
    }
    if text.contains("Undefined Behavior") || text.contains("Data race detected") || text.contains("deadlock") {
        let l = text.lines().find(|l| l.contains("Undefined Behavior") || l.contains("Data race") || l.contains("deadlock")).unwrap_or("");
        return MiriOutcome::Ub(format!("{l}\n{tail}"));
    }
    match out.status.code() {
        Some(0) => MiriOutcome::Clean(tail),
        Some(124) | Some(137) => MiriOutcome::Inconclusive(format!("Miri run exceeded {timeout_s} s and was killed")),
        other => MiriOutcome::Inconclusive(format!("cargo miri ended with {other:?}: {tail}")),
    }
}

/// Fold an outcome into a report (signature prefix `miri:`).
pub fn fold(rep: &mut Report, what: &str, args: &[String], outcome: MiriOutcome) {
    let case = json!({"kind": "miri", "args": args});
    match outcome {
        MiriOutcome::Clean(tail) => {
            rep.obs(&format!("miri:{what}:clean-runs"));
            rep.extra.insert(format!("miri:{what}"), json!({"args": args, "result": "clean", "output_tail": tail}));
        }
        MiriOutcome::Violation(l) => rep.violation(format!("miri:{what}:violating-case"), None, format!("under Miri: {l}"), case, 5),
        MiriOutcome::Ub(t) => rep.violation(format!("miri:{what}:undefined-behaviour"), None, format!("Miri reports undefined behaviour: {t}"), case, 1),
        MiriOutcome::Inconclusive(why) => {
            rep.inconclusive(&format!("miri:{what}:not-decided"));
            rep.note(format!("Miri layer for {what} not decided: {why}"));
            rep.extra.insert(format!("miri:{what}"), json!({"args": args, "result": "inconclusive", "why": why}));
        }
    }
}
