//! C10 — optimizing normalization preserves program behaviour.
//!
//! Differential execution ("translation validation by running"): random basic-normalized
//! functions are executed by the reference interpreter `irx` from random initial states
//! before and after `normalize_optimize`, and before/after every single pass.

use crate::core::*;
use crate::irb::*;
use crate::irx::{Ev, Machine, NoObserver, State};
use crate::pref::V;
use crate::prng::Rng;
use cwe_checker_lib::analysis;
use cwe_checker_lib::intermediate_representation::*;
use serde_json::{json, Value};

pub fn info() -> CheckInfo {
    CheckInfo {
        id: "C10",
        rule: "random basic-normalized x86-64-style functions (register/flag/temporary arithmetic incl. the rewrite patterns of the optimizer, loads/stores via reg+-const, conditional chains over a small pool of shared conditions, empty forwarding blocks, stack-pointer adjustment and masking in the entry block, extern/internal/indirect calls, returns) executed by the independent interpreter irx from random initial states before and after each single optimisation pass and after the whole normalize_optimize pipeline; observable trace = loads/stores (address,size,value), calls/indirect jumps/returns with targets, register+memory digest at every call, return and dead end. non-trivial = the optimised program differs from the input and the compared trace contains at least one memory event or call; distinct = hash of the program",
        assumptions: &[
            "irx/pref are a correct reading of the IR / P-Code semantics; calls are opaque and havoc caller-saved registers identically in both runs",
            "temporaries are defined before use inside their block; conditions and flags hold 0/1; the stack pointer is a multiple of 2^16 at function entry; masks on the stack pointer are -2^k with k<=8; no load into the stack pointer",
            "the value of a return-target expression is not an observable (statement: targets of calls, indirect jumps and returns are compared, the return expression is not evaluated)",
        ],
        run,
        replay,
    }
}

const REGS8: &[&str] = &["RAX", "RBX", "RCX", "RDX", "RSI", "RDI", "RBP"];
const ADDR_REGS: &[&str] = &["RSP", "RBP", "RBX", "RDI", "RSI"];

pub struct FnGen<'a> {
    pub rng: &'a mut Rng,
    counter: u32,
    temps8: Vec<Variable>,
    temps4: Vec<Variable>,
    temps1: Vec<Variable>,
    cond_pool: Vec<Expression>,
    pub exotic: bool,
    /// generate CALLOTHER jumps with return targets (they have no edge in the CFG)
    pub callother: bool,
}

impl<'a> FnGen<'a> {
    pub fn new(rng: &'a mut Rng) -> FnGen<'a> {
        FnGen { rng, counter: 0, temps8: vec![], temps4: vec![], temps1: vec![], cond_pool: vec![], exotic: false, callother: false }
    }

    fn fresh(&mut self, prefix: &str) -> Tid {
        self.counter += 1;
        tid(&format!("{prefix}_{}", self.counter), &format!("{:04x}", 0x1000 + self.counter * 4))
    }

    fn small_const(&mut self) -> i64 {
        match self.rng.below(8) {
            0 => 0,
            1 => 1,
            2 => -1,
            3 => 8,
            4 => -8,
            5 => 16,
            6 => self.rng.range_i64(-130, 130),
            _ => self.rng.biased(8) as i64,
        }
    }

    pub fn e8(&mut self, depth: u32) -> Expression {
        use BinOpType::*;
        if depth == 0 || self.rng.chance(1, 3) {
            return match self.rng.below(10) {
                0..=5 => e_reg(*self.rng.pick(REGS8)),
                6 if !self.temps8.is_empty() => e_var(&self.rng.pick(&self.temps8).clone()),
                _ => {
                    let c = self.small_const();
                    e_const(c, 8)
                }
            };
        }
        match self.rng.below(16) {
            0..=4 => {
                let op = *self.rng.pick(&[IntAdd, IntSub, IntAnd, IntOr, IntXOr, IntMult, IntAdd, IntSub]);
                let l = self.e8(depth - 1);
                let r = self.e8(depth - 1);
                e_bin(op, l, r)
            }
            5 => {
                // same operand on both sides: a^a, a-a, a|a, a&a
                let op = *self.rng.pick(&[IntXOr, IntSub, IntOr, IntAnd]);
                let a = self.e8(depth - 1);
                e_bin(op, a.clone(), a)
            }
            6 => {
                // with neutral / absorbing constants
                let a = self.e8(depth - 1);
                let (op, c) = *self.rng.pick(&[(IntOr, 0i64), (IntXOr, 0), (IntAnd, -1), (IntAnd, 0), (IntAdd, 0), (IntSub, 0), (IntOr, -1), (IntMult, 1)]);
                if self.rng.bool() {
                    e_bin(op, a, e_const(c, 8))
                } else if op != IntSub {
                    e_bin(op, e_const(c, 8), a)
                } else {
                    e_bin(op, a, e_const(c, 8))
                }
            }
            7 => {
                // nested constant arithmetic (x +- c1) +- c2
                let a = self.e8(depth - 1);
                let (c1, c2) = (self.small_const(), self.small_const());
                let op1 = *self.rng.pick(&[IntAdd, IntSub]);
                let op2 = *self.rng.pick(&[IntAdd, IntSub]);
                let inner = if self.rng.chance(1, 4) { e_bin(op1, e_const(c1, 8), a) } else { e_bin(op1, a, e_const(c1, 8)) };
                e_bin(op2, inner, e_const(c2, 8))
            }
            8 => {
                let op = *self.rng.pick(&[UnOpType::IntNegate, UnOpType::Int2Comp]);
                let a = self.e8(depth - 1);
                if self.rng.bool() {
                    e_un(op, e_un(op, a))
                } else {
                    e_un(op, a)
                }
            }
            9 => {
                let op = *self.rng.pick(&[IntLeft, IntRight, IntSRight]);
                let a = self.e8(depth - 1);
                let amount = *self.rng.pick(&[0i64, 1, 3, 8, 31, 63, 64, 65]);
                e_bin(op, a, e_const(amount, 1))
            }
            10 => {
                let op = *self.rng.pick(&[CastOpType::IntZExt, CastOpType::IntSExt]);
                let a = self.e4(depth - 1);
                if self.rng.chance(1, 3) {
                    // cast of cast (same op) 4 -> 6 -> 8 is unusual; use 2 -> 4 -> 8 via subpiece
                    let inner = e_cast(op, 4, e_subpiece(0, 2, a));
                    e_cast(op, 8, inner)
                } else {
                    e_cast(op, 8, a)
                }
            }
            11 => {
                let hi = self.e4(depth - 1);
                let lo = self.e4(depth - 1);
                e_bin(Piece, hi, lo)
            }
            12 => {
                // zero-extended boolean
                let b = self.e1(depth - 1);
                e_cast(CastOpType::IntZExt, 8, b)
            }
            13 => {
                let a = self.e8(depth - 1);
                e_cast(*self.rng.pick(&[CastOpType::PopCount, CastOpType::LzCount]), 8, a)
            }
            14 => {
                // extension to the same size (trivial cast) / full subpiece
                let a = self.e8(depth - 1);
                if self.rng.bool() {
                    e_cast(CastOpType::IntZExt, 8, a)
                } else {
                    e_subpiece(0, 8, a)
                }
            }
            _ => e_reg(*self.rng.pick(REGS8)),
        }
    }

    pub fn e4(&mut self, depth: u32) -> Expression {
        if depth == 0 || self.rng.chance(1, 3) {
            return match self.rng.below(6) {
                0 if !self.temps4.is_empty() => e_var(&self.rng.pick(&self.temps4).clone()),
                0 | 1 => e_const(self.rng.biased(4) as i64, 4),
                2 => e_subpiece(4, 4, e_reg(*self.rng.pick(REGS8))),
                _ => e_subpiece(0, 4, e_reg(*self.rng.pick(REGS8))),
            };
        }
        match self.rng.below(6) {
            0 => {
                let op = *self.rng.pick(&[BinOpType::IntAdd, BinOpType::IntSub, BinOpType::IntXOr, BinOpType::IntAnd]);
                let l = self.e4(depth - 1);
                let r = self.e4(depth - 1);
                e_bin(op, l, r)
            }
            1 => {
                // subpiece of an extension of exactly this size
                let a = self.e4(depth - 1);
                let op = *self.rng.pick(&[CastOpType::IntZExt, CastOpType::IntSExt]);
                e_subpiece(0, 4, e_cast(op, 8, a))
            }
            2 => {
                // subpiece of piece
                let hi = self.e4(depth - 1);
                let lo = self.e4(depth - 1);
                let low = *self.rng.pick(&[0u32, 4, 2]);
                e_subpiece(low, 4, e_bin(BinOpType::Piece, hi, lo))
            }
            3 => {
                // subpiece of subpiece
                let a = self.e8(depth - 1);
                let l1 = *self.rng.pick(&[0u32, 1, 2]);
                let l2 = *self.rng.pick(&[0u32, 1, 2]);
                e_subpiece(l2, 4, e_subpiece(l1, 6, a))
            }
            _ => {
                let low = *self.rng.pick(&[0u32, 4, 1, 3]);
                let a = self.e8(depth - 1);
                e_subpiece(low, 4, a)
            }
        }
    }

    fn flag(&mut self) -> Expression {
        e_var(&var(*self.rng.pick(FLAGS), 1))
    }

    pub fn e1(&mut self, depth: u32) -> Expression {
        use BinOpType::*;
        if depth == 0 || self.rng.chance(1, 4) {
            return match self.rng.below(6) {
                0 if !self.temps1.is_empty() => e_var(&self.rng.pick(&self.temps1).clone()),
                0 => e_const(self.rng.below(2) as i64, 1),
                _ => self.flag(),
            };
        }
        match self.rng.below(14) {
            0 | 1 => {
                let op = *self.rng.pick(&[IntEqual, IntNotEqual, IntLess, IntSLess, IntLessEqual, IntSLessEqual, IntCarry, IntSCarry, IntSBorrow]);
                let (l, r) = if self.rng.bool() { (self.e8(depth - 1), self.e8(depth - 1)) } else { (self.e4(depth - 1), self.e4(depth - 1)) };
                e_bin(op, l, r)
            }
            2 | 3 => {
                // (a - b) ==/!= 0/1, constant on either side
                let a = self.e8(depth - 1);
                let b = self.e8(depth - 1);
                let op = *self.rng.pick(&[IntEqual, IntNotEqual]);
                let c = e_const(*self.rng.pick(&[0i64, 0, 1, 1, 2, -1]), 8);
                let diff = e_bin(IntSub, a, b);
                if self.rng.bool() {
                    e_bin(op, diff, c)
                } else {
                    e_bin(op, c, diff)
                }
            }
            4 => {
                // (a < b) || (a == b)  and variants with swapped operands / mixed signedness
                let a = self.e8(depth - 1);
                let b = self.e8(depth - 1);
                let less = *self.rng.pick(&[IntSLess, IntLess]);
                let (ea, eb) = if self.rng.chance(1, 3) { (b.clone(), a.clone()) } else { (a.clone(), b.clone()) };
                let l = e_bin(less, a, b);
                let r = e_bin(IntEqual, ea, eb);
                if self.rng.bool() {
                    e_bin(BoolOr, l, r)
                } else {
                    e_bin(BoolOr, r, l)
                }
            }
            5 => {
                // (a <= b) && (a != b)
                let a = self.e8(depth - 1);
                let b = self.e8(depth - 1);
                let le = *self.rng.pick(&[IntSLessEqual, IntLessEqual]);
                let (ea, eb) = if self.rng.chance(1, 3) { (b.clone(), a.clone()) } else { (a.clone(), b.clone()) };
                let l = e_bin(le, a, b);
                let r = e_bin(IntNotEqual, ea, eb);
                if self.rng.bool() {
                    e_bin(BoolAnd, l, r)
                } else {
                    e_bin(BoolAnd, r, l)
                }
            }
            6 => {
                // ((a - b) s< 0) !=/== sborrow(a, b)   (the x86 SF != OF idiom)
                let a = self.e8(depth - 1);
                let b = self.e8(depth - 1);
                let (sa, sb) = if self.rng.chance(1, 4) { (b.clone(), a.clone()) } else { (a.clone(), b.clone()) };
                let lt = e_bin(IntSLess, e_bin(IntSub, a, b), e_const(if self.rng.chance(1, 6) { 1 } else { 0 }, 8));
                let sbo = e_bin(IntSBorrow, sa, sb);
                let op = *self.rng.pick(&[IntNotEqual, IntEqual]);
                if self.rng.bool() {
                    e_bin(op, lt, sbo)
                } else {
                    e_bin(op, sbo, lt)
                }
            }
            7 | 8 => {
                let a = self.e1(depth - 1);
                if self.rng.chance(1, 3) {
                    e_un(UnOpType::BoolNegate, e_un(UnOpType::BoolNegate, a))
                } else {
                    e_un(UnOpType::BoolNegate, a)
                }
            }
            9 | 10 => {
                let op = *self.rng.pick(&[BoolAnd, BoolOr, BoolXOr]);
                let a = self.e1(depth - 1);
                let b = if self.rng.bool() { e_const(self.rng.below(2) as i64, 1) } else { self.e1(depth - 1) };
                if self.rng.bool() {
                    e_bin(op, a, b)
                } else {
                    e_bin(op, b, a)
                }
            }
            11 => {
                // same bool on both sides
                let a = self.e1(depth - 1);
                let op = *self.rng.pick(&[BoolAnd, BoolOr, BoolXOr, IntEqual, IntNotEqual]);
                e_bin(op, a.clone(), a)
            }
            _ => self.flag(),
        }
    }

    fn addr(&mut self) -> Expression {
        let r = *self.rng.pick(ADDR_REGS);
        let off = *self.rng.pick(&[0i64, 8, -8, 16, -16, 4, -4, 24]);
        if self.rng.chance(1, 8) {
            let inner = self.e8(1);
            e_bin(BinOpType::IntAdd, inner, e_const(off, 8))
        } else if self.rng.chance(1, 6) && off != 0 {
            e_bin(BinOpType::IntSub, e_reg(r), e_const(-off, 8))
        } else {
            e_reg_off(r, off)
        }
    }

    fn def(&mut self, defs: &mut Vec<Term<Def>>) {
        let t = self.fresh("def");
        match self.rng.below(20) {
            0..=6 => {
                let target = reg(*self.rng.pick(REGS8));
                let e = self.e8(3);
                defs.push(assign(t, target, e));
            }
            7 | 8 => {
                let target = var(*self.rng.pick(FLAGS), 1);
                let e = self.e1(3);
                defs.push(assign(t, target, e));
            }
            9 | 10 => {
                // new temporary
                let which = self.rng.below(3);
                let name = format!("$U{}", self.counter);
                match which {
                    0 => {
                        let e = self.e8(2);
                        let v = tmp(&name, 8);
                        defs.push(assign(t, v.clone(), e));
                        self.temps8.push(v);
                    }
                    1 => {
                        let e = self.e4(2);
                        let v = tmp(&name, 4);
                        defs.push(assign(t, v.clone(), e));
                        self.temps4.push(v);
                    }
                    _ => {
                        let e = self.e1(2);
                        let v = tmp(&name, 1);
                        defs.push(assign(t, v.clone(), e));
                        self.temps1.push(v);
                    }
                }
            }
            11..=13 => {
                let a = self.addr();
                if self.rng.chance(1, 3) {
                    let name = format!("$U{}", self.counter);
                    if self.rng.bool() {
                        let v = tmp(&name, 8);
                        defs.push(load(t, v.clone(), a));
                        self.temps8.push(v);
                    } else {
                        let v = tmp(&name, 4);
                        defs.push(load(t, v.clone(), a));
                        self.temps4.push(v);
                    }
                } else {
                    defs.push(load(t, reg(*self.rng.pick(REGS8)), a));
                }
            }
            14..=16 => {
                let a = self.addr();
                let v = match self.rng.below(4) {
                    0 => self.e4(2),
                    1 => self.e1(2),
                    _ => self.e8(2),
                };
                defs.push(store(t, a, v));
            }
            17 => {
                // register copy chains (food for expression propagation)
                let a = reg(*self.rng.pick(REGS8));
                let b = reg(*self.rng.pick(REGS8));
                defs.push(assign(t, a, e_var(&b)));
            }
            18 => {
                // stack pointer adjustment
                let c = *self.rng.pick(&[8i64, 16, 24, 32, 128]);
                let op = *self.rng.pick(&[BinOpType::IntSub, BinOpType::IntAdd]);
                defs.push(assign(t, reg("RSP"), e_bin(op, e_reg("RSP"), e_const(c, 8))));
            }
            _ => {
                // assignment depending on its own target; sometimes a run of directly consecutive updates of one register
                // (accumulator code: the pre-pass of expression propagation merges such runs into one assignment)
                let r = *self.rng.pick(REGS8);
                let c = self.small_const();
                defs.push(assign(t, reg(r), e_bin(BinOpType::IntAdd, e_reg(r), e_const(c, 8))));
                if self.rng.chance(1, 3) {
                    let n = self.rng.range_usize(1, 13);
                    for _ in 0..n {
                        let t = self.fresh("def");
                        let op = *self.rng.pick(&[BinOpType::IntAdd, BinOpType::IntXOr, BinOpType::IntSub, BinOpType::IntOr, BinOpType::IntAdd]);
                        let operand = match self.rng.below(10) {
                            0..=4 => e_const(self.small_const(), 8),
                            5..=7 => e_reg(*self.rng.pick(REGS8)),
                            _ => self.e8(2),
                        };
                        let e = if self.rng.chance(1, 5) { e_bin(op, operand, e_reg(r)) } else { e_bin(op, e_reg(r), operand) };
                        defs.push(assign(t, reg(r), e));
                    }
                }
            }
        }
    }

    fn entry_prologue(&mut self, defs: &mut Vec<Term<Def>>) {
        // push rbp; mov rbp, rsp; sub rsp, c; and rsp, -2^k   (in random subsets/orders)
        let n = self.rng.below(5);
        for _ in 0..n {
            let t = self.fresh("def");
            match self.rng.below(6) {
                0 => {
                    defs.push(assign(t, reg("RSP"), e_bin(BinOpType::IntSub, e_reg("RSP"), e_const(8, 8))));
                    let t2 = self.fresh("def");
                    defs.push(store(t2, e_reg("RSP"), e_reg("RBP")));
                }
                1 => defs.push(assign(t, reg("RBP"), e_reg("RSP"))),
                2 => {
                    let c = *self.rng.pick(&[8i64, 16, 24, 40, 100, 256]);
                    let op = *self.rng.pick(&[BinOpType::IntSub, BinOpType::IntSub, BinOpType::IntAdd]);
                    if self.rng.chance(1, 5) && op == BinOpType::IntAdd {
                        defs.push(assign(t, reg("RSP"), e_bin(op, e_const(c, 8), e_reg("RSP"))));
                    } else {
                        defs.push(assign(t, reg("RSP"), e_bin(op, e_reg("RSP"), e_const(c, 8))));
                    }
                }
                3 | 4 => {
                    let k = *self.rng.pick(&[3u32, 4, 4, 4, 5, 6, 8]);
                    let mask = -(1i64 << k);
                    let src = if self.exotic && self.rng.chance(1, 6) { "RBP" } else { "RSP" };
                    if self.rng.chance(1, 4) {
                        defs.push(assign(t, reg("RSP"), e_bin(BinOpType::IntAnd, e_const(mask, 8), e_reg(src))));
                    } else {
                        defs.push(assign(t, reg("RSP"), e_bin(BinOpType::IntAnd, e_reg(src), e_const(mask, 8))));
                    }
                }
                _ => self.def(defs),
            }
        }
    }

    fn condition(&mut self) -> Expression {
        if !self.cond_pool.is_empty() && self.rng.chance(3, 4) {
            let c = self.rng.pick(&self.cond_pool).clone();
            if self.rng.chance(1, 3) {
                e_un(UnOpType::BoolNegate, c)
            } else {
                c
            }
        } else {
            let c = if self.rng.chance(2, 3) { self.flag() } else { self.e1(2) };
            // conditions in the pool must not depend on temporaries (they are block-local)
            if c.input_vars().iter().all(|v| !v.is_temp) {
                self.cond_pool.push(c.clone());
            }
            c
        }
    }

    /// Generate one function. `callees`: tids of internal subs that may be called; `externs`: extern tids.
    pub fn function(&mut self, name: &str, callees: &[Tid], externs: &[Tid]) -> Term<Sub> {
        let n = self.rng.range_usize(1, 9);
        let blk_tids: Vec<Tid> = (0..n).map(|i| tid(&format!("blk_{name}_{i}"), &format!("{name}{i:02}"))).collect();
        self.cond_pool.clear();
        let mut blocks = Vec::new();
        let mut entry_is_target_ok_flag = true;
        for i in 0..n {
            self.temps8.clear();
            self.temps4.clear();
            self.temps1.clear();
            let mut defs = Vec::new();
            let forwarding = i > 0 && self.rng.chance(1, 6);
            if i == 0 {
                self.entry_prologue(&mut defs);
                // Domain guard: an entry block that aligns the stack pointer by masking is executed exactly once
                // (the stack alignment substitution relies on the stack offset at function entry).
                entry_is_target_ok_flag = !defs.iter().any(|d| matches!(&d.term, Def::Assign { value: Expression::BinOp { op: BinOpType::IntAnd, .. }, var } if var.name == "RSP"));
                if n == 1 && !entry_is_target_ok_flag {
                    defs.retain(|d| !matches!(&d.term, Def::Assign { value: Expression::BinOp { op: BinOpType::IntAnd, .. }, var } if var.name == "RSP"));
                    entry_is_target_ok_flag = true;
                }
            }
            if !forwarding {
                let nd = self.rng.below(6);
                for _ in 0..nd {
                    self.def(&mut defs);
                }
            }
            let entry_is_target_ok = entry_is_target_ok_flag;
            let pick_target = |rng: &mut Rng| -> Tid {
                // forward-biased, loops possible
                if i + 1 < n && rng.chance(3, 4) {
                    blk_tids[rng.range_usize(i + 1, n - 1)].clone()
                } else if entry_is_target_ok || n == 1 {
                    blk_tids[rng.usize_below(n)].clone()
                } else {
                    blk_tids[rng.range_usize(1, n - 1)].clone()
                }
            };
            let mut jmps = Vec::new();
            let last = i + 1 == n;
            let choice = if forwarding { 0 } else { self.rng.below(20) };
            match choice {
                0..=4 if !last || forwarding => {
                    let t = pick_target(self.rng);
                    jmps.push(jmp(self.fresh("jmp"), Jmp::Branch(t)));
                }
                5..=11 if !last => {
                    let c = self.condition();
                    let t1 = pick_target(self.rng);
                    let t2 = pick_target(self.rng);
                    jmps.push(jmp(self.fresh("jmp"), Jmp::CBranch { target: t1, condition: c }));
                    jmps.push(jmp(self.fresh("jmp"), Jmp::Branch(t2)));
                }
                12 | 13 if !externs.is_empty() => {
                    let target = self.rng.pick(externs).clone();
                    let ret = if last || self.rng.chance(1, 8) { None } else { Some(pick_target(self.rng)) };
                    jmps.push(jmp(self.fresh("call"), Jmp::Call { target, return_: ret }));
                }
                14 if !callees.is_empty() => {
                    let target = self.rng.pick(callees).clone();
                    let ret = if last { None } else { Some(pick_target(self.rng)) };
                    jmps.push(jmp(self.fresh("call"), Jmp::Call { target, return_: ret }));
                }
                15 => {
                    let target = self.e8(1);
                    let ret = if last || self.rng.chance(1, 8) { None } else { Some(pick_target(self.rng)) };
                    jmps.push(jmp(self.fresh("call"), Jmp::CallInd { target, return_: ret }));
                }
                16 if !last && self.callother => {
                    let ret = Some(pick_target(self.rng));
                    jmps.push(jmp(self.fresh("call"), Jmp::CallOther { description: "CALLOTHER(cpuid)".to_string(), return_: ret }));
                }
                17 => {
                    let target = self.e8(1);
                    jmps.push(jmp(self.fresh("jmp"), Jmp::BranchInd(target)));
                }
                _ => {
                    // return: ret address loaded into a temporary, RSP adjusted
                    if self.rng.bool() {
                        let v = tmp(&format!("$Uret{}", self.counter), 8);
                        defs.push(load(self.fresh("def"), v.clone(), e_reg("RSP")));
                        defs.push(assign(self.fresh("def"), reg("RSP"), e_bin(BinOpType::IntAdd, e_reg("RSP"), e_const(8, 8))));
                        jmps.push(jmp(self.fresh("jmp"), Jmp::Return(e_var(&v))));
                    } else {
                        jmps.push(jmp(self.fresh("jmp"), Jmp::Return(e_reg("RAX"))));
                    }
                }
            }
            blocks.push(blk(blk_tids[i].clone(), defs, jmps));
        }
        sub(tid(&format!("sub_{name}"), &format!("{name}00")), name, blocks)
    }
}

pub fn gen_project(rng: &mut Rng, exotic: bool, callother: bool) -> Project {
    let ext_a = tid("sub_ext_a", "ext_a");
    let ext_b = tid("sub_ext_b", "ext_b");
    let ext_exit = tid("sub_ext_exit", "ext_exit");
    let mut externs = vec![
        extern_symbol("ext_a", ext_a.clone(), &["RDI"], Some("RAX"), false),
        extern_symbol("ext_b", ext_b.clone(), &["RDI", "RSI"], None, false),
    ];
    let mut ext_tids = vec![ext_a, ext_b];
    if rng.chance(1, 3) {
        externs.push(extern_symbol("exit", ext_exit.clone(), &["RDI"], None, true));
        ext_tids.push(ext_exit);
    }
    let mut g = FnGen::new(rng);
    g.exotic = exotic;
    g.callother = callother;
    let mut subs = Vec::new();
    let callee_tid = tid("sub_callee", "callee00");
    let with_callee = g.rng.chance(1, 2);
    let callees: Vec<Tid> = if with_callee { vec![callee_tid.clone()] } else { vec![] };
    let main = g.function("main", &callees, &ext_tids);
    subs.push(main);
    if with_callee {
        let callee = g.function("callee", &callees, &ext_tids);
        subs.push(callee);
    }
    let entry = subs[0].tid.clone();
    let mut project = project_x64(program(subs, externs, Some(entry)));
    let _ = project.normalize_basic();
    project
}

pub fn machine_for(project: &Project, seed: u64) -> Machine {
    let mut m = Machine::new(seed);
    let cconv = project.calling_conventions.get("__stdcall").unwrap();
    m.havoc_regs = project
        .register_set
        .iter()
        .filter(|r| !cconv.callee_saved_register.contains(r))
        .cloned()
        .collect();
    m.digest_regs = Some(project.register_set.iter().cloned().collect());
    m.max_blocks = 120;
    m
}

pub fn initial_state(rng: &mut Rng, project: &Project) -> State {
    let mut st = State::default();
    for r in project.register_set.iter() {
        let w = u64::from(r.size) as u32;
        let v = if w == 1 {
            rng.below(2) as u128
        } else if r.name == "RSP" {
            // aligned stack pointer at function entry
            ((rng.next_u64() >> 20) << 16) as u128 | 0x7000_0000_0000
        } else if rng.chance(1, 4) {
            // another register as alias / near the stack
            (0x7000_0000_0000u64 + ((rng.below(64)) << 3)) as u128
        } else {
            rng.biased(w)
        };
        st.vars.insert(r.clone(), V::new(v, w));
    }
    // make some registers equal to each other (a-b==0 patterns)
    if rng.bool() {
        let a = reg(*rng.pick(REGS8));
        let b = reg(*rng.pick(REGS8));
        let va = st.vars[&a];
        let delta = *rng.pick(&[0u128, 0, 1, 2, u64::MAX as u128]);
        st.vars.insert(b, V::new(va.v.wrapping_add(delta), 8));
    }
    st
}

fn ev_kind(e: &Ev) -> &'static str {
    match e {
        Ev::Load { .. } => "load",
        Ev::Store { .. } => "store",
        Ev::Call { .. } => "call",
        Ev::BranchInd { .. } => "branchind",
        Ev::Return { .. } => "return",
        Ev::DeadEnd { .. } => "deadend",
        Ev::Undefined { .. } => "undefined",
        Ev::NullAbort { .. } => "nullabort",
        Ev::Capped => "capped",
    }
}

fn ev_equal(a: &Ev, b: &Ev) -> bool {
    match (a, b) {
        (Ev::DeadEnd { digest: d1, .. }, Ev::DeadEnd { digest: d2, .. }) => d1 == d2,
        _ => a == b,
    }
}

pub enum Cmp {
    Equal,
    /// one of the runs hit the step cap and the common prefix agrees
    Inconclusive,
    Differ { index: usize, what: String },
}

pub fn compare_traces(t0: &[Ev], t1: &[Ev]) -> Cmp {
    let capped0 = matches!(t0.last(), Some(Ev::Capped));
    let capped1 = matches!(t1.last(), Some(Ev::Capped));
    let n0 = if capped0 { t0.len() - 1 } else { t0.len() };
    let n1 = if capped1 { t1.len() - 1 } else { t1.len() };
    let n = n0.min(n1);
    for i in 0..n {
        if !ev_equal(&t0[i], &t1[i]) {
            return Cmp::Differ { index: i, what: format!("{}-vs-{}", ev_kind(&t0[i]), ev_kind(&t1[i])) };
        }
    }
    if !capped0 && !capped1 {
        if n0 != n1 {
            let what = if n0 > n1 { format!("{}-vs-end", ev_kind(&t0[n])) } else { format!("end-vs-{}", ev_kind(&t1[n])) };
            return Cmp::Differ { index: n, what };
        }
        return Cmp::Equal;
    }
    // at least one capped: the uncapped one must not be shorter than the common prefix of the capped one
    if !capped0 && n0 < n1 {
        return Cmp::Differ { index: n, what: format!("end-vs-{}", ev_kind(&t1[n])) };
    }
    if !capped1 && n1 < n0 {
        return Cmp::Differ { index: n, what: format!("{}-vs-end", ev_kind(&t0[n])) };
    }
    if capped0 && capped1 {
        Cmp::Equal // both capped, common prefix agrees
    } else {
        Cmp::Inconclusive
    }
}

pub const PASSES: &[&str] = &["expression_propagation", "trivial_expression_substitution", "dead_variable_elimination", "control_flow_propagation", "stack_alignment_substitution"];

pub fn apply_pass(project: &mut Project, pass: &str) {
    set_stage(pass);
    match pass {
        "expression_propagation" => analysis::expression_propagation::propagate_input_expression(project),
        "trivial_expression_substitution" => project.substitute_trivial_expressions(),
        "dead_variable_elimination" => analysis::dead_variable_elimination::remove_dead_var_assignments(project),
        "control_flow_propagation" => propagate_control_flow::propagate_control_flow(project),
        "stack_alignment_substitution" => {
            let _ = analysis::stack_alignment_substitution::substitute_and_on_stackpointer(project);
        }
        "normalize_optimize" => {
            let _ = project.normalize_optimize();
        }
        _ => panic!("unknown pass"),
    }
}

fn has_undefined(t: &[Ev]) -> bool {
    matches!(t.last(), Some(Ev::Undefined { .. }))
}

/// Compare `before` and `after` on `n_states` initial states. Returns number of non-trivial compared traces.
#[allow(clippy::too_many_arguments)]
pub fn compare_versions(
    before: &Project,
    after: &Project,
    label: &str,
    state_seed: u64,
    n_states: usize,
    rep: &mut Report,
    case: &dyn Fn() -> Value,
) -> bool {
    let mut interesting = false;
    for (sub_tid, sub0) in before.program.term.subs.iter() {
        if sub_tid.is_artificial_sink_sub() {
            continue;
        }
        let sub1 = match after.program.term.subs.get(sub_tid) {
            Some(s) => s,
            None => {
                rep.violation(format!("{label}:sub-removed"), None, format!("function {sub_tid} disappeared after {label}"), case(), 1000);
                continue;
            }
        };
        for k in 0..n_states {
            let mut rng = Rng::derive(state_seed, "c10-state", k as u64);
            let st0 = initial_state(&mut rng, before);
            let m = machine_for(before, rng.next_u64());
            let mut s0 = st0.clone();
            let mut s1 = st0.clone();
            let t0 = m.run_sub(sub0, &mut s0, &mut NoObserver);
            rep.eval();
            if has_undefined(&t0) {
                rep.inconclusive("original-program-undefined");
                if let Some(Ev::Undefined { what }) = t0.last() {
                    rep.note(format!("undefined behaviour in an original program: {what}"));
                }
                continue;
            }
            let t1 = match guard(|| m.run_sub(sub1, &mut s1, &mut NoObserver)) {
                Ok(t) => t,
                Err(p) => {
                    rep.inconclusive(&format!("harness-panic:{}", panic_site(&p)));
                    continue;
                }
            };
            match compare_traces(&t0, &t1) {
                Cmp::Equal => {
                    if t0.iter().any(|e| matches!(e, Ev::Load { .. } | Ev::Store { .. } | Ev::Call { .. })) {
                        interesting = true;
                    }
                    rep.obs(&format!("{label}:equal"));
                }
                Cmp::Inconclusive => rep.inconclusive("step-cap-hit-in-only-one-version"),
                Cmp::Differ { index, what } => {
                    let show = |t: &[Ev]| -> String {
                        let lo = index.saturating_sub(2);
                        t.iter().enumerate().skip(lo).take(5).map(|(i, e)| format!("    [{i}] {e:?}")).collect::<Vec<_>>().join("\n")
                    };
                    let detail = format!(
                        "after pass '{label}' function {sub_tid} behaves differently from initial state #{k} (state seed {state_seed}): first difference at event {index} ({what})\n  before:\n{}\n  after:\n{}\n--- function before:\n{}--- function after:\n{}",
                        show(&t0), show(&t1), show_sub(sub0), show_sub(sub1)
                    );
                    let size = sub0.term.blocks.iter().map(|b| 2 + b.term.defs.len() as u64).sum::<u64>() * 4 + before.program.term.subs.len() as u64;
                    rep.violation(format!("{label}:{what}"), None, detail, case(), size);
                }
            }
        }
    }
    interesting
}

/// Check one generated project: each pass alone, the cumulative pipeline step by step, and normalize_optimize as a whole.
pub fn check_project(base: &Project, state_seed: u64, n_states: usize, rep: &mut Report) {
    let case = || json!({"project": project_to_json(base), "state_seed": state_seed, "n_states": n_states});
    let mut any_change = false;
    let mut interesting = false;
    // single passes on the base program
    for pass in PASSES {
        let mut p = base.clone();
        match guard(|| apply_pass(&mut p, pass)) {
            Ok(()) => (),
            Err(msg) => {
                rep.violation(format!("{pass}:panic:{}", panic_site(&msg)), None, format!("pass {pass} panicked: {msg}\n{}", show_program(&base.program.term)), case(), 500);
                continue;
            }
        }
        if p != *base {
            any_change = true;
            rep.obs(&format!("{pass}:changed-program"));
            interesting |= compare_versions(base, &p, pass, state_seed, n_states, rep, &case);
        }
    }
    // cumulative pipeline
    let mut cur = base.clone();
    for pass in PASSES {
        let mut next = cur.clone();
        match guard(|| apply_pass(&mut next, pass)) {
            Ok(()) => (),
            Err(msg) => {
                rep.violation(format!("pipeline:{pass}:panic:{}", panic_site(&msg)), None, format!("pass {pass} (in pipeline order) panicked: {msg}"), case(), 500);
                break;
            }
        }
        if next != cur {
            interesting |= compare_versions(&cur, &next, &format!("pipeline:{pass}"), state_seed ^ 0x77, (n_states / 2).max(2), rep, &case);
        }
        cur = next;
    }
    // whole pipeline as the analyzer runs it
    let mut full = base.clone();
    match guard(|| apply_pass(&mut full, "normalize_optimize")) {
        Ok(()) => {
            if full != cur {
                // Not a C10 matter (both results are judged by execution); recorded because it shows that the
                // optimiser's output depends on hash iteration order (relevant for C23).
                rep.obs("normalize_optimize-differs-from-pass-sequence(nondeterministic-output)");
            }
            if full != *base {
                interesting |= compare_versions(base, &full, "normalize_optimize", state_seed ^ 0x99, n_states, rep, &case);
            }
        }
        Err(msg) => rep.violation(format!("normalize_optimize:panic:{}", panic_site(&msg)), None, format!("normalize_optimize panicked: {msg}"), case(), 500),
    }
    if any_change && interesting {
        rep.nontrivial(fp_of(&base.program));
    }
    let nblocks: usize = base.program.term.subs.values().map(|s| s.term.blocks.len()).sum();
    rep.obs(&format!("blocks:{}", nblocks.min(20)));
}

pub const KNOWN_CALLOTHER: &str = "c10-callother-no-cfg-edge";

/// The same program with every returning CALLOTHER replaced by an indirect call (which has a stub edge in the CFG).
fn callother_variant(base: &Project) -> Project {
    let mut p = base.clone();
    let mut k = 0i64;
    for sub in p.program.term.subs.values_mut() {
        for blk in sub.term.blocks.iter_mut() {
            for j in blk.term.jmps.iter_mut() {
                if let Jmp::CallOther { return_, .. } = &j.term {
                    k += 1;
                    j.term = Jmp::CallInd { target: e_const(0xCA11_0000 + k, 8), return_: return_.clone() };
                }
            }
        }
    }
    p
}

/// Workload with CALLOTHER jumps. CALLOTHER has (by a documented TODO in the CFG builder) no edge in the
/// control flow graph, so passes that rely on the CFG mis-handle its return site. Discriminator for that
/// known finding: the violation disappears when every CALLOTHER is replaced by an indirect call.
pub fn check_callother_project(base: &Project, state_seed: u64, n_states: usize, rep: &mut Report) {
    let mut tmp = Report::new();
    check_project(base, state_seed, n_states, &mut tmp);
    if !tmp.violations.is_empty() {
        let variant = callother_variant(base);
        let mut tmp2 = Report::new();
        check_project(&variant, state_seed, n_states, &mut tmp2);
        let accepted = tmp2.violations.is_empty();
        let old = std::mem::take(&mut tmp.violations);
        for (sig, mut v) in old {
            v.signature = format!("callother-workload:{sig}");
            v.known_key = if accepted { Some(KNOWN_CALLOTHER.to_string()) } else { None };
            if let Some(obj) = v.case.as_object_mut() {
                obj.insert("workload".into(), json!("callother"));
            }
            tmp.violations.insert(v.signature.clone(), v);
        }
        tmp.obs(if accepted { "callother:violation-matches-known-finding" } else { "callother:violation-not-explained" });
    }
    rep.merge(tmp);
}

/// CPU-time bound for all passes and reference runs of one generated program (normal: a few milliseconds).
const PASS_CPU_LIMIT_MS: u64 = 20_000;

/// The passes run on a helper thread with a CPU-time bound: a pass that does not terminate is reported, not waited for.
pub fn check_bounded(worker: &mut BoundedWorker, project: &Project, state_seed: u64, n_states: usize, callother: bool, rep: &mut Report) {
    if ABANDONED_THREADS.load(std::sync::atomic::Ordering::SeqCst) >= ABANDONED_CAP {
        rep.inconclusive("program-skipped-after-repeated-non-termination");
        return;
    }
    let p2 = project.clone();
    let bounded = worker.run(PASS_CPU_LIMIT_MS, move || {
        let mut local = Report::new();
        if callother {
            check_callother_project(&p2, state_seed, n_states, &mut local);
        } else {
            check_project(&p2, state_seed, n_states, &mut local);
        }
        local
    });
    match bounded {
        Bounded::Done(local) => rep.merge(local),
        Bounded::Hang { cpu_ms, stage } => {
            rep.eval();
            let size: u64 = project.program.term.subs.values().map(|s| s.term.blocks.iter().map(|b| 2 + b.term.defs.len() as u64).sum::<u64>()).sum();
            rep.violation(
                format!("{stage}:no-termination"),
                None,
                format!("pass {stage} had not returned after {cpu_ms} ms of CPU time on a program of {size} terms (a normal run takes well under 10 ms); abandoned\n{}", show_program(&project.program.term)),
                json!({"project": project_to_json(project), "state_seed": state_seed, "n_states": n_states, "workload": if callother { "callother" } else { "main" }}),
                size,
            );
        }
        Bounded::Starved => rep.inconclusive("helper-thread-starved"),
        Bounded::Died => rep.inconclusive("helper-thread-died"),
    }
}

fn run(cfg: &Cfg) -> Report {
    let shards = cfg.tier.pick(1024usize, 2048usize);
    let per_shard = cfg.tier.pick(40usize, 50usize);
    let n_states = cfg.tier.pick(16usize, 64usize);
    par_shards(cfg, "c10", shards, |idx, rng, rep| {
        let mut worker = BoundedWorker::new();
        for i in 0..per_shard {
            let callother = idx % 8 == 7;
            let project = match guard(|| gen_project(rng, false, callother)) {
                Ok(p) => p,
                Err(msg) => {
                    rep.inconclusive(&format!("generator-or-normalize_basic-panic:{}", panic_site(&msg)));
                    continue;
                }
            };
            let state_seed = rng.next_u64();
            check_bounded(&mut worker, &project, state_seed, n_states, callother, rep);
            rep.obs(if callother { "workload:callother" } else { "workload:main" });
            if idx == 0 && i < 2 {
                rep.sample(json!({"program": show_program(&project.program.term), "state_seed": state_seed, "initial_states": n_states}));
            }
        }
    })
}

fn replay(_cfg: &Cfg, case: &Value) -> Report {
    let mut rep = Report::new();
    match project_from_json(&case["project"]) {
        Ok(project) => {
            let seed = case["state_seed"].as_u64().unwrap_or(1);
            let n = case["n_states"].as_u64().unwrap_or(16) as usize;
            check_bounded(&mut BoundedWorker::new(), &project, seed, n, case["workload"] == json!("callother"), &mut rep);
        }
        Err(e) => rep.note(format!("cannot parse replay case: {e}")),
    }
    rep
}
