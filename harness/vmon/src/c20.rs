//! C20 — format-string parsing yields the arguments the format consumes.
//!
//! Monitor shape: grammar-based generator + an independent hand-written scanner
//! of the supported grammar (no regex) next to the real
//! `utils::arguments::parse_format_string_parameters`.
//!
//! Grammar (from the property statement / the documentation of the parser):
//!   format  := ( literal | "%%" | spec )*
//!   literal := any text without '%'
//!   spec    := '%' [one of + - # 0]? [0-9]* ( '.' [0-9]* )? conv
//!   conv    := c C d i o u x X e E f F g G a A n p s S
//!            | hi hd hu | li ld lu | lli lld llu
//!            | lf lg le la lF lG lE lA | Lf Lg Le La LF LG LE LA
//! Documented argument types (printf(3)/scanf(3) + default argument promotion):
//!   c C            -> char promoted to int           (Char or Integer, size of int)
//!   d i o u x X    -> int                            (Integer, size of int)
//!   hi hd hu       -> short promoted to int          (Integer or Short, size of int)
//!   e E f F g G a A and the l-prefixed float forms -> double (Double, size of double)
//!   s S n p        -> pointer                        (Pointer, size of pointer)
//!   li ld lu / lli lld llu / L-forms -> long / long long / long double: the whole string is rejected (Err).

use crate::core::*;
use crate::prng::{hash_str, mix, Rng};
use cwe_checker_lib::intermediate_representation::{ByteSize, Datatype, DatatypeProperties};
use cwe_checker_lib::utils::arguments::parse_format_string_parameters;
use serde_json::{json, Value};

pub fn info() -> CheckInfo {
    CheckInfo {
        id: "C20",
        rule: "format strings generated from the supported grammar (literal text without '%', '%%' escapes, %[flag][width][.precision]conv over all 45 listed conversion/length forms) are parsed by parse_format_string_parameters under 5 DatatypeProperties configurations and compared with an independent hand-written scanner: same number of entries, in order, documented data type and size (char/short promoted to int), Err iff a long/long long/long double form occurs. Part 1 exhaustive: every single conversion spec x flag x width x precision x 7 prefix contexts x 7 suffix contexts; part 2 random sequences of 0..8 items with adversarial adjacency ('%%' before conversion letters/digits/length prefixes, back-to-back conversions, odd/even runs of '%'). non-trivial = the string contains at least one '%'; distinct = hash of (string, configuration)",
        assumptions: &[
            "only strings inside the stated grammar are generated: every '%' starts either '%%' or a complete conversion specification with at most one flag, ASCII digits, and one of the listed conversion/length forms; '*' widths, the space flag, 'hh', 'j', 'z', 't', 'q' and positional '$' forms are outside the grammar and not generated",
            "documented types are taken from printf(3)/scanf(3): %p consumes a pointer; %c/%C consume an int-sized argument (the implementation may call it Char or Integer); %h* consume an int-sized argument (Integer or Short accepted)",
            "the generator's constructive expectation and the scanner's expectation must agree, otherwise the case is inconclusive (never a verdict)",
            "verdicts on the release profile",
        ],
        run,
        replay,
    }
}

// ---------------------------------------------------------------------------
// The oracle: an independent scanner of the grammar.

#[derive(Clone, Copy, PartialEq, Eq, Debug)]
enum Kind {
    CharInt,
    Int,
    ShortInt,
    Dbl,
    Ptr,
    Long,
    LongLong,
    LongDouble,
}

/// All conversion/length forms of the grammar with the kind of argument they consume.
const FORMS: &[(&str, Kind)] = &[
    ("c", Kind::CharInt),
    ("C", Kind::CharInt),
    ("d", Kind::Int),
    ("i", Kind::Int),
    ("o", Kind::Int),
    ("u", Kind::Int),
    ("x", Kind::Int),
    ("X", Kind::Int),
    ("e", Kind::Dbl),
    ("E", Kind::Dbl),
    ("f", Kind::Dbl),
    ("F", Kind::Dbl),
    ("g", Kind::Dbl),
    ("G", Kind::Dbl),
    ("a", Kind::Dbl),
    ("A", Kind::Dbl),
    ("n", Kind::Ptr),
    ("p", Kind::Ptr),
    ("s", Kind::Ptr),
    ("S", Kind::Ptr),
    ("hi", Kind::ShortInt),
    ("hd", Kind::ShortInt),
    ("hu", Kind::ShortInt),
    ("li", Kind::Long),
    ("ld", Kind::Long),
    ("lu", Kind::Long),
    ("lli", Kind::LongLong),
    ("lld", Kind::LongLong),
    ("llu", Kind::LongLong),
    ("lf", Kind::Dbl),
    ("lg", Kind::Dbl),
    ("le", Kind::Dbl),
    ("la", Kind::Dbl),
    ("lF", Kind::Dbl),
    ("lG", Kind::Dbl),
    ("lE", Kind::Dbl),
    ("lA", Kind::Dbl),
    ("Lf", Kind::LongDouble),
    ("Lg", Kind::LongDouble),
    ("Le", Kind::LongDouble),
    ("La", Kind::LongDouble),
    ("LF", Kind::LongDouble),
    ("LG", Kind::LongDouble),
    ("LE", Kind::LongDouble),
    ("LA", Kind::LongDouble),
];

/// One argument-consuming conversion found by the scanner: (form index, byte offset of its '%', end offset).
type Found = (usize, usize, usize);

/// Scan `s` with the grammar. `Err(pos)` = the string is outside the grammar at byte `pos`.
fn scan(s: &str) -> Result<Vec<Found>, usize> {
    let b = s.as_bytes();
    let mut out = Vec::new();
    let mut i = 0;
    while i < b.len() {
        if b[i] != b'%' {
            i += 1; // literal text (bytes of multi-byte characters are never '%')
            continue;
        }
        let start = i;
        i += 1;
        if b.get(i) == Some(&b'%') {
            i += 1; // escape, consumes no argument
            continue;
        }
        if matches!(b.get(i), Some(b'+' | b'-' | b'#' | b'0')) {
            i += 1;
        }
        while matches!(b.get(i), Some(c) if c.is_ascii_digit()) {
            i += 1;
        }
        if b.get(i) == Some(&b'.') {
            i += 1;
            while matches!(b.get(i), Some(c) if c.is_ascii_digit()) {
                i += 1;
            }
        }
        // the forms are prefix-free, so at most one of them matches here
        let rest = &b[i..];
        match FORMS.iter().position(|(f, _)| rest.starts_with(f.as_bytes())) {
            Some(idx) => {
                i += FORMS[idx].0.len();
                out.push((idx, start, i));
            }
            None => return Err(start),
        }
    }
    Ok(out)
}

fn rejected(k: Kind) -> bool {
    matches!(k, Kind::Long | Kind::LongLong | Kind::LongDouble)
}

/// Accepted data types and the size of the consumed argument for one kind.
fn expected_entry(k: Kind, p: &DatatypeProperties) -> (&'static [Datatype], ByteSize) {
    match k {
        Kind::CharInt => (&[Datatype::Char, Datatype::Integer], p.integer_size),
        Kind::Int => (&[Datatype::Integer], p.integer_size),
        Kind::ShortInt => (&[Datatype::Integer, Datatype::Short], p.integer_size),
        Kind::Dbl => (&[Datatype::Double], p.double_size),
        Kind::Ptr => (&[Datatype::Pointer], p.pointer_size),
        Kind::Long => (&[Datatype::Long], p.long_size),
        Kind::LongLong => (&[Datatype::LongLong], p.long_long_size),
        Kind::LongDouble => (&[Datatype::LongDouble], p.long_double_size),
    }
}

// ---------------------------------------------------------------------------
// Configurations

fn props(char_: u64, short: u64, int: u64, long: u64, longlong: u64, float: u64, double: u64, longdouble: u64, pointer: u64) -> DatatypeProperties {
    DatatypeProperties {
        char_size: ByteSize::new(char_),
        double_size: ByteSize::new(double),
        float_size: ByteSize::new(float),
        integer_size: ByteSize::new(int),
        long_double_size: ByteSize::new(longdouble),
        long_long_size: ByteSize::new(longlong),
        long_size: ByteSize::new(long),
        pointer_size: ByteSize::new(pointer),
        short_size: ByteSize::new(short),
    }
}

fn configs() -> Vec<(&'static str, DatatypeProperties)> {
    vec![
        ("lp64", props(1, 2, 4, 8, 8, 4, 8, 16, 8)),
        ("ilp32", props(1, 2, 4, 4, 8, 4, 8, 12, 4)),
        ("int16", props(1, 2, 2, 4, 8, 4, 4, 8, 2)),
        ("all-distinct", props(1, 2, 3, 5, 7, 4, 6, 11, 9)),
        ("ilp64", props(1, 2, 8, 8, 8, 4, 8, 16, 8)),
    ]
}

// ---------------------------------------------------------------------------
// The check of one (string, configuration)

fn check_one(fmt: &str, cfg_name: &str, p: &DatatypeProperties, constructive: Option<&[usize]>, rep: &mut Report, track: bool) {
    rep.eval();
    let case = || json!({"fmt": fmt, "config": cfg_name, "props": p});
    // smallest string first; among equal strings prefer the most familiar configuration
    let size = fmt.len() as u64 * 8 + configs().iter().position(|(n, _)| *n == cfg_name).unwrap_or(7) as u64;
    let found = match scan(fmt) {
        Ok(f) => f,
        Err(pos) => {
            rep.inconclusive("string-outside-grammar");
            rep.note(format!("string {fmt:?} is outside the grammar at byte {pos}; skipped"));
            return;
        }
    };
    if let Some(c) = constructive {
        if c.len() != found.len() || c.iter().zip(found.iter()).any(|(a, (b, _, _))| a != b) {
            rep.inconclusive("generator-and-scanner-disagree");
            rep.note(format!("generator and scanner disagree on {fmt:?}"));
            return;
        }
    }
    let kinds: Vec<Kind> = found.iter().map(|(i, _, _)| FORMS[*i].1).collect();
    let expect_err = kinds.iter().any(|k| rejected(*k));
    let has_escape = fmt.contains("%%");
    let ctx = if has_escape { "with-escape" } else { "no-escape" };
    let exp_text = || {
        if expect_err {
            "Err (long/long long/long double conversion present)".to_string()
        } else {
            format!(
                "Ok({:?})",
                kinds.iter().map(|k| { let (t, s) = expected_entry(*k, p); (t[0].clone(), u64::from(s)) }).collect::<Vec<_>>()
            )
        }
    };
    let got = guard(|| parse_format_string_parameters(fmt, p));
    match got {
        Err(msg) => rep.violation(
            format!("parse:panic:{}", panic_site(&msg)),
            None,
            format!("parse_format_string_parameters({fmt:?}) panicked: {msg}; expected {}", exp_text()),
            case(),
            size,
        ),
        Ok(Err(e)) => {
            if !expect_err {
                rep.violation(
                    format!("parse:err-for-supported:{ctx}"),
                    None,
                    format!("parse_format_string_parameters({fmt:?}) = Err({e}); expected {}", exp_text()),
                    case(),
                    size,
                );
            }
        }
        Ok(Ok(list)) => {
            let shown: Vec<(Datatype, u64)> = list.iter().map(|(t, s)| (t.clone(), u64::from(*s))).collect();
            if expect_err {
                rep.violation(
                    format!("parse:ok-for-long:{ctx}"),
                    None,
                    format!("parse_format_string_parameters({fmt:?}) = Ok({shown:?}); expected {}", exp_text()),
                    case(),
                    size,
                );
            } else if list.len() != kinds.len() {
                let dir = if list.len() > kinds.len() { "too-many" } else { "too-few" };
                rep.violation(
                    format!("parse:count:{dir}:{ctx}"),
                    None,
                    format!("parse_format_string_parameters({fmt:?}) = Ok({shown:?}) ({} entries); expected {} ({} entries)", list.len(), exp_text(), kinds.len()),
                    case(),
                    size,
                );
            } else {
                for (n, ((dt, sz), (form_idx, _, _))) in list.iter().zip(found.iter()).enumerate() {
                    let (form, kind) = FORMS[*form_idx];
                    let (types, esz) = expected_entry(kind, p);
                    if !types.contains(dt) {
                        rep.violation(
                            format!("parse:wrong-type:%{form}"),
                            None,
                            format!("parse_format_string_parameters({fmt:?}) entry {n} (conversion %{form}) has data type {dt:?}, documented type is {:?}; full result Ok({shown:?}), expected {}", types[0], exp_text()),
                            case(),
                            size,
                        );
                    } else if *sz != esz {
                        rep.violation(
                            format!("parse:wrong-size:%{form}"),
                            None,
                            format!("parse_format_string_parameters({fmt:?}) entry {n} (conversion %{form}) has size {sz}, expected {esz} under configuration {cfg_name}; full result Ok({shown:?}), expected {}", exp_text()),
                            case(),
                            size,
                        );
                    }
                }
            }
        }
    }
    if fmt.contains('%') {
        rep.nontrivial(mix(hash_str(fmt), hash_str(cfg_name)));
    }
    if track {
        for (i, _, _) in &found {
            rep.obs(&format!("conv:%{}", FORMS[*i].0));
        }
        rep.obs(if expect_err { "expected:err" } else { "expected:ok" });
        rep.obs(&format!("args:{}", kinds.len().min(9)));
        rep.obs(&format!("config:{cfg_name}"));
        if has_escape {
            rep.obs("has-escape");
            // an escape directly followed by something that looks like the rest of a conversion
            let b = fmt.as_bytes();
            let mut i = 0;
            while i + 1 < b.len() {
                if b[i] == b'%' && b[i + 1] == b'%' {
                    match b.get(i + 2) {
                        Some(nxt) if nxt.is_ascii_digit() || b"+-#.".contains(nxt) => rep.obs("escape-then-flag-or-digit"),
                        Some(nxt) if nxt.is_ascii_alphabetic() => rep.obs("escape-then-letter"),
                        Some(b'%') => rep.obs("escape-then-percent"),
                        _ => (),
                    }
                    i += 2;
                } else {
                    i += 1;
                }
            }
        }
        for w in found.windows(2) {
            if w[0].2 == w[1].1 {
                rep.obs("back-to-back-conversions");
            }
        }
    }
}

// ---------------------------------------------------------------------------
// Generators

const FLAGS: &[&str] = &["", "+", "-", "#", "0"];
const WIDTHS: &[&str] = &["", "1", "10", "08", "0", "123"];
const PRECS: &[&str] = &["", ".", ".0", ".5", ".12"];
const PREFIX_CTX: &[&str] = &["", "%%", "a", "%%%%", "%d", "x%%", "5"];
const SUFFIX_CTX: &[&str] = &["", "d", "%%", "%s", "ld", "%%d", "5"];

const LITERAL_ATOMS: &[&str] = &[
    "d", "i", "u", "x", "s", "c", "f", "n", "p", "h", "l", "L", "ll", "hd", "ld", "lld", "Lf", "lf", "S", "C", "a", "A", "e", "G", "0", "1", "5", "10", "08", ".", ".5", "+", "-", "#", " ", "\n", "\t", ":", "/", "\"", "'", "\\", "$", "*", "z", "q", "j", "t", "k", "w", "é", "٣", "日", "Hello", "errno=", "0x",
];

/// Generate one format string together with the constructive list of form indices.
fn gen_string(rng: &mut Rng) -> (String, Vec<usize>) {
    let mut s = String::new();
    let mut forms = Vec::new();
    let n_items = rng.below(9);
    let allow_long = rng.chance(1, 5);
    let escape_heavy = rng.chance(1, 3);
    for _ in 0..n_items {
        let roll = rng.below(10);
        if roll < 3 || (escape_heavy && roll < 5) {
            // escapes: 1..3 of them in a row
            for _ in 0..1 + rng.below(3) {
                s.push_str("%%");
            }
        } else if roll < 6 {
            for _ in 0..1 + rng.below(3) {
                s.push_str(*rng.pick(LITERAL_ATOMS));
            }
        } else {
            let idx = loop {
                let i = rng.usize_below(FORMS.len());
                if allow_long || !rejected(FORMS[i].1) {
                    break i;
                }
            };
            s.push('%');
            if rng.chance(1, 3) {
                s.push_str(*rng.pick(&FLAGS[1..]));
            }
            if rng.chance(1, 3) {
                s.push_str(*rng.pick(&WIDTHS[1..]));
            }
            if rng.chance(1, 3) {
                s.push_str(*rng.pick(&PRECS[1..]));
            }
            s.push_str(FORMS[idx].0);
            forms.push(idx);
        }
    }
    (s, forms)
}

fn run(cfg: &Cfg) -> Report {
    let cfgs = configs();
    // part 1: exhaustive single specs, one shard per (form, config)
    let exh_shards = FORMS.len();
    let rnd_shards = cfg.tier.pick(160usize, 960usize);
    let per_shard = cfg.tier.pick(1_500u64, 15_000u64);
    let mut rep = par_shards(cfg, "c20", exh_shards + rnd_shards, |idx, rng, rep| {
        if idx < exh_shards {
            let form_idx = idx;
            let form = FORMS[form_idx].0;
            let mut n = 0u64;
            for pre in PREFIX_CTX {
                for suf in SUFFIX_CTX {
                    for flag in FLAGS {
                        for width in WIDTHS {
                            for prec in PRECS {
                                let fmt = format!("{pre}%{flag}{width}{prec}{form}{suf}");
                                n += 1;
                                // the configuration only selects the size table: rotate it
                                let (name, p) = &cfgs[(n as usize + form_idx) % cfgs.len()];
                                check_one(&fmt, name, p, None, rep, n % 97 == 0);
                            }
                        }
                    }
                }
            }
            // every form alone under every configuration
            for (name, p) in &cfgs {
                check_one(&format!("%{form}"), name, p, None, rep, true);
            }
            if form_idx == 0 {
                rep.exhaustive_parts.push("every single conversion spec (45 forms x 5 flags x 6 widths x 5 precisions) in 7 prefix x 7 suffix contexts (configurations rotated); every bare form under every configuration".into());
            }
        } else {
            for k in 0..per_shard {
                let (fmt, forms) = gen_string(rng);
                let (name, p) = &cfgs[rng.usize_below(cfgs.len())];
                check_one(&fmt, name, p, Some(&forms), rep, true);
                if k < 1 && idx % 40 == 0 && rep.wants_sample() && fmt.contains('%') {
                    let got = guard(|| parse_format_string_parameters(&fmt, p).map_err(|e| e.to_string()));
                    rep.sample(json!({
                        "fmt": fmt,
                        "config": name,
                        "scanner_forms": scan(&fmt).map(|f| f.iter().map(|(i, _, _)| format!("%{}", FORMS[*i].0)).collect::<Vec<_>>()).unwrap_or_default(),
                        "observed": format!("{got:?}"),
                    }));
                }
            }
        }
    });
    // fixed adversarial witnesses (always run, also documented as samples)
    let (name, p) = &cfgs[0];
    for fmt in ["%%d", "%%%d", "%%%%d", "%d%%d", "%%5d", "%%ld", "%%Lf", "%%%ld", "%%.5s", "%%", ""] {
        check_one(fmt, name, p, None, &mut rep, true);
    }
    rep.sample(json!({"fmt": "%%d", "config": name, "scanner_forms": [], "expected": "Ok([])"}));
    rep.sample(json!({"fmt": "%%%d", "config": name, "scanner_forms": ["%d"], "expected": "Ok([(Integer, 4)])"}));
    rep
}

fn replay(_cfg: &Cfg, case: &Value) -> Report {
    let mut rep = Report::new();
    let fmt = case["fmt"].as_str();
    let p = serde_json::from_value::<DatatypeProperties>(case["props"].clone());
    match (fmt, p) {
        (Some(fmt), Ok(p)) => check_one(fmt, case["config"].as_str().unwrap_or("replay"), &p, None, &mut rep, true),
        _ => rep.note("replay case lacks fmt/props"),
    }
    rep
}
