//! C12 — lifted and normalized IR is size-consistent.
//!
//! Random well-sized P-Code programs (generator of C11 at program level) are parsed and lifted on the
//! code path of the CLI (`serde_json` -> `parse_pcode_project_to_ir_project` -> `normalize_basic` ->
//! `normalize_optimize`); after lifting, after the basic normalisation, after every single
//! optimisation pass, along the pass pipeline and after the whole `normalize_optimize` the
//! independent size walk `typing::check_project` must find nothing. Second workload: the IR-level
//! programs of C10 through every pass.

use crate::c10;
use crate::c11::{gen_program, gen_program32, show_blk, PProject};
use crate::core::*;
use crate::irb::{project_from_json, project_to_json, show_program};
use crate::typing;
use cwe_checker_lib::intermediate_representation as ir;
use cwe_checker_lib::pcode;
use serde_json::{json, Value};
use std::collections::BTreeMap;

pub fn info() -> CheckInfo {
    CheckInfo {
        id: "C12",
        rule: "workload 'pcode': random well-sized P-Code programs (three quarters over an x86-64 register table with 8-byte pointers, one quarter over a 32-bit x86 table with 4-byte pointers and stack arguments; 1-3 functions, 2-10 blocks, nested/same-name/16-byte sub-registers, temporaries reused with several sizes, RAM operands, float and integer mnemonics, stack prologues incl. alignment masks, all jump mnemonics, shared and missing jump targets, extern symbols with register/stack arguments) serialized to the extractor's JSON, parsed and lifted by parse_pcode_project_to_ir_project, then normalize_basic and every optimisation pass (alone, in pipeline order, and normalize_optimize as a whole); workload 'ir': the basic-normalized IR programs of C10 through every pass. After each stage the size walk of typing.rs runs over every Def, Jmp condition/target expression, extern-symbol argument and calling-convention expression; an inconsistency that is not present in the stage's input is a violation. non-trivial = the walk covered at least one sub-register-derived PIECE/SUBPIECE expression (pcode) or the stage changed the program (ir); distinct = hash of the program",
        assumptions: &[
            "typing.rs is a correct transcription of the P-Code size rules; reported only: unequal operand sizes of same-size operations (integer, float, boolean, comparisons), SUBPIECE low+size beyond its operand or size 0, extension to a smaller size, assignment value size != variable size, load/store address size != pointer size (= size of the stack pointer register)",
            "typing.rs also demands 1-byte operands of BOOL_* / a 1-byte branch condition / non-zero variable, cast and constant sizes; the statement does not, so these messages are filtered out (counted under 'beyond-statement:*')",
            "indirect jump/call/return targets need not be pointer-sized (not in the statement); their sub-expressions are still walked",
            "generated P-Code is well-sized (C11's generator; LOAD/STORE addresses have the pointer size of the target); the IR programs of C10 are asserted well-sized before use, otherwise the case is inconclusive",
        ],
        run,
        replay,
    }
}

/// Classification of a message of typing.rs: Some(kind) = demanded by the statement, None = beyond the statement.
pub fn classify(msg: &str) -> Result<&'static str, &'static str> {
    if msg.contains("boolean operation") {
        Err("beyond-statement:bool-operand-not-1-byte")
    } else if msg.contains("BoolNegate on operand") {
        Err("beyond-statement:boolnegate-operand-not-1-byte")
    } else if msg.contains("branch condition of size") {
        Err("beyond-statement:condition-not-1-byte")
    } else if msg.contains("has size 0") || msg.contains("cast to size 0") || msg.contains("variable of size 0") {
        Err("beyond-statement:size-0")
    } else if msg.contains("constant with bit width") {
        Err("beyond-statement:constant-bit-width")
    } else if msg.contains("indirect target of size") {
        Err("beyond-statement:indirect-target-size")
    } else if msg.contains("operands of") {
        Ok("operand-sizes-differ")
    } else if msg.contains("subpiece [") {
        Ok("subpiece-out-of-range")
    } else if msg.contains(" to size ") {
        Ok("extension-to-smaller-size")
    } else if msg.contains("assignment of a value") {
        Ok("assignment-size")
    } else if msg.contains("load address of size") {
        Ok("load-address-size")
    } else if msg.contains("store address of size") {
        Ok("store-address-size")
    } else {
        Ok("other")
    }
}

/// All messages of the walk over a project: defs/jumps plus extern symbol arguments and calling conventions.
pub fn walk(project: &ir::Project) -> Vec<String> {
    let mut errs = typing::check_project(project, false);
    let ps = u64::from(project.stack_pointer_register.size);
    for sym in project.program.term.extern_symbols.values() {
        for arg in sym.parameters.iter().chain(sym.return_values.iter()) {
            let n0 = errs.len();
            match arg {
                ir::Arg::Register { expr, .. } => {
                    typing::expr_size(expr, &mut errs);
                }
                ir::Arg::Stack { address, .. } => {
                    if let Some(s) = typing::expr_size(address, &mut errs) {
                        if s != ps {
                            errs.push(format!("load address of size {s} (pointer size {ps})"));
                        }
                    }
                }
            }
            for e in errs[n0..].iter_mut() {
                *e = format!("extern symbol {} argument: {e}", sym.name);
            }
        }
    }
    for cc in project.calling_conventions.values() {
        for e in cc.float_parameter_register.iter().chain(cc.float_return_register.iter()) {
            let n0 = errs.len();
            typing::expr_size(e, &mut errs);
            for m in errs[n0..].iter_mut() {
                *m = format!("calling convention {}: {m}", cc.name);
            }
        }
    }
    errs
}

/// Messages demanded by the statement; the others are only counted.
fn relevant(project: &ir::Project, rep: &mut Report) -> Vec<(String, &'static str)> {
    let mut out = Vec::new();
    for m in walk(project) {
        match classify(&m) {
            Ok(kind) => out.push((m, kind)),
            Err(beyond) => rep.obs(beyond),
        }
    }
    out
}

fn count_pieces(project: &ir::Project) -> usize {
    fn walk_e(e: &ir::Expression, n: &mut usize) {
        match e {
            ir::Expression::BinOp { op, lhs, rhs } => {
                if *op == ir::BinOpType::Piece {
                    *n += 1;
                }
                walk_e(lhs, n);
                walk_e(rhs, n);
            }
            ir::Expression::Subpiece { arg, .. } => {
                *n += 1;
                walk_e(arg, n);
            }
            ir::Expression::UnOp { arg, .. } | ir::Expression::Cast { arg, .. } => walk_e(arg, n),
            _ => (),
        }
    }
    let mut n = 0;
    for sub in project.program.term.subs.values() {
        for blk in &sub.term.blocks {
            for d in &blk.term.defs {
                match &d.term {
                    ir::Def::Assign { value: e, .. } | ir::Def::Load { address: e, .. } => walk_e(e, &mut n),
                    ir::Def::Store { address, value } => {
                        walk_e(address, &mut n);
                        walk_e(value, &mut n);
                    }
                }
            }
        }
    }
    n
}

/// Run one stage, walk its output and report every relevant message that its input did not have.
/// Returns the output (None if the stage panicked).
#[allow(clippy::too_many_arguments)]
fn stage(
    label: &str,
    input: &ir::Project,
    input_msgs: &[(String, &'static str)],
    f: &dyn Fn(&mut ir::Project),
    rep: &mut Report,
    case: &dyn Fn() -> Value,
    size: u64,
    source: &dyn Fn() -> String,
) -> Option<(ir::Project, Vec<(String, &'static str)>)> {
    let mut p = input.clone();
    rep.eval();
    if let Err(msg) = guard(|| f(&mut p)) {
        rep.violation(format!("{label}:panic:{}", panic_site(&msg)), None, format!("{label} panicked on a lifted well-sized program: {msg}\n{}", source()), case(), size);
        return None;
    }
    let msgs = relevant(&p, rep);
    let mut seen: BTreeMap<&str, usize> = BTreeMap::new();
    for (m, _) in input_msgs {
        *seen.entry(m.as_str()).or_insert(0) += 1;
    }
    for (m, kind) in &msgs {
        match seen.get_mut(m.as_str()) {
            Some(n) if *n > 0 => *n -= 1,
            _ => {
                rep.violation(
                    format!("{kind}:{label}"),
                    None,
                    format!("after {label}: {m}\n--- program after {label}:\n{}--- program before:\n{}{}", show_program(&p.program.term), show_program(&input.program.term), source()),
                    case(),
                    size,
                );
            }
        }
    }
    Some((p, msgs))
}

fn run_passes(base: &ir::Project, base_msgs: &[(String, &'static str)], rep: &mut Report, case: &dyn Fn() -> Value, size: u64, source: &dyn Fn() -> String) -> bool {
    let mut changed = false;
    for pass in c10::PASSES {
        if let Some((p, _)) = stage(pass, base, base_msgs, &|p| c10::apply_pass(p, pass), rep, case, size, source) {
            if p != *base {
                changed = true;
                rep.obs(&format!("{pass}:changed-program"));
            }
        }
    }
    let mut cur = base.clone();
    let mut cur_msgs = base_msgs.to_vec();
    for pass in c10::PASSES {
        match stage(&format!("pipeline:{pass}"), &cur, &cur_msgs, &|p| c10::apply_pass(p, pass), rep, case, size, source) {
            Some((p, m)) => {
                cur = p;
                cur_msgs = m;
            }
            None => break,
        }
    }
    stage("normalize_optimize", base, base_msgs, &|p| c10::apply_pass(p, "normalize_optimize"), rep, case, size, source);
    changed
}

pub fn pproject_text(p: &PProject) -> String {
    let mut out = String::from("--- P-Code program:\n");
    for s in &p.program.term.subs {
        out += &format!(" PSUB [{}] {}\n", s.tid.id, s.term.name);
        for b in &s.term.blocks {
            out += &show_blk(b);
        }
    }
    out
}

/// Workload 'pcode': the JSON text goes through the same functions as in the CLI.
pub fn check_pcode_program(text: &str, rep: &mut Report) {
    let case = || json!({"workload":"pcode","project": serde_json::from_str::<Value>(text).unwrap_or(Value::Null)});
    let source = || match serde_json::from_str::<PProject>(text) {
        Ok(p) => pproject_text(&p),
        Err(_) => String::new(),
    };
    let size = text.len() as u64 / 64;
    rep.eval();
    let parsed: pcode::Project = match serde_json::from_str(text) {
        Ok(p) => p,
        Err(e) => {
            rep.inconclusive("harness:extractor-json-rejected");
            rep.note(format!("the generated JSON was rejected by the parser: {e}"));
            return;
        }
    };
    let lifted = match guard(|| cwe_checker_lib::utils::ghidra::parse_pcode_project_to_ir_project(parsed, &[], &None)) {
        Ok(Ok((p, _logs))) => p,
        Ok(Err(e)) => {
            rep.violation("lift:error", None, format!("parse_pcode_project_to_ir_project failed: {e}\n{}", source()), case(), size);
            return;
        }
        Err(msg) => {
            rep.violation(format!("lift:panic:{}", panic_site(&msg)), None, format!("lifting panicked: {msg}\n{}", source()), case(), size);
            return;
        }
    };
    let lift_msgs = relevant(&lifted, rep);
    for (m, kind) in &lift_msgs {
        rep.violation(format!("{kind}:lift"), None, format!("after lifting: {m}\n--- lifted program:\n{}{}", show_program(&lifted.program.term), source()), case(), size);
    }
    let pieces = count_pieces(&lifted);
    let (basic, basic_msgs) = match stage("normalize_basic", &lifted, &lift_msgs, &|p| { let _ = p.normalize_basic(); }, rep, &case, size, &source) {
        Some(x) => x,
        None => return,
    };
    run_passes(&basic, &basic_msgs, rep, &case, size, &source);
    if pieces > 0 {
        rep.nontrivial(crate::prng::hash_str(text));
    }
    rep.obs(&format!("pcode:subs:{}", lifted.program.term.subs.len()));
    let nblocks: usize = lifted.program.term.subs.values().map(|s| s.term.blocks.len()).sum();
    rep.obs(&format!("pcode:blocks:{nblocks}"));
}

/// Workload 'ir': a basic-normalized IR program of C10 through every pass.
pub fn check_ir_program(base: &ir::Project, rep: &mut Report) {
    let case = || json!({"workload":"ir","project": project_to_json(base)});
    let size: u64 = base.program.term.subs.values().map(|s| s.term.blocks.iter().map(|b| 2 + b.term.defs.len() as u64).sum::<u64>()).sum();
    rep.eval();
    let base_all = walk(base);
    if !base_all.is_empty() {
        rep.inconclusive("harness:c10-program-not-well-sized");
        rep.note(format!("a generated IR program is not well-sized before any pass: {}", base_all[0]));
        return;
    }
    let changed = run_passes(base, &[], rep, &case, size, &String::new);
    if changed {
        rep.nontrivial(fp_of(&base.program));
    }
}

/// Lifting and all passes of one program run on a helper thread with a CPU-time bound (normal: milliseconds).
const PROGRAM_CPU_LIMIT_MS: u64 = 20_000;

fn bounded(worker: &mut BoundedWorker, rep: &mut Report, f: impl FnOnce(&mut Report) + Send + 'static, case: impl FnOnce() -> Value) {
    let r = worker.run(PROGRAM_CPU_LIMIT_MS, move || {
        let mut local = Report::new();
        f(&mut local);
        local
    });
    match r {
        Bounded::Done(local) => rep.merge(local),
        Bounded::Hang { cpu_ms, stage } => {
            rep.eval();
            let stage = if stage.is_empty() { "lift-or-normalize_basic".to_string() } else { stage };
            rep.violation(format!("{stage}:no-termination"), None, format!("{stage} had not returned after {cpu_ms} ms of CPU time on a generated program (normal: a few milliseconds); abandoned"), case(), 50);
        }
        Bounded::Starved => rep.inconclusive("helper-thread-starved"),
        Bounded::Died => rep.inconclusive("helper-thread-died"),
    }
}

fn run(cfg: &Cfg) -> Report {
    let shards = cfg.tier.pick(128usize, 1024usize);
    let per_shard = cfg.tier.pick(1500usize, 1500usize);
    par_shards(cfg, "c12", shards, |idx, rng, rep| {
        let mut worker = BoundedWorker::new();
        for i in 0..per_shard {
            if ABANDONED_THREADS.load(std::sync::atomic::Ordering::SeqCst) >= ABANDONED_CAP {
                rep.inconclusive("program-skipped-after-repeated-non-termination");
                continue;
            }
            if idx % 4 == 3 {
                match guard(|| c10::gen_project(rng, false, false)) {
                    Ok(p) => {
                        let p2 = p.clone();
                        bounded(&mut worker, rep, move |local| check_ir_program(&p2, local), || json!({"workload":"ir","project": project_to_json(&p)}));
                        rep.obs("workload:ir");
                    }
                    Err(msg) => rep.inconclusive(&format!("generator-or-normalize_basic-panic:{}", panic_site(&msg))),
                }
            } else {
                let floats = idx % 2 == 0;
                // every fourth program of these shards is built for a 32-bit target (pointer size 4)
                let bits32 = i % 4 == 3;
                let prog = if bits32 { gen_program32(rng, floats) } else { gen_program(rng, floats) };
                if bits32 {
                    rep.obs("workload:pcode:32-bit-target");
                }
                let text = serde_json::to_string(&prog).unwrap();
                let t2 = text.clone();
                bounded(&mut worker, rep, move |local| check_pcode_program(&t2, local), || json!({"workload":"pcode","project": serde_json::from_str::<Value>(&text).unwrap_or(Value::Null)}));
                rep.obs("workload:pcode");
                if idx == 0 && i < 2 {
                    rep.sample(json!({"pcode_program": pproject_text(&prog)}));
                }
            }
        }
    })
}

fn replay(_cfg: &Cfg, case: &Value) -> Report {
    let mut rep = Report::new();
    if case["workload"] == json!("ir") {
        match project_from_json(&case["project"]) {
            Ok(p) => check_ir_program(&p, &mut rep),
            Err(e) => rep.note(format!("cannot parse replay case: {e}")),
        }
    } else {
        check_pcode_program(&case["project"].to_string(), &mut rep);
    }
    rep
}
