//! Shared infrastructure: run configuration, reports, violation bookkeeping,
//! panic guard and the parallel shard runner.

use crate::prng::Rng;
use serde::{Deserialize, Serialize};
use serde_json::{json, Value};
use std::collections::{BTreeMap, HashSet};
use std::sync::atomic::{AtomicUsize, Ordering};
use std::sync::Mutex;
use std::time::Instant;

#[derive(Clone, Copy, PartialEq, Eq, Debug)]
pub enum Tier {
    Quick,
    Thorough,
}

impl Tier {
    pub fn name(&self) -> &'static str {
        match self {
            Tier::Quick => "quick",
            Tier::Thorough => "thorough",
        }
    }
    /// Pick a size by tier.
    pub fn pick<T>(&self, quick: T, thorough: T) -> T {
        match self {
            Tier::Quick => quick,
            Tier::Thorough => thorough,
        }
    }
}

#[derive(Clone, Debug)]
pub struct Cfg {
    pub prop: String,
    pub tier: Tier,
    pub seed: u64,
    pub threads: usize,
    /// Directory holding cli binary etc. (`/verif/harness`)
    pub harness_dir: std::path::PathBuf,
    /// `/verif`
    pub verif_dir: std::path::PathBuf,
    pub started: Instant,
}

impl Cfg {
    pub fn elapsed_s(&self) -> f64 {
        self.started.elapsed().as_secs_f64()
    }
}

/// One observed violation of a property.
#[derive(Clone, Debug, Serialize, Deserialize)]
pub struct Violation {
    /// Groups violations: one replay file / VIOLATION line per distinct signature.
    pub signature: String,
    /// Set by a *discriminator* if the failure matches the precise signature of a recorded defect.
    pub known_key: Option<String>,
    /// Human readable: expected vs observed.
    pub detail: String,
    /// The concrete failing case (enough for `replay`).
    pub case: Value,
    /// Size measure used to keep the smallest case per signature.
    pub size: u64,
}

/// What one run (or one shard of it) observed.
#[derive(Default, Debug)]
pub struct Report {
    pub evaluations: u64,
    pub nontrivial: HashSet<u64>,
    pub samples: Vec<Value>,
    pub observed: BTreeMap<String, u64>,
    pub inconclusive: BTreeMap<String, u64>,
    pub violations: BTreeMap<String, Violation>,
    pub violation_count: u64,
    pub notes: Vec<String>,
    pub exhaustive_parts: Vec<String>,
    pub extra: BTreeMap<String, Value>,
}

pub const MAX_SAMPLES: usize = 6;

impl Report {
    pub fn new() -> Report {
        Report::default()
    }
    #[inline]
    pub fn eval(&mut self) {
        self.evaluations += 1;
    }
    #[inline]
    pub fn evals(&mut self, n: u64) {
        self.evaluations += n;
    }
    #[inline]
    pub fn nontrivial(&mut self, fingerprint: u64) {
        // cap memory: beyond 4M distinct fingerprints stop inserting (count stays a lower bound)
        if self.nontrivial.len() < 4_000_000 {
            self.nontrivial.insert(fingerprint);
        }
    }
    pub fn obs(&mut self, key: &str) {
        *self.observed.entry(key.to_string()).or_insert(0) += 1;
    }
    pub fn obs_n(&mut self, key: &str, n: u64) {
        *self.observed.entry(key.to_string()).or_insert(0) += n;
    }
    pub fn inconclusive(&mut self, reason: &str) {
        *self.inconclusive.entry(reason.to_string()).or_insert(0) += 1;
    }
    pub fn sample(&mut self, v: Value) {
        if self.samples.len() < MAX_SAMPLES {
            self.samples.push(v);
        }
    }
    pub fn wants_sample(&self) -> bool {
        self.samples.len() < MAX_SAMPLES
    }
    pub fn note(&mut self, s: impl Into<String>) {
        let s = s.into();
        if self.notes.len() < 50 && !self.notes.contains(&s) {
            self.notes.push(s);
        }
    }
    pub fn violation(
        &mut self,
        signature: impl Into<String>,
        known_key: Option<&str>,
        detail: impl Into<String>,
        case: Value,
        size: u64,
    ) {
        self.violation_count += 1;
        let signature = signature.into();
        let v = Violation {
            signature: signature.clone(),
            known_key: known_key.map(|s| s.to_string()),
            detail: detail.into(),
            case,
            size,
        };
        match self.violations.get(&signature) {
            Some(old) if old.size <= v.size => (),
            _ => {
                self.violations.insert(signature, v);
            }
        }
    }
    pub fn merge(&mut self, other: Report) {
        self.evaluations += other.evaluations;
        if self.nontrivial.is_empty() {
            self.nontrivial = other.nontrivial;
        } else {
            for fp in other.nontrivial {
                self.nontrivial(fp);
            }
        }
        for s in other.samples {
            self.sample(s);
        }
        for (k, v) in other.observed {
            *self.observed.entry(k).or_insert(0) += v;
        }
        for (k, v) in other.inconclusive {
            *self.inconclusive.entry(k).or_insert(0) += v;
        }
        self.violation_count += other.violation_count;
        for (sig, v) in other.violations {
            match self.violations.get(&sig) {
                Some(old) if old.size <= v.size => (),
                _ => {
                    self.violations.insert(sig, v);
                }
            }
        }
        for n in other.notes {
            self.note(n);
        }
        for e in other.exhaustive_parts {
            if !self.exhaustive_parts.contains(&e) {
                self.exhaustive_parts.push(e);
            }
        }
        for (k, v) in other.extra {
            self.extra.insert(k, v);
        }
    }
}

// ---------------------------------------------------------------------------
// Panic guard

thread_local! {
    static LAST_PANIC: std::cell::RefCell<Option<String>> = const { std::cell::RefCell::new(None) };
}

static HOOK_INSTALLED: std::sync::Once = std::sync::Once::new();

/// Install a panic hook that records the message (with location) in a thread local
/// instead of printing it.
pub fn install_quiet_panic_hook() {
    HOOK_INSTALLED.call_once(|| {
        std::panic::set_hook(Box::new(|info| {
            let msg = if let Some(s) = info.payload().downcast_ref::<&str>() {
                s.to_string()
            } else if let Some(s) = info.payload().downcast_ref::<String>() {
                s.clone()
            } else {
                "<non-string panic payload>".to_string()
            };
            let loc = info
                .location()
                .map(|l| format!("{}:{}", l.file(), l.line()))
                .unwrap_or_default();
            LAST_PANIC.with(|p| *p.borrow_mut() = Some(format!("{msg} @ {loc}")));
        }));
    });
}

/// Run `f`, turning a panic into `Err(message @ file:line)`.
pub fn guard<T>(f: impl FnOnce() -> T) -> Result<T, String> {
    install_quiet_panic_hook();
    match std::panic::catch_unwind(std::panic::AssertUnwindSafe(f)) {
        Ok(v) => Ok(v),
        Err(_) => Err(LAST_PANIC
            .with(|p| p.borrow_mut().take())
            .unwrap_or_else(|| "<panic>".to_string())),
    }
}

/// Strip line numbers / volatile parts from a panic message for use in signatures.
pub fn panic_site(msg: &str) -> String {
    // keep "file:line" part (after '@') plus the first 40 chars of the message
    let (m, loc) = match msg.rsplit_once(" @ ") {
        Some((m, l)) => (m, l),
        None => (msg, ""),
    };
    let short: String = m.chars().take(60).collect();
    let loc = loc.rsplit('/').next().unwrap_or(loc);
    format!("{short}@{loc}")
}

// ---------------------------------------------------------------------------
// Parallel shard runner

/// Run `shards` shards on up to `cfg.threads` threads. Each shard gets its own
/// PRNG stream derived from (seed, label, shard index) and its own Report; the
/// reports are merged in shard order, so the outcome does not depend on scheduling.
pub fn par_shards<F>(cfg: &Cfg, label: &str, shards: usize, f: F) -> Report
where
    F: Fn(usize, &mut Rng, &mut Report) + Sync,
{
    install_quiet_panic_hook();
    let next = AtomicUsize::new(0);
    let results: Mutex<Vec<(usize, Report)>> = Mutex::new(Vec::new());
    let threads = cfg.threads.max(1).min(shards.max(1));
    std::thread::scope(|scope| {
        for _ in 0..threads {
            scope.spawn(|| loop {
                let idx = next.fetch_add(1, Ordering::SeqCst);
                if idx >= shards {
                    break;
                }
                let mut rng = Rng::derive(cfg.seed, label, idx as u64);
                let mut rep = Report::new();
                let res = guard(|| f(idx, &mut rng, &mut rep));
                if let Err(msg) = res {
                    // A panic that escaped the per-call guards is a harness problem, not a verdict.
                    rep.inconclusive(&format!("harness-panic:{}", panic_site(&msg)));
                    rep.note(format!("shard {idx} of {label} panicked outside a guarded call: {msg}"));
                }
                results.lock().unwrap().push((idx, rep));
            });
        }
    });
    let mut all = results.into_inner().unwrap();
    all.sort_by_key(|(i, _)| *i);
    let mut total = Report::new();
    for (_, r) in all {
        total.merge(r);
    }
    total
}

/// Fingerprint helper: hash of the JSON/debug rendering of anything.
pub fn fp_of<T: std::fmt::Debug>(t: &T) -> u64 {
    crate::prng::hash_str(&format!("{t:?}"))
}

pub fn fp_json(v: &Value) -> u64 {
    crate::prng::hash_str(&v.to_string())
}

/// Static description of a check.
pub struct CheckInfo {
    pub id: &'static str,
    pub rule: &'static str,
    pub assumptions: &'static [&'static str],
    pub run: fn(&Cfg) -> Report,
    /// Re-execute one stored case; violations are reported in the returned Report.
    pub replay: fn(&Cfg, &Value) -> Report,
}

pub fn evidence_json(cfg: &Cfg, info: &CheckInfo, rep: &Report, known_lines: &[String], violations_new: usize) -> Value {
    let mut coverage = serde_json::Map::new();
    coverage.insert("evaluations".into(), json!(rep.evaluations));
    coverage.insert("distinct_nontrivial".into(), json!(rep.nontrivial.len()));
    coverage.insert("rule".into(), json!(info.rule));
    coverage.insert("samples".into(), json!(rep.samples));
    coverage.insert("observed".into(), json!(rep.observed));
    coverage.insert("inconclusive".into(), json!(rep.inconclusive));
    coverage.insert("exhaustive".into(), json!(false));
    coverage.insert("exhaustive_parts".into(), json!(rep.exhaustive_parts));
    coverage.insert("notes".into(), json!(rep.notes));
    coverage.insert("known_findings_printed".into(), json!(known_lines));
    coverage.insert("violation_events".into(), json!(rep.violation_count));
    for (k, v) in &rep.extra {
        coverage.insert(k.clone(), v.clone());
    }
    json!({
        "property_id": info.id,
        "tier": cfg.tier.name(),
        "seed": cfg.seed,
        "level": "exploration",
        "coverage": Value::Object(coverage),
        "assumptions": info.assumptions,
        "wall_s": (cfg.elapsed_s() * 100.0).round() / 100.0,
        "violations": violations_new,
    })
}
