//! Shared infrastructure: run configuration, reports, violation bookkeeping,
//! panic guard and the parallel shard runner.

use crate::prng::Rng;
use serde::{Deserialize, Serialize};
use serde_json::{json, Value};
use std::collections::{BTreeMap, HashSet};
use std::sync::atomic::{AtomicUsize, Ordering};
use std::sync::Mutex;
use std::time::Instant;

#[derive(Clone, Copy, PartialEq, Eq, Debug)]
pub enum Tier {
    Quick,
    Thorough,
}

impl Tier {
    pub fn name(&self) -> &'static str {
        match self {
            Tier::Quick => "quick",
            Tier::Thorough => "thorough",
        }
    }
    /// Pick a size by tier.
    pub fn pick<T>(&self, quick: T, thorough: T) -> T {
        match self {
            Tier::Quick => quick,
            Tier::Thorough => thorough,
        }
    }
}

#[derive(Clone, Debug)]
pub struct Cfg {
    pub prop: String,
    pub tier: Tier,
    pub seed: u64,
    pub threads: usize,
    /// Directory holding cli binary etc. (`/verif/harness`)
    pub harness_dir: std::path::PathBuf,
    /// `/verif`
    pub verif_dir: std::path::PathBuf,
    pub started: Instant,
}

impl Cfg {
    pub fn elapsed_s(&self) -> f64 {
        self.started.elapsed().as_secs_f64()
    }
}

/// One observed violation of a property.
#[derive(Clone, Debug, Serialize, Deserialize)]
pub struct Violation {
    /// Groups violations: one replay file / VIOLATION line per distinct signature.
    pub signature: String,
    /// Set by a *discriminator* if the failure matches the precise signature of a recorded defect.
    pub known_key: Option<String>,
    /// Human readable: expected vs observed.
    pub detail: String,
    /// The concrete failing case (enough for `replay`).
    pub case: Value,
    /// Size measure used to keep the smallest case per signature.
    pub size: u64,
}

/// What one run (or one shard of it) observed.
#[derive(Default, Debug)]
pub struct Report {
    pub evaluations: u64,
    pub nontrivial: HashSet<u64>,
    pub samples: Vec<Value>,
    pub observed: BTreeMap<String, u64>,
    pub inconclusive: BTreeMap<String, u64>,
    pub violations: BTreeMap<String, Violation>,
    pub violation_count: u64,
    pub notes: Vec<String>,
    pub exhaustive_parts: Vec<String>,
    pub extra: BTreeMap<String, Value>,
}

pub const MAX_SAMPLES: usize = 6;

impl Report {
    pub fn new() -> Report {
        Report::default()
    }
    #[inline]
    pub fn eval(&mut self) {
        self.evaluations += 1;
    }
    #[inline]
    pub fn evals(&mut self, n: u64) {
        self.evaluations += n;
    }
    #[inline]
    pub fn nontrivial(&mut self, fingerprint: u64) {
        // cap memory: beyond 4M distinct fingerprints stop inserting (count stays a lower bound)
        if self.nontrivial.len() < 4_000_000 {
            self.nontrivial.insert(fingerprint);
        }
    }
    pub fn obs(&mut self, key: &str) {
        *self.observed.entry(key.to_string()).or_insert(0) += 1;
    }
    pub fn obs_n(&mut self, key: &str, n: u64) {
        *self.observed.entry(key.to_string()).or_insert(0) += n;
    }
    pub fn inconclusive(&mut self, reason: &str) {
        *self.inconclusive.entry(reason.to_string()).or_insert(0) += 1;
    }
    pub fn sample(&mut self, v: Value) {
        if self.samples.len() < MAX_SAMPLES {
            self.samples.push(v);
        }
    }
    pub fn wants_sample(&self) -> bool {
        self.samples.len() < MAX_SAMPLES
    }
    pub fn note(&mut self, s: impl Into<String>) {
        let s = s.into();
        if self.notes.len() < 50 && !self.notes.contains(&s) {
            self.notes.push(s);
        }
    }
    pub fn violation(
        &mut self,
        signature: impl Into<String>,
        known_key: Option<&str>,
        detail: impl Into<String>,
        case: Value,
        size: u64,
    ) {
        self.violation_count += 1;
        let signature = signature.into();
        let v = Violation {
            signature: signature.clone(),
            known_key: known_key.map(|s| s.to_string()),
            detail: detail.into(),
            case,
            size,
        };
        match self.violations.get(&signature) {
            Some(old) if old.size <= v.size => (),
            _ => {
                self.violations.insert(signature, v);
            }
        }
    }
    pub fn merge(&mut self, other: Report) {
        self.evaluations += other.evaluations;
        if self.nontrivial.is_empty() {
            self.nontrivial = other.nontrivial;
        } else {
            for fp in other.nontrivial {
                self.nontrivial(fp);
            }
        }
        for s in other.samples {
            self.sample(s);
        }
        for (k, v) in other.observed {
            *self.observed.entry(k).or_insert(0) += v;
        }
        for (k, v) in other.inconclusive {
            *self.inconclusive.entry(k).or_insert(0) += v;
        }
        self.violation_count += other.violation_count;
        for (sig, v) in other.violations {
            match self.violations.get(&sig) {
                Some(old) if old.size <= v.size => (),
                _ => {
                    self.violations.insert(sig, v);
                }
            }
        }
        for n in other.notes {
            self.note(n);
        }
        for e in other.exhaustive_parts {
            if !self.exhaustive_parts.contains(&e) {
                self.exhaustive_parts.push(e);
            }
        }
        for (k, v) in other.extra {
            self.extra.insert(k, v);
        }
    }
}

// ---------------------------------------------------------------------------
// Panic guard

thread_local! {
    static LAST_PANIC: std::cell::RefCell<Option<String>> = const { std::cell::RefCell::new(None) };
}

static HOOK_INSTALLED: std::sync::Once = std::sync::Once::new();

/// Install a panic hook that records the message (with location) in a thread local
/// instead of printing it.
pub fn install_quiet_panic_hook() {
    HOOK_INSTALLED.call_once(|| {
        std::panic::set_hook(Box::new(|info| {
            let msg = if let Some(s) = info.payload().downcast_ref::<&str>() {
                s.to_string()
            } else if let Some(s) = info.payload().downcast_ref::<String>() {
                s.clone()
            } else {
                "<non-string panic payload>".to_string()
            };
            let loc = info
                .location()
                .map(|l| format!("{}:{}", l.file(), l.line()))
                .unwrap_or_default();
            LAST_PANIC.with(|p| *p.borrow_mut() = Some(format!("{msg} @ {loc}")));
        }));
    });
}

/// Run `f`, turning a panic into `Err(message @ file:line)`.
pub fn guard<T>(f: impl FnOnce() -> T) -> Result<T, String> {
    install_quiet_panic_hook();
    match std::panic::catch_unwind(std::panic::AssertUnwindSafe(f)) {
        Ok(v) => Ok(v),
        Err(_) => Err(LAST_PANIC
            .with(|p| p.borrow_mut().take())
            .unwrap_or_else(|| "<panic>".to_string())),
    }
}

/// Strip line numbers / volatile parts from a panic message for use in signatures.
pub fn panic_site(msg: &str) -> String {
    // keep "file:line" part (after '@') plus the first 40 chars of the message
    let (m, loc) = match msg.rsplit_once(" @ ") {
        Some((m, l)) => (m, l),
        None => (msg, ""),
    };
    let short: String = m.chars().take(60).collect();
    let loc = loc.rsplit('/').next().unwrap_or(loc);
    format!("{short}@{loc}")
}

// ---------------------------------------------------------------------------
// Parallel shard runner

/// Run `shards` shards on up to `cfg.threads` threads. Each shard gets its own
/// PRNG stream derived from (seed, label, shard index) and its own Report; the
/// reports are merged in shard order, so the outcome does not depend on scheduling.
pub fn par_shards<F>(cfg: &Cfg, label: &str, shards: usize, f: F) -> Report
where
    F: Fn(usize, &mut Rng, &mut Report) + Sync,
{
    install_quiet_panic_hook();
    let next = AtomicUsize::new(0);
    let results: Mutex<Vec<(usize, Report)>> = Mutex::new(Vec::new());
    let threads = cfg.threads.max(1).min(shards.max(1));
    std::thread::scope(|scope| {
        for _ in 0..threads {
            scope.spawn(|| loop {
                let idx = next.fetch_add(1, Ordering::SeqCst);
                if idx >= shards {
                    break;
                }
                let mut rng = Rng::derive(cfg.seed, label, idx as u64);
                let mut rep = Report::new();
                let res = guard(|| f(idx, &mut rng, &mut rep));
                if let Err(msg) = res {
                    // A panic that escaped the per-call guards is a harness problem, not a verdict.
                    rep.inconclusive(&format!("harness-panic:{}", panic_site(&msg)));
                    rep.note(format!("shard {idx} of {label} panicked outside a guarded call: {msg}"));
                }
                results.lock().unwrap().push((idx, rep));
            });
        }
    });
    let mut all = results.into_inner().unwrap();
    all.sort_by_key(|(i, _)| *i);
    let mut total = Report::new();
    for (_, r) in all {
        total.merge(r);
    }
    total
}

/// Fingerprint helper: hash of the JSON/debug rendering of anything.
pub fn fp_of<T: std::fmt::Debug>(t: &T) -> u64 {
    crate::prng::hash_str(&format!("{t:?}"))
}

pub fn fp_json(v: &Value) -> u64 {
    crate::prng::hash_str(&v.to_string())
}

/// Static description of a check.
pub struct CheckInfo {
    pub id: &'static str,
    pub rule: &'static str,
    pub assumptions: &'static [&'static str],
    pub run: fn(&Cfg) -> Report,
    /// Re-execute one stored case; violations are reported in the returned Report.
    pub replay: fn(&Cfg, &Value) -> Report,
}

pub fn evidence_json(cfg: &Cfg, info: &CheckInfo, rep: &Report, known_lines: &[String], violations_new: usize) -> Value {
    let mut coverage = serde_json::Map::new();
    coverage.insert("evaluations".into(), json!(rep.evaluations));
    coverage.insert("distinct_nontrivial".into(), json!(rep.nontrivial.len()));
    coverage.insert("rule".into(), json!(info.rule));
    coverage.insert("samples".into(), json!(rep.samples));
    coverage.insert("observed".into(), json!(rep.observed));
    coverage.insert("inconclusive".into(), json!(rep.inconclusive));
    coverage.insert("exhaustive".into(), json!(false));
    coverage.insert("exhaustive_parts".into(), json!(rep.exhaustive_parts));
    coverage.insert("notes".into(), json!(rep.notes));
    coverage.insert("known_findings_printed".into(), json!(known_lines));
    coverage.insert("violation_events".into(), json!(rep.violation_count));
    for (k, v) in &rep.extra {
        coverage.insert(k.clone(), v.clone());
    }
    json!({
        "property_id": info.id,
        "tier": cfg.tier.name(),
        "seed": cfg.seed,
        "level": "exploration",
        "coverage": Value::Object(coverage),
        "assumptions": info.assumptions,
        "wall_s": (cfg.elapsed_s() * 100.0).round() / 100.0,
        "violations": violations_new,
    })
}

// ---------------------------------------------------------------------------
// Bounded execution of code under test that may not terminate

thread_local! {
    static STAGE: std::cell::RefCell<Option<std::sync::Arc<Mutex<String>>>> = const { std::cell::RefCell::new(None) };
}

/// Name the step the code under test is in (shown when a bounded run does not come back). No-op outside `run_bounded`.
pub fn set_stage(s: &str) {
    STAGE.with(|c| {
        if let Some(a) = &*c.borrow() {
            if let Ok(mut g) = a.lock() {
                g.clear();
                g.push_str(s);
            }
        }
    });
}

pub enum Bounded<T> {
    Done(T),
    /// no result after `cpu_ms` of the helper thread's own CPU time; `stage` = last `set_stage`
    Hang { cpu_ms: u64, stage: String },
    /// the helper got (almost) no CPU for a very long time: no verdict
    Starved,
    /// the helper thread ended without a result (panic outside `guard`)
    Died,
}

/// Helper threads abandoned in an endless computation (each keeps one core busy until the process exits).
pub static ABANDONED_THREADS: AtomicUsize = AtomicUsize::new(0);
/// Callers stop feeding bounded runs once this many helpers are stuck.
pub const ABANDONED_CAP: usize = 4;

fn thread_cpu_ns(tid: u64) -> Option<u64> {
    let s = std::fs::read_to_string(format!("/proc/self/task/{tid}/schedstat")).ok()?;
    s.split_whitespace().next()?.parse::<u64>().ok()
}

fn own_tid() -> Option<u64> {
    let l = std::fs::read_link("/proc/thread-self").ok()?;
    l.file_name()?.to_str()?.parse::<u64>().ok()
}

/// Run `f` on a helper thread. The bound is on the CPU time of that thread (read from /proc), not on wall-clock time,
/// so a loaded machine cannot turn a slow run into a verdict. A helper that exceeds the bound is abandoned.
pub fn run_bounded<T: Send + 'static>(cpu_limit_ms: u64, f: impl FnOnce() -> T + Send + 'static) -> Bounded<T> {
    use std::sync::mpsc;
    use std::time::Duration;
    enum Msg<T> {
        Tid(Option<u64>),
        Done(T),
    }
    let stage = std::sync::Arc::new(Mutex::new(String::new()));
    let st = stage.clone();
    let (tx, rx) = mpsc::channel::<Msg<T>>();
    let spawned = std::thread::Builder::new().name("bounded-helper".into()).stack_size(16 << 20).spawn(move || {
        STAGE.with(|c| *c.borrow_mut() = Some(st));
        let _ = tx.send(Msg::Tid(own_tid()));
        let r = f();
        let _ = tx.send(Msg::Done(r));
    });
    if spawned.is_err() {
        return Bounded::Died;
    }
    let started = Instant::now();
    let mut tid: Option<u64> = None;
    let mut wait = Duration::from_millis(2);
    loop {
        match rx.recv_timeout(wait) {
            Ok(Msg::Tid(t)) => tid = t,
            Ok(Msg::Done(r)) => return Bounded::Done(r),
            Err(mpsc::RecvTimeoutError::Timeout) => {
                wait = (wait * 2).min(Duration::from_millis(200));
                let cpu_ms = tid.and_then(thread_cpu_ns).map(|ns| ns / 1_000_000);
                let wall_ms = started.elapsed().as_millis() as u64;
                match cpu_ms {
                    Some(c) if c >= cpu_limit_ms => {
                        ABANDONED_THREADS.fetch_add(1, Ordering::SeqCst);
                        let s = stage.lock().map(|g| g.clone()).unwrap_or_default();
                        return Bounded::Hang { cpu_ms: c, stage: s };
                    }
                    // CPU time unreadable: fall back to a very generous wall-clock bound without verdict
                    _ if wall_ms >= 40 * cpu_limit_ms.max(1000) => {
                        ABANDONED_THREADS.fetch_add(1, Ordering::SeqCst);
                        return Bounded::Starved;
                    }
                    _ => (),
                }
            }
            Err(mpsc::RecvTimeoutError::Disconnected) => return Bounded::Died,
        }
    }
}

/// A reusable helper thread for many bounded runs (spawning a thread per run costs more than most runs).
/// After a hang the stuck thread is abandoned and the next run gets a fresh one.
pub struct BoundedWorker {
    inner: Option<WorkerInner>,
}

type BoxedJob = Box<dyn FnOnce() -> Box<dyn std::any::Any + Send> + Send>;

struct WorkerInner {
    tx: std::sync::mpsc::Sender<BoxedJob>,
    rx: std::sync::mpsc::Receiver<Box<dyn std::any::Any + Send>>,
    tid: Option<u64>,
    stage: std::sync::Arc<Mutex<String>>,
}

impl Default for BoundedWorker {
    fn default() -> Self {
        Self::new()
    }
}

impl BoundedWorker {
    pub fn new() -> BoundedWorker {
        BoundedWorker { inner: None }
    }

    fn spawn() -> Option<WorkerInner> {
        use std::sync::mpsc;
        let stage = std::sync::Arc::new(Mutex::new(String::new()));
        let st = stage.clone();
        let (tx, job_rx) = mpsc::channel::<BoxedJob>();
        let (res_tx, rx) = mpsc::channel::<Box<dyn std::any::Any + Send>>();
        let (tid_tx, tid_rx) = mpsc::channel::<Option<u64>>();
        std::thread::Builder::new()
            .name("bounded-worker".into())
            .stack_size(16 << 20)
            .spawn(move || {
                STAGE.with(|c| *c.borrow_mut() = Some(st));
                let _ = tid_tx.send(own_tid());
                while let Ok(job) = job_rx.recv() {
                    let r = job();
                    if res_tx.send(r).is_err() {
                        break;
                    }
                }
            })
            .ok()?;
        let tid = tid_rx.recv_timeout(std::time::Duration::from_secs(30)).ok().flatten();
        Some(WorkerInner { tx, rx, tid, stage })
    }

    pub fn run<T: Send + 'static>(&mut self, cpu_limit_ms: u64, f: impl FnOnce() -> T + Send + 'static) -> Bounded<T> {
        use std::sync::mpsc;
        use std::time::Duration;
        if self.inner.is_none() {
            self.inner = Self::spawn();
        }
        let Some(w) = self.inner.as_ref() else { return Bounded::Died };
        if let Ok(mut g) = w.stage.lock() {
            g.clear();
        }
        let baseline = w.tid.and_then(thread_cpu_ns);
        let job: BoxedJob = Box::new(move || Box::new(f()) as Box<dyn std::any::Any + Send>);
        if w.tx.send(job).is_err() {
            self.inner = None;
            return Bounded::Died;
        }
        let started = Instant::now();
        let mut wait = Duration::from_millis(20);
        loop {
            match w.rx.recv_timeout(wait) {
                Ok(r) => {
                    return match r.downcast::<T>() {
                        Ok(b) => Bounded::Done(*b),
                        Err(_) => Bounded::Died,
                    }
                }
                Err(mpsc::RecvTimeoutError::Timeout) => {
                    wait = (wait * 2).min(Duration::from_millis(200));
                    let cpu_ms = match (baseline, w.tid.and_then(thread_cpu_ns)) {
                        (Some(b), Some(c)) => Some(c.saturating_sub(b) / 1_000_000),
                        _ => None,
                    };
                    let wall_ms = started.elapsed().as_millis() as u64;
                    let verdict = match cpu_ms {
                        Some(c) if c >= cpu_limit_ms => {
                            let s = w.stage.lock().map(|g| g.clone()).unwrap_or_default();
                            Some(Bounded::Hang { cpu_ms: c, stage: s })
                        }
                        _ if wall_ms >= 40 * cpu_limit_ms.max(1000) => Some(Bounded::Starved),
                        _ => None,
                    };
                    if let Some(v) = verdict {
                        ABANDONED_THREADS.fetch_add(1, Ordering::SeqCst);
                        self.inner = None;
                        return v;
                    }
                }
                Err(mpsc::RecvTimeoutError::Disconnected) => {
                    self.inner = None;
                    return Bounded::Died;
                }
            }
        }
    }
}
