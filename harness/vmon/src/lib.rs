//! vmon — runtime monitors for the cwe_checker properties C01..C25.
pub mod conv;
pub mod core;
pub mod pref;
pub mod prng;

pub mod c01;

pub const GENERATOR_VERSION: u32 = 1;

/// All implemented checks.
pub fn registry() -> Vec<core::CheckInfo> {
    vec![c01::info()]
}
