//! vmon — runtime monitors for the cwe_checker properties C01..C25.
pub mod conv;
pub mod core;
pub mod pref;
pub mod prng;
pub mod irb;
pub mod irx;
pub mod typing;
pub mod miri;

pub mod c01;
pub mod c02;
pub mod c03;
pub mod c04;
pub mod c05;
pub mod c06;
pub mod c07;
pub mod c08;
pub mod c09;
pub mod c10;
pub mod c11;
pub mod c12;
pub mod c13;
pub mod c14;
pub mod c15;
pub mod c16;
pub mod c17;
pub mod c18;
pub mod c19;
pub mod c20;
pub mod c21;
pub mod c22;
pub mod c23;
pub mod c24;
pub mod c25;

pub const GENERATOR_VERSION: u32 = 1;

/// All checks (one module per property).
pub fn registry() -> Vec<core::CheckInfo> {
    vec![c01::info(), c02::info(), c03::info(), c04::info(), c05::info(), c06::info(), c07::info(), c08::info(), c09::info(), c10::info(), c11::info(), c12::info(), c13::info(), c14::info(), c15::info(), c16::info(), c17::info(), c18::info(), c19::info(), c20::info(), c21::info(), c22::info(), c23::info(), c24::info(), c25::info()]
}
