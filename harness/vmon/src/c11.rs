//! C11 — lifting P-Code to the IR preserves behaviour.
//!
//! Differential execution: random well-sized P-Code blocks are executed by `pcx` (a reference
//! interpreter for raw P-Code written here from the P-Code reference manual, arithmetic by `pref`)
//! and, after `pcode::Project::normalize()` + `into_ir_project()`, by the IR interpreter `irx`
//! from the same random initial states. The module also hosts the P-Code generators used by C12.

use crate::core::*;
use crate::irx::{Ev, Machine, State, Stop};
use crate::pref::{self, V};
use crate::prng::{hash_str, mix, Rng};
use cwe_checker_lib::intermediate_representation as ir;
use cwe_checker_lib::intermediate_representation::{BinOpType, CastOpType, UnOpType};
use cwe_checker_lib::pcode;
use serde::{Deserialize, Serialize};
use serde_json::{json, Value};
use std::collections::{BTreeMap, BTreeSet};

pub fn info() -> CheckInfo {
    CheckInfo {
        id: "C11",
        rule: "random well-sized P-Code blocks (1-12 ops + 0-2 jumps; every integer mnemonic; operands = registers of a table with nested sub-registers RAX>EAX>AX>{AL,AH}, a 16-byte register with low/middle/high windows, same-name smaller registers, 1-byte flags, stack pointer; temporaries; constants; RAM operands as inputs and outputs; cast-to-base idioms and decoys; jumps of all seven mnemonics) plus a systematic sweep over every (output operand x input operand) and every (sub-register x cast x cast target) pair; each block is lifted by pcode::Project::normalize + into_ir_project and executed by irx from 8/64 random initial states next to the reference P-Code interpreter pcx. Compared: final bytes of all base registers, per instruction the loads (multiset of address,size,value) and stores (sequence), branch decision and target, indirect target value, call/return; statically: no IR access to a variable that is neither a base register nor a block-local temporary defined earlier. non-trivial = the block has a sub-register or RAM operand and at least one state ran to the end in both interpreters; distinct = hash of the block",
        assumptions: &[
            "pcx/pref/irx are a correct reading of the P-Code reference and of the IR semantics; little endian memory",
            "only well-sized P-Code is generated (sizes as demanded by the P-Code reference; SUBPIECE offset+size within the input; extensions strictly widen; LOAD/STORE addresses pointer-sized)",
            "RAM varnodes appear as inputs/outputs of ordinary ops, as LOAD address/STORE address/value and as BRANCHIND/CALLIND targets; never as output of LOAD, as CBRANCH condition or RETURN target (the lifter has no translation for those; not observed from the extractor)",
            "a temporary is read only with the size of its latest definition in the block (no overlapping unique accesses); float operations are not generated (no reference semantics)",
            "states in which the reference hits undefined behaviour (division by zero, multiplication wider than 8 bytes) are skipped",
        ],
        run,
        replay,
    }
}

// ---------------------------------------------------------------------------
// JSON shapes of the extractor output (own types; the crate's types are only reached through serde)

#[derive(Clone, Debug, PartialEq, Eq, Serialize, Deserialize)]
pub struct PVar {
    #[serde(default)]
    pub name: Option<String>,
    #[serde(default)]
    pub value: Option<String>,
    #[serde(default)]
    pub address: Option<String>,
    pub size: u64,
    pub is_virtual: bool,
}

#[derive(Clone, Debug, PartialEq, Eq, Serialize, Deserialize)]
pub struct PExpr {
    pub mnemonic: String,
    #[serde(default)]
    pub input0: Option<PVar>,
    #[serde(default)]
    pub input1: Option<PVar>,
    #[serde(default)]
    pub input2: Option<PVar>,
}

#[derive(Clone, Debug, PartialEq, Eq, Serialize, Deserialize)]
pub struct PDef {
    #[serde(default)]
    pub lhs: Option<PVar>,
    pub rhs: PExpr,
}

#[derive(Clone, Debug, PartialEq, Eq, Serialize, Deserialize)]
pub struct PTid {
    pub id: String,
    pub address: String,
}

#[derive(Clone, Debug, PartialEq, Eq, Serialize, Deserialize)]
pub struct PTerm<T> {
    pub tid: PTid,
    pub term: T,
}

#[derive(Clone, Debug, PartialEq, Eq, Serialize, Deserialize)]
pub enum PLabel {
    Direct(PTid),
    Indirect(PVar),
}

#[derive(Clone, Debug, PartialEq, Eq, Serialize, Deserialize)]
pub struct PCall {
    #[serde(default)]
    pub target: Option<PLabel>,
    #[serde(rename = "return", default)]
    pub return_: Option<PLabel>,
    #[serde(default)]
    pub call_string: Option<String>,
}

#[derive(Clone, Debug, PartialEq, Eq, Serialize, Deserialize)]
pub struct PJmp {
    pub mnemonic: String,
    #[serde(default)]
    pub goto: Option<PLabel>,
    #[serde(default)]
    pub call: Option<PCall>,
    #[serde(default)]
    pub condition: Option<PVar>,
    #[serde(default)]
    pub target_hints: Option<Vec<String>>,
}

#[derive(Clone, Debug, PartialEq, Eq, Serialize, Deserialize)]
pub struct PBlk {
    pub defs: Vec<PTerm<PDef>>,
    pub jmps: Vec<PTerm<PJmp>>,
}

#[derive(Clone, Debug, PartialEq, Eq, Serialize, Deserialize)]
pub struct PSub {
    pub name: String,
    pub blocks: Vec<PTerm<PBlk>>,
    #[serde(default)]
    pub calling_convention: Option<String>,
}

#[derive(Clone, Debug, PartialEq, Eq, Serialize, Deserialize)]
pub struct PReg {
    pub register: String,
    pub base_register: String,
    pub lsb: u64,
    pub size: u64,
}

#[derive(Clone, Debug, PartialEq, Eq, Serialize, Deserialize)]
pub struct PArg {
    #[serde(default)]
    pub var: Option<PVar>,
    #[serde(default)]
    pub location: Option<PExpr>,
    pub intent: String,
}

#[derive(Clone, Debug, PartialEq, Eq, Serialize, Deserialize)]
pub struct PExtern {
    pub tid: PTid,
    pub addresses: Vec<String>,
    pub name: String,
    #[serde(default)]
    pub calling_convention: Option<String>,
    pub arguments: Vec<PArg>,
    pub no_return: bool,
    pub has_var_args: bool,
}

#[derive(Clone, Debug, PartialEq, Eq, Serialize, Deserialize)]
pub struct PProgram {
    pub subs: Vec<PTerm<PSub>>,
    pub extern_symbols: Vec<PExtern>,
    pub entry_points: Vec<PTid>,
    pub image_base: String,
}

#[derive(Clone, Debug, PartialEq, Eq, Serialize, Deserialize)]
pub struct PCconv {
    pub calling_convention: String,
    pub integer_parameter_register: Vec<String>,
    pub float_parameter_register: Vec<String>,
    pub return_register: Vec<String>,
    pub float_return_register: Vec<String>,
    pub unaffected_register: Vec<String>,
    pub killed_by_call_register: Vec<String>,
}

#[derive(Clone, Debug, PartialEq, Serialize, Deserialize)]
pub struct PProject {
    pub program: PTerm<PProgram>,
    pub cpu_architecture: String,
    pub stack_pointer_register: PVar,
    pub register_properties: Vec<PReg>,
    pub register_calling_convention: Vec<PCconv>,
    pub datatype_properties: Value,
}

pub const PTR: u64 = 8;

pub fn v_reg(name: &str, size: u64) -> PVar {
    PVar { name: Some(name.to_string()), value: None, address: None, size, is_virtual: false }
}
pub fn v_tmp(name: &str, size: u64) -> PVar {
    PVar { name: Some(name.to_string()), value: None, address: None, size, is_virtual: true }
}
pub fn v_const(val: u128, size: u64, padded: bool) -> PVar {
    let val = val & pref::mask(size.min(16) as u32);
    let s = if padded { format!("{:0width$x}", val, width = (2 * size.min(8)) as usize) } else { format!("{val:x}") };
    PVar { name: None, value: Some(s), address: None, size, is_virtual: false }
}
pub fn v_ram(addr: u64, size: u64) -> PVar {
    PVar { name: None, value: None, address: Some(format!("{addr:08x}")), size, is_virtual: false }
}
pub fn ptid(id: &str, address: &str) -> PTid {
    PTid { id: id.to_string(), address: address.to_string() }
}

pub fn show_var(v: &PVar) -> String {
    if let Some(n) = &v.name {
        format!("{n}:{}", v.size)
    } else if let Some(c) = &v.value {
        format!("0x{c}:{}", v.size)
    } else if let Some(a) = &v.address {
        format!("ram[0x{a}]:{}", v.size)
    } else {
        format!("?:{}", v.size)
    }
}

pub fn show_def(d: &PDef) -> String {
    let ins: Vec<String> = [&d.rhs.input0, &d.rhs.input1, &d.rhs.input2].iter().filter_map(|o| o.as_ref().map(show_var)).collect();
    match &d.lhs {
        Some(l) => format!("{} = {} {}", show_var(l), d.rhs.mnemonic, ins.join(", ")),
        None => format!("{} {}", d.rhs.mnemonic, ins.join(", ")),
    }
}

pub fn show_label(l: &Option<PLabel>) -> String {
    match l {
        None => "-".to_string(),
        Some(PLabel::Direct(t)) => t.id.clone(),
        Some(PLabel::Indirect(v)) => format!("[{}]", show_var(v)),
    }
}

pub fn show_jmp(j: &PJmp) -> String {
    let mut s = j.mnemonic.clone();
    if let Some(c) = &j.condition {
        s += &format!(" if {}", show_var(c));
    }
    if j.goto.is_some() {
        s += &format!(" goto {}", show_label(&j.goto));
    }
    if let Some(c) = &j.call {
        s += &format!(" target {} return {} desc {:?}", show_label(&c.target), show_label(&c.return_), c.call_string);
    }
    if let Some(h) = &j.target_hints {
        s += &format!(" hints {h:?}");
    }
    s
}

pub fn show_blk(b: &PTerm<PBlk>) -> String {
    let mut out = format!("  PBLK [{}]\n", b.tid.id);
    for d in &b.term.defs {
        out += &format!("    [{}] {}\n", d.tid.id, show_def(&d.term));
    }
    for j in &b.term.jmps {
        out += &format!("    [{}] {}\n", j.tid.id, show_jmp(&j.term));
    }
    out
}

// ---------------------------------------------------------------------------
// Register table

pub fn reg_table() -> Vec<PReg> {
    let mut t: Vec<PReg> = Vec::new();
    let mut add = |r: &str, b: &str, lsb: u64, size: u64| t.push(PReg { register: r.to_string(), base_register: b.to_string(), lsb, size });
    for (q, d, w, l, h) in [("RAX", "EAX", "AX", "AL", "AH"), ("RBX", "EBX", "BX", "BL", "BH"), ("RDX", "EDX", "DX", "DL", "DH")] {
        add(q, q, 0, 8);
        add(d, q, 0, 4);
        add(w, q, 0, 2);
        add(l, q, 0, 1);
        add(h, q, 1, 1);
    }
    for (q, d) in [("RCX", "ECX"), ("RSI", "ESI"), ("RDI", "EDI"), ("RBP", "EBP")] {
        add(q, q, 0, 8);
        add(d, q, 0, 4);
    }
    add("RSP", "RSP", 0, 8);
    add("ESP", "RSP", 0, 4);
    add("SP", "RSP", 0, 2);
    for f in ["ZF", "CF", "SF", "OF"] {
        add(f, f, 0, 1);
    }
    add("XMM0", "XMM0", 0, 16);
    add("XMM0_Qa", "XMM0", 0, 8);
    add("XMM0_Qb", "XMM0", 8, 8);
    add("XMM0_Da", "XMM0", 0, 4);
    add("XMM0_Db", "XMM0", 4, 4);
    add("XMM0_Dc", "XMM0", 8, 4);
    add("XMM0_Dd", "XMM0", 12, 4);
    t
}

/// Same-name smaller varnodes (a register name used with a size below the register's size; the
/// extractor names a varnode after the smallest register containing it).
pub const SAME_NAME_SMALLER: &[(&str, u64)] = &[("RCX", 2), ("RCX", 1), ("ECX", 2), ("ECX", 1), ("RSI", 2), ("XMM0_Db", 2), ("XMM0_Qb", 2)];

#[derive(Clone, Debug)]
pub struct RegOp {
    pub name: String,
    pub size: u64,
    pub base: String,
    pub lsb: u64,
    pub base_size: u64,
    pub class: &'static str,
}

impl RegOp {
    pub fn var(&self) -> PVar {
        v_reg(&self.name, self.size)
    }
    pub fn is_base(&self) -> bool {
        self.class == "base" || self.class == "flag"
    }
}

/// Register table of a 32-bit x86 target (pointer size 4).
pub fn reg_table32() -> Vec<PReg> {
    let mut t: Vec<PReg> = Vec::new();
    let mut add = |r: &str, b: &str, lsb: u64, size: u64| t.push(PReg { register: r.to_string(), base_register: b.to_string(), lsb, size });
    for (d, w, l, h) in [("EAX", "AX", "AL", "AH"), ("EBX", "BX", "BL", "BH"), ("EDX", "DX", "DL", "DH")] {
        add(d, d, 0, 4);
        add(w, d, 0, 2);
        add(l, d, 0, 1);
        add(h, d, 1, 1);
    }
    for (d, w) in [("ECX", "CX"), ("ESI", "SI"), ("EDI", "DI"), ("EBP", "BP")] {
        add(d, d, 0, 4);
        add(w, d, 0, 2);
    }
    add("ESP", "ESP", 0, 4);
    add("SP", "ESP", 0, 2);
    for f in ["ZF", "CF", "SF", "OF"] {
        add(f, f, 0, 1);
    }
    add("XMM0", "XMM0", 0, 16);
    add("XMM0_Qa", "XMM0", 0, 8);
    add("XMM0_Qb", "XMM0", 8, 8);
    add("XMM0_Da", "XMM0", 0, 4);
    add("XMM0_Db", "XMM0", 4, 4);
    add("XMM0_Dc", "XMM0", 8, 4);
    add("XMM0_Dd", "XMM0", 12, 4);
    t
}

pub const SAME_NAME_SMALLER32: &[(&str, u64)] = &[("ECX", 2), ("ECX", 1), ("ESI", 2), ("XMM0_Db", 2), ("XMM0_Qb", 2)];

pub fn reg_operands(table: &[PReg]) -> Vec<RegOp> {
    reg_operands_with(table, SAME_NAME_SMALLER)
}

pub fn reg_operands_with(table: &[PReg], same_name_smaller: &[(&str, u64)]) -> Vec<RegOp> {
    let size_of = |n: &str| table.iter().find(|r| r.register == n).map(|r| r.size).unwrap();
    let mut out = Vec::new();
    let mut push = |r: &PReg, size: u64| {
        let base_size = size_of(&r.base_register);
        let class = if size < r.size {
            "ssn"
        } else if r.register == r.base_register {
            if r.size == 1 {
                "flag"
            } else {
                "base"
            }
        } else if r.lsb == 0 {
            "sublow"
        } else if r.lsb + r.size == base_size {
            "subhigh"
        } else {
            "submid"
        };
        out.push(RegOp { name: r.register.clone(), size, base: r.base_register.clone(), lsb: r.lsb, base_size, class });
    };
    for r in table {
        push(r, r.size);
    }
    for (n, s) in same_name_smaller {
        let r = table.iter().find(|r| r.register == *n).unwrap();
        push(r, *s);
    }
    out
}

pub fn cconv_stdcall() -> PCconv {
    let v = |l: &[&str]| l.iter().map(|s| s.to_string()).collect::<Vec<_>>();
    PCconv {
        calling_convention: "__stdcall".to_string(),
        integer_parameter_register: v(&["RDI", "RSI", "RDX", "RCX"]),
        float_parameter_register: v(&["XMM0_Qa"]),
        return_register: v(&["RAX", "RDX"]),
        float_return_register: v(&["XMM0_Qa"]),
        unaffected_register: v(&["RBX", "RBP", "RSP", "EBX"]),
        killed_by_call_register: v(&["RAX", "RCX", "RDX", "RSI", "RDI"]),
    }
}

pub fn empty_project(subs: Vec<PTerm<PSub>>, externs: Vec<PExtern>, entry_points: Vec<PTid>) -> PProject {
    PProject {
        program: PTerm { tid: ptid("prog_00001000", "00001000"), term: PProgram { subs, extern_symbols: externs, entry_points, image_base: "1000".to_string() } },
        cpu_architecture: "x86_64".to_string(),
        stack_pointer_register: v_reg("RSP", 8),
        register_properties: reg_table(),
        register_calling_convention: vec![cconv_stdcall()],
        datatype_properties: json!({"char_size":1,"double_size":8,"float_size":4,"integer_size":4,"long_double_size":16,"long_long_size":8,"long_size":8,"pointer_size":8,"short_size":2}),
    }
}

// ---------------------------------------------------------------------------
// pcx — reference interpreter for raw P-Code blocks

#[derive(Clone, Copy, Debug, PartialEq, Eq)]
pub enum OpKind {
    Copy,
    Load,
    Store,
    Bin(BinOpType),
    Un(UnOpType),
    Cast(CastOpType),
    Subpiece,
}

/// Mnemonic table written from the P-Code reference manual.
pub fn op_kind(m: &str) -> Option<OpKind> {
    use OpKind::*;
    Some(match m {
        "COPY" => Copy,
        "LOAD" => Load,
        "STORE" => Store,
        "PIECE" => Bin(BinOpType::Piece),
        "SUBPIECE" => Subpiece,
        "POPCOUNT" => Cast(CastOpType::PopCount),
        "LZCOUNT" => Cast(CastOpType::LzCount),
        "INT_EQUAL" => Bin(BinOpType::IntEqual),
        "INT_NOTEQUAL" => Bin(BinOpType::IntNotEqual),
        "INT_LESS" => Bin(BinOpType::IntLess),
        "INT_SLESS" => Bin(BinOpType::IntSLess),
        "INT_LESSEQUAL" => Bin(BinOpType::IntLessEqual),
        "INT_SLESSEQUAL" => Bin(BinOpType::IntSLessEqual),
        "INT_ADD" => Bin(BinOpType::IntAdd),
        "INT_SUB" => Bin(BinOpType::IntSub),
        "INT_CARRY" => Bin(BinOpType::IntCarry),
        "INT_SCARRY" => Bin(BinOpType::IntSCarry),
        "INT_SBORROW" => Bin(BinOpType::IntSBorrow),
        "INT_XOR" => Bin(BinOpType::IntXOr),
        "INT_AND" => Bin(BinOpType::IntAnd),
        "INT_OR" => Bin(BinOpType::IntOr),
        "INT_LEFT" => Bin(BinOpType::IntLeft),
        "INT_RIGHT" => Bin(BinOpType::IntRight),
        "INT_SRIGHT" => Bin(BinOpType::IntSRight),
        "INT_MULT" => Bin(BinOpType::IntMult),
        "INT_DIV" => Bin(BinOpType::IntDiv),
        "INT_REM" => Bin(BinOpType::IntRem),
        "INT_SDIV" => Bin(BinOpType::IntSDiv),
        "INT_SREM" => Bin(BinOpType::IntSRem),
        "BOOL_XOR" => Bin(BinOpType::BoolXOr),
        "BOOL_AND" => Bin(BinOpType::BoolAnd),
        "BOOL_OR" => Bin(BinOpType::BoolOr),
        "FLOAT_EQUAL" => Bin(BinOpType::FloatEqual),
        "FLOAT_NOTEQUAL" => Bin(BinOpType::FloatNotEqual),
        "FLOAT_LESS" => Bin(BinOpType::FloatLess),
        "FLOAT_LESSEQUAL" => Bin(BinOpType::FloatLessEqual),
        "FLOAT_ADD" => Bin(BinOpType::FloatAdd),
        "FLOAT_SUB" => Bin(BinOpType::FloatSub),
        "FLOAT_MULT" => Bin(BinOpType::FloatMult),
        "FLOAT_DIV" => Bin(BinOpType::FloatDiv),
        "INT_NEGATE" => Un(UnOpType::IntNegate),
        "INT_2COMP" => Un(UnOpType::Int2Comp),
        "BOOL_NEGATE" => Un(UnOpType::BoolNegate),
        "FLOAT_NEG" => Un(UnOpType::FloatNegate),
        "FLOAT_ABS" => Un(UnOpType::FloatAbs),
        "FLOAT_SQRT" => Un(UnOpType::FloatSqrt),
        "FLOAT_CEIL" | "CEIL" => Un(UnOpType::FloatCeil),
        "FLOAT_FLOOR" | "FLOOR" => Un(UnOpType::FloatFloor),
        "FLOAT_ROUND" | "ROUND" => Un(UnOpType::FloatRound),
        "FLOAT_NAN" => Un(UnOpType::FloatNaN),
        "INT_ZEXT" => Cast(CastOpType::IntZExt),
        "INT_SEXT" => Cast(CastOpType::IntSExt),
        "INT2FLOAT" => Cast(CastOpType::Int2Float),
        "FLOAT2FLOAT" => Cast(CastOpType::Float2Float),
        "TRUNC" => Cast(CastOpType::Trunc),
        _ => return None,
    })
}

/// Memory events of one instruction (all ops sharing one instruction address).
#[derive(Clone, Debug, PartialEq, Eq)]
pub struct Group {
    pub addr: String,
    pub loads: Vec<(u64, u32, u128)>,
    pub stores: Vec<(u64, u32, u128)>,
}

#[derive(Clone, Debug, PartialEq, Eq)]
pub enum Outcome {
    NoJump,
    CondFallOff,
    Goto { decision: Option<bool>, target: String },
    Ind { value: V },
    Call { target: String, ret: Option<String> },
    CallInd { value: V, ret: Option<String> },
    CallOther { desc: String, ret: Option<String> },
    Return { value: V },
}

pub enum PStop {
    /// the block has no defined value here (division by zero, unsupported operation)
    Undefined(String),
    /// the block is not well-formed P-Code: a defect of the generator, never a verdict
    Malformed(String),
}

pub struct Pcx<'a> {
    pub table: &'a BTreeMap<String, PReg>,
    pub machine: &'a Machine,
    /// one little-endian byte array per base register
    pub regs: BTreeMap<String, Vec<u8>>,
    pub temps: BTreeMap<String, V>,
    pub mem: BTreeMap<u64, u8>,
}

fn push_group(groups: &mut Vec<Group>, addr: &str, loads: Vec<(u64, u32, u128)>, stores: Vec<(u64, u32, u128)>) {
    if loads.is_empty() && stores.is_empty() {
        return;
    }
    match groups.last_mut() {
        Some(g) if g.addr == addr => {
            g.loads.extend(loads);
            g.stores.extend(stores);
        }
        _ => groups.push(Group { addr: addr.to_string(), loads, stores }),
    }
}

fn parse_hex(s: &str) -> Result<u128, PStop> {
    u128::from_str_radix(s.trim_start_matches("0x"), 16).map_err(|_| PStop::Malformed(format!("bad hex {s}")))
}

impl<'a> Pcx<'a> {
    fn mem_load(&self, addr: u64, size: u32) -> u128 {
        let mut val = 0u128;
        for i in 0..size as u64 {
            let a = addr.wrapping_add(i);
            let b = self.mem.get(&a).copied().unwrap_or_else(|| self.machine.initial_byte(a)) as u128;
            val |= b << (8 * i);
        }
        val
    }
    fn mem_store(&mut self, addr: u64, size: u32, val: u128) {
        for i in 0..size as u64 {
            self.mem.insert(addr.wrapping_add(i), ((val >> (8 * i)) & 0xff) as u8);
        }
    }
    fn window(&self, name: &str, size: u64) -> Result<(String, usize, usize), PStop> {
        let r = self.table.get(name).ok_or_else(|| PStop::Malformed(format!("unknown register {name}")))?;
        if size > r.size || size == 0 {
            return Err(PStop::Malformed(format!("register {name} used with size {size}")));
        }
        Ok((r.base_register.clone(), r.lsb as usize, size as usize))
    }
    pub fn read(&self, v: &PVar, loads: &mut Vec<(u64, u32, u128)>) -> Result<V, PStop> {
        let w = v.size as u32;
        if !(1..=16).contains(&w) {
            return Err(PStop::Malformed(format!("varnode size {w}")));
        }
        if let Some(name) = &v.name {
            if v.is_virtual {
                match self.temps.get(name) {
                    Some(val) if val.w == w => Ok(*val),
                    Some(val) => Err(PStop::Malformed(format!("temporary {name} read with size {w}, defined with {}", val.w))),
                    None => Err(PStop::Malformed(format!("temporary {name} read before definition"))),
                }
            } else {
                let (base, lsb, size) = self.window(name, v.size)?;
                let bytes = &self.regs[&base];
                let mut val = 0u128;
                for i in 0..size {
                    val |= (bytes[lsb + i] as u128) << (8 * i);
                }
                Ok(V::new(val, w))
            }
        } else if let Some(c) = &v.value {
            Ok(V::new(parse_hex(c)?, w))
        } else if let Some(a) = &v.address {
            let addr = parse_hex(a)? as u64;
            let val = self.mem_load(addr, w);
            loads.push((addr, w, val));
            Ok(V::new(val, w))
        } else {
            Err(PStop::Malformed("empty varnode".into()))
        }
    }
    pub fn write(&mut self, v: &PVar, val: V, stores: &mut Vec<(u64, u32, u128)>) -> Result<(), PStop> {
        if val.w as u64 != v.size {
            return Err(PStop::Malformed(format!("value of {} bytes written to {}", val.w, show_var(v))));
        }
        if let Some(name) = &v.name {
            if v.is_virtual {
                self.temps.insert(name.clone(), val);
            } else {
                let (base, lsb, size) = self.window(name, v.size)?;
                let bytes = self.regs.get_mut(&base).unwrap();
                for i in 0..size {
                    bytes[lsb + i] = ((val.v >> (8 * i)) & 0xff) as u8;
                }
            }
            Ok(())
        } else if let Some(a) = &v.address {
            let addr = parse_hex(a)? as u64;
            self.mem_store(addr, val.w, val.v);
            stores.push((addr, val.w, val.v));
            Ok(())
        } else {
            Err(PStop::Malformed("write to a constant".into()))
        }
    }

    pub fn exec_def(&mut self, d: &PDef, loads: &mut Vec<(u64, u32, u128)>, stores: &mut Vec<(u64, u32, u128)>) -> Result<(), PStop> {
        let kind = op_kind(&d.rhs.mnemonic).ok_or_else(|| PStop::Malformed(format!("mnemonic {}", d.rhs.mnemonic)))?;
        let in0 = d.rhs.input0.as_ref();
        let in1 = d.rhs.input1.as_ref();
        let in2 = d.rhs.input2.as_ref();
        let miss = || PStop::Malformed(format!("missing operand in {}", show_def(d)));
        let result: V = match kind {
            OpKind::Store => {
                let a = self.read(in1.ok_or_else(miss)?, loads)?;
                let v = self.read(in2.ok_or_else(miss)?, loads)?;
                let addr = a.v as u64;
                self.mem_store(addr, v.w, v.v);
                stores.push((addr, v.w, v.v));
                return Ok(());
            }
            OpKind::Load => {
                let a = self.read(in1.ok_or_else(miss)?, loads)?;
                let out = d.lhs.as_ref().ok_or_else(miss)?;
                let addr = a.v as u64;
                let val = self.mem_load(addr, out.size as u32);
                loads.push((addr, out.size as u32, val));
                V::new(val, out.size as u32)
            }
            OpKind::Copy => self.read(in0.ok_or_else(miss)?, loads)?,
            OpKind::Bin(op) => {
                let a = self.read(in0.ok_or_else(miss)?, loads)?;
                let b = self.read(in1.ok_or_else(miss)?, loads)?;
                let same = !matches!(op, BinOpType::Piece | BinOpType::IntLeft | BinOpType::IntRight | BinOpType::IntSRight);
                if same && a.w != b.w {
                    return Err(PStop::Malformed(format!("operand sizes differ in {}", show_def(d))));
                }
                pref::bin(op, a, b).ok_or_else(|| PStop::Undefined(format!("{op:?} on {a:?},{b:?}")))?
            }
            OpKind::Un(op) => {
                let a = self.read(in0.ok_or_else(miss)?, loads)?;
                pref::un(op, a).ok_or_else(|| PStop::Undefined(format!("{op:?}")))?
            }
            OpKind::Cast(op) => {
                let a = self.read(in0.ok_or_else(miss)?, loads)?;
                let out = d.lhs.as_ref().ok_or_else(miss)?;
                if matches!(op, CastOpType::IntZExt | CastOpType::IntSExt) && out.size as u32 <= a.w {
                    return Err(PStop::Malformed(format!("extension does not widen in {}", show_def(d))));
                }
                pref::cast(op, out.size as u32, a).ok_or_else(|| PStop::Undefined(format!("{op:?}")))?
            }
            OpKind::Subpiece => {
                let a = self.read(in0.ok_or_else(miss)?, loads)?;
                let low = self.read(in1.ok_or_else(miss)?, loads)?.v as u32;
                let out = d.lhs.as_ref().ok_or_else(miss)?;
                if low + out.size as u32 > a.w {
                    return Err(PStop::Malformed(format!("subpiece out of range in {}", show_def(d))));
                }
                pref::subpiece(low, out.size as u32, a)
            }
        };
        let out = d.lhs.as_ref().ok_or_else(miss)?;
        self.write(out, result, stores)
    }

    /// Execute a block: memory events per instruction and the outcome of the jumps.
    pub fn run_block(&mut self, blk: &PBlk) -> Result<(Vec<Group>, Outcome), PStop> {
        let mut groups = Vec::new();
        for d in &blk.defs {
            let (mut l, mut s) = (Vec::new(), Vec::new());
            self.exec_def(&d.term, &mut l, &mut s)?;
            push_group(&mut groups, &d.tid.address, l, s);
        }
        let direct = |l: &Option<PLabel>| -> Result<String, PStop> {
            match l {
                Some(PLabel::Direct(t)) => Ok(format!("{}@{}", t.id, t.address)),
                _ => Err(PStop::Malformed("direct label expected".into())),
            }
        };
        let opt_direct = |l: &Option<PLabel>| -> Result<Option<String>, PStop> {
            match l {
                None => Ok(None),
                Some(PLabel::Direct(t)) => Ok(Some(format!("{}@{}", t.id, t.address))),
                _ => Err(PStop::Malformed("direct label expected".into())),
            }
        };
        let mut pending: Option<bool> = None;
        for j in &blk.jmps {
            let mut l = Vec::new();
            let jm = &j.term;
            let indirect = |me: &Self, lab: &Option<PLabel>, l: &mut Vec<(u64, u32, u128)>| -> Result<V, PStop> {
                match lab {
                    Some(PLabel::Indirect(v)) => me.read(v, l),
                    _ => Err(PStop::Malformed("indirect label expected".into())),
                }
            };
            let out = match jm.mnemonic.as_str() {
                "BRANCH" => Some(Outcome::Goto { decision: pending, target: direct(&jm.goto)? }),
                "CBRANCH" => {
                    let c = self.read(jm.condition.as_ref().ok_or_else(|| PStop::Malformed("no condition".into()))?, &mut l)?;
                    if c.v != 0 {
                        Some(Outcome::Goto { decision: Some(true), target: direct(&jm.goto)? })
                    } else {
                        pending = Some(false);
                        None
                    }
                }
                "BRANCHIND" => Some(Outcome::Ind { value: indirect(self, &jm.goto, &mut l)? }),
                "RETURN" => Some(Outcome::Return { value: indirect(self, &jm.goto, &mut l)? }),
                "CALL" => {
                    let c = jm.call.as_ref().ok_or_else(|| PStop::Malformed("no call".into()))?;
                    Some(Outcome::Call { target: direct(&c.target)?, ret: opt_direct(&c.return_)? })
                }
                "CALLIND" => {
                    let c = jm.call.as_ref().ok_or_else(|| PStop::Malformed("no call".into()))?;
                    Some(Outcome::CallInd { value: indirect(self, &c.target, &mut l)?, ret: opt_direct(&c.return_)? })
                }
                "CALLOTHER" => {
                    let c = jm.call.as_ref().ok_or_else(|| PStop::Malformed("no call".into()))?;
                    Some(Outcome::CallOther { desc: c.call_string.clone().unwrap_or_default(), ret: opt_direct(&c.return_)? })
                }
                other => return Err(PStop::Malformed(format!("jump mnemonic {other}"))),
            };
            push_group(&mut groups, &j.tid.address, l, Vec::new());
            if let Some(o) = out {
                return Ok((groups, o));
            }
        }
        Ok((groups, if pending.is_some() { Outcome::CondFallOff } else { Outcome::NoJump }))
    }
}

// ---------------------------------------------------------------------------
// IR side: one lifted block executed by irx

fn tid_key(t: &ir::Tid) -> String {
    format!("{}@{}", t, t.address)
}

pub fn run_ir_block(m: &Machine, st: &mut State, blk: &ir::Term<ir::Blk>) -> Result<(Vec<Group>, Outcome), String> {
    let mut groups = Vec::new();
    for def in &blk.term.defs {
        let mut tr: Vec<Ev> = Vec::new();
        match m.exec_def(st, def, &mut tr) {
            Ok(()) => (),
            Err(Stop::Undefined(what)) => return Err(format!("{what} (at {})", def.tid)),
            Err(Stop::NullAbort(a)) => return Err(format!("null abort {a}")),
        }
        let (mut l, mut s) = (Vec::new(), Vec::new());
        for e in tr {
            match e {
                Ev::Load { addr, size, val } => l.push((addr, size, val)),
                Ev::Store { addr, size, val } => s.push((addr, size, val)),
                _ => (),
            }
        }
        push_group(&mut groups, &def.tid.address, l, s);
    }
    let ev = |st: &State, e: &ir::Expression| -> Result<V, String> {
        match m.eval(st, e) {
            Ok(v) => Ok(v),
            Err(Stop::Undefined(what)) => Err(what),
            Err(Stop::NullAbort(a)) => Err(format!("null abort {a}")),
        }
    };
    let mut pending: Option<bool> = None;
    for j in &blk.term.jmps {
        let out = match &j.term {
            ir::Jmp::Branch(t) => Outcome::Goto { decision: pending, target: tid_key(t) },
            ir::Jmp::CBranch { target, condition } => {
                if ev(st, condition)?.v != 0 {
                    Outcome::Goto { decision: Some(true), target: tid_key(target) }
                } else {
                    pending = Some(false);
                    continue;
                }
            }
            ir::Jmp::BranchInd(e) => Outcome::Ind { value: ev(st, e)? },
            ir::Jmp::Return(e) => Outcome::Return { value: ev(st, e)? },
            ir::Jmp::Call { target, return_ } => Outcome::Call { target: tid_key(target), ret: return_.as_ref().map(tid_key) },
            ir::Jmp::CallInd { target, return_ } => Outcome::CallInd { value: ev(st, target)?, ret: return_.as_ref().map(tid_key) },
            ir::Jmp::CallOther { description, return_ } => Outcome::CallOther { desc: description.clone(), ret: return_.as_ref().map(tid_key) },
        };
        return Ok((groups, out));
    }
    Ok((groups, if pending.is_some() { Outcome::CondFallOff } else { Outcome::NoJump }))
}

fn expr_vars(e: &ir::Expression, out: &mut Vec<ir::Variable>) {
    match e {
        ir::Expression::Var(v) => out.push(v.clone()),
        ir::Expression::Const(_) | ir::Expression::Unknown { .. } => (),
        ir::Expression::BinOp { lhs, rhs, .. } => {
            expr_vars(lhs, out);
            expr_vars(rhs, out);
        }
        ir::Expression::UnOp { arg, .. } | ir::Expression::Cast { arg, .. } | ir::Expression::Subpiece { arg, .. } => expr_vars(arg, out),
    }
}

/// Every variable access of the lifted block must be a base register or a temporary defined earlier in the block.
/// Returns (what, variable) of the first offending access.
pub fn scan_ir_block(blk: &ir::Term<ir::Blk>, bases: &BTreeMap<String, u64>) -> Option<(&'static str, String)> {
    let mut defined: BTreeSet<ir::Variable> = BTreeSet::new();
    let is_base = |v: &ir::Variable| !v.is_temp && bases.get(&v.name) == Some(&u64::from(v.size));
    let check_reads = |e: &ir::Expression, defined: &BTreeSet<ir::Variable>| -> Option<String> {
        let mut vs = Vec::new();
        expr_vars(e, &mut vs);
        vs.into_iter().find(|v| !(is_base(v) || (v.is_temp && defined.contains(v)))).map(|v| format!("{v}"))
    };
    for def in &blk.term.defs {
        let (reads, write): (Vec<&ir::Expression>, Option<&ir::Variable>) = match &def.term {
            ir::Def::Assign { var, value } => (vec![value], Some(var)),
            ir::Def::Load { var, address } => (vec![address], Some(var)),
            ir::Def::Store { address, value } => (vec![address, value], None),
        };
        for e in reads {
            if let Some(v) = check_reads(e, &defined) {
                return Some(("read", v));
            }
        }
        if let Some(var) = write {
            if var.is_temp {
                defined.insert(var.clone());
            } else if !is_base(var) {
                return Some(("write", format!("{var}")));
            }
        }
    }
    for j in &blk.term.jmps {
        let e = match &j.term {
            ir::Jmp::CBranch { condition: e, .. } | ir::Jmp::BranchInd(e) | ir::Jmp::CallInd { target: e, .. } | ir::Jmp::Return(e) => e,
            _ => continue,
        };
        if let Some(v) = check_reads(e, &defined) {
            return Some(("read", v));
        }
    }
    None
}

pub fn show_ir_blk(b: &ir::Term<ir::Blk>) -> String {
    let mut out = format!("  BLK [{}]\n", b.tid);
    for d in &b.term.defs {
        out += &format!("    [{}] {}\n", d.tid, d.term);
    }
    for j in &b.term.jmps {
        out += &format!("    [{}] {}\n", j.tid, j.term);
    }
    out
}

// ---------------------------------------------------------------------------
// Generator of well-sized P-Code (blocks here, programs at the end of the file; also used by C12)

pub const ARITH: &[&str] = &["INT_ADD", "INT_SUB", "INT_XOR", "INT_AND", "INT_OR", "INT_MULT", "INT_DIV", "INT_REM", "INT_SDIV", "INT_SREM"];
pub const ARITH_WIDE: &[&str] = &["INT_ADD", "INT_SUB", "INT_XOR", "INT_AND", "INT_OR"];
pub const COMPARE: &[&str] = &["INT_EQUAL", "INT_NOTEQUAL", "INT_LESS", "INT_SLESS", "INT_LESSEQUAL", "INT_SLESSEQUAL", "INT_CARRY", "INT_SCARRY", "INT_SBORROW"];
pub const SHIFT: &[&str] = &["INT_LEFT", "INT_RIGHT", "INT_SRIGHT"];
pub const BOOLBIN: &[&str] = &["BOOL_XOR", "BOOL_AND", "BOOL_OR"];
pub const UNARY: &[&str] = &["INT_NEGATE", "INT_2COMP", "COPY", "COPY"];
pub const CASTS: &[&str] = &["INT_ZEXT", "INT_ZEXT", "INT_SEXT", "POPCOUNT", "LZCOUNT"];
pub const FLOAT_BIN: &[&str] = &["FLOAT_ADD", "FLOAT_SUB", "FLOAT_MULT", "FLOAT_DIV"];
pub const FLOAT_CMP: &[&str] = &["FLOAT_EQUAL", "FLOAT_NOTEQUAL", "FLOAT_LESS", "FLOAT_LESSEQUAL"];
pub const FLOAT_UN: &[&str] = &["FLOAT_NEG", "FLOAT_ABS", "FLOAT_SQRT", "FLOAT_CEIL", "FLOAT_FLOOR", "FLOAT_ROUND", "CEIL"];
pub const FLOAT_CAST: &[&str] = &["INT2FLOAT", "FLOAT2FLOAT", "TRUNC"];

pub struct JumpCtx {
    /// candidate targets of intraprocedural jumps
    pub blocks: Vec<PTid>,
    /// candidate call targets (subs and extern symbols)
    pub callees: Vec<PTid>,
    pub callother: bool,
    /// every block gets at least one jump
    pub force_jump: bool,
}

pub struct PGen<'a> {
    pub rng: &'a mut Rng,
    pub ops: Vec<RegOp>,
    pub live_temps: Vec<(String, u64)>,
    temp_counter: u32,
    instr_counter: u64,
    pub addr_base: u64,
    pub floats: bool,
    /// keep temporaries of every size readable after a same-name redefinition (C12 only: no execution)
    pub overlap_temps: bool,
    /// allow 4-byte sub-registers as indirect jump targets
    pub narrow_targets: bool,
    pub ram_pool: Vec<u64>,
    /// pointer size of the target and the registers preferred as addresses / indirect jump targets
    pub ptr: u64,
    pub addr_regs: &'static [&'static str],
    pub target_regs: &'static [&'static str],
}

fn def(t: PTid, lhs: Option<PVar>, mn: &str, i0: Option<PVar>, i1: Option<PVar>, i2: Option<PVar>) -> PTerm<PDef> {
    PTerm { tid: t, term: PDef { lhs, rhs: PExpr { mnemonic: mn.to_string(), input0: i0, input1: i1, input2: i2 } } }
}

impl<'a> PGen<'a> {
    pub fn new(rng: &'a mut Rng) -> PGen<'a> {
        PGen {
            rng,
            ops: reg_operands(&reg_table()),
            live_temps: Vec::new(),
            temp_counter: 0,
            instr_counter: 0,
            addr_base: 0x0010_0000,
            floats: false,
            overlap_temps: false,
            narrow_targets: true,
            ram_pool: vec![0x1000, 0x1004, 0x1008, 0x100c, 0x2000, 0x60_1040],
            ptr: PTR,
            addr_regs: &["RSP", "RBP", "RBX", "RDI", "RSI", "RAX"],
            target_regs: &["RAX", "RBX", "RDX", "RCX"],
        }
    }

    /// Generator over the 32-bit register table (pointer size 4).
    pub fn new32(rng: &'a mut Rng) -> PGen<'a> {
        let mut g = PGen::new(rng);
        g.ops = reg_operands_with(&reg_table32(), SAME_NAME_SMALLER32);
        g.ptr = 4;
        g.addr_regs = &["ESP", "EBP", "EBX", "EDI", "ESI", "EAX"];
        g.target_regs = &["EAX", "EBX", "EDX", "ECX"];
        g.narrow_targets = false;
        g.ram_pool = vec![0x1000, 0x1004, 0x1008, 0x100c, 0x2000, 0x0804_a020, 0x0804_a024];
        g
    }

    pub fn fresh_tid(&mut self) -> PTid {
        self.instr_counter += 1;
        let addr = self.addr_base + self.instr_counter * 4;
        ptid(&format!("instr_{addr:08x}_{}", self.instr_counter % 3), &format!("{addr:08x}"))
    }

    fn size(&mut self, allow16: bool, allow_odd: bool) -> u64 {
        if allow16 && self.rng.chance(1, 10) {
            return 16;
        }
        if allow_odd && self.rng.chance(1, 24) {
            return *self.rng.pick(&[3u64, 6]);
        }
        *self.rng.pick(&[1u64, 1, 2, 2, 4, 4, 4, 8, 8, 8, 8])
    }

    fn const_of(&mut self, size: u64) -> PVar {
        let w = size.min(8) as u32;
        let val = if self.rng.chance(1, 4) { self.rng.below(17) as u128 } else { self.rng.biased(w) };
        let padded = self.rng.bool();
        v_const(val, size, padded)
    }

    fn ram_of(&mut self, size: u64) -> PVar {
        let a = *self.rng.pick(&self.ram_pool) + if self.rng.chance(1, 3) { self.rng.below(4) } else { 0 };
        v_ram(a, size)
    }

    pub fn reg_of(&mut self, size: u64) -> Option<PVar> {
        let c: Vec<usize> = (0..self.ops.len()).filter(|i| self.ops[*i].size == size).collect();
        if c.is_empty() {
            None
        } else {
            Some(self.ops[*self.rng.pick(&c)].var())
        }
    }

    fn temp_of(&mut self, size: u64) -> Option<PVar> {
        let c: Vec<usize> = (0..self.live_temps.len()).filter(|i| self.live_temps[*i].1 == size).collect();
        if c.is_empty() {
            None
        } else {
            let (n, s) = self.live_temps[*self.rng.pick(&c)].clone();
            Some(v_tmp(&n, s))
        }
    }

    /// A readable varnode of the given size.
    pub fn input(&mut self, size: u64) -> PVar {
        let roll = self.rng.below(100);
        if roll < 50 {
            if let Some(v) = self.reg_of(size) {
                return v;
            }
        }
        if roll < 68 {
            if let Some(v) = self.temp_of(size) {
                return v;
            }
        }
        if roll < 86 {
            self.const_of(size)
        } else {
            self.ram_of(size)
        }
    }

    /// A writable varnode of the given size (not yet registered: call `note_output` after the inputs were chosen).
    pub fn output(&mut self, size: u64) -> PVar {
        let roll = self.rng.below(100);
        if roll < 58 {
            if let Some(v) = self.reg_of(size) {
                return v;
            }
        }
        if roll < 64 {
            if let Some(v) = self.temp_of(size) {
                return v;
            }
        }
        if roll < 70 && !self.live_temps.is_empty() {
            // redefine an existing temporary name with (possibly) another size
            let n = self.rng.pick(&self.live_temps).0.clone();
            return v_tmp(&n, size);
        }
        if roll < 88 {
            self.temp_counter += 1;
            let n = format!("$U{:x}", 0x1000 + self.temp_counter * 0x80);
            return v_tmp(&n, size);
        }
        self.ram_of(size)
    }

    fn note_output(&mut self, v: &PVar) {
        if v.is_virtual {
            let name = v.name.clone().unwrap();
            if !self.overlap_temps {
                self.live_temps.retain(|(n, _)| *n != name);
            }
            if !self.live_temps.contains(&(name.clone(), v.size)) {
                self.live_temps.push((name, v.size));
            }
        }
    }

    fn push(&mut self, out: &mut Vec<PTerm<PDef>>, lhs: Option<PVar>, mn: &str, i0: Option<PVar>, i1: Option<PVar>, i2: Option<PVar>) {
        let t = self.fresh_tid();
        if let Some(l) = &lhs {
            self.note_output(l);
        }
        out.push(def(t, lhs, mn, i0, i1, i2));
    }

    pub fn addr_input(&mut self) -> PVar {
        if self.rng.chance(3, 5) {
            v_reg(*self.rng.pick(self.addr_regs), self.ptr)
        } else {
            self.input(self.ptr)
        }
    }

    fn space_id(&mut self) -> Option<PVar> {
        if self.rng.bool() {
            Some(v_const(0x1b1, 8, false))
        } else {
            None
        }
    }

    /// One operation computing a value of `size` bytes into `target` (or a random output).
    fn value_op(&mut self, out: &mut Vec<PTerm<PDef>>, size: u64, target: Option<PVar>) {
        let mut choices: Vec<u32> = vec![0, 0, 1, 1, 2, 5, 6];
        if size >= 2 {
            choices.extend([3, 3]); // piece, zext/sext
            choices.push(7);
        }
        if size < 16 {
            choices.extend([4, 4]); // subpiece
        }
        if size == 1 {
            choices.extend([8, 8, 8, 8, 9, 9]);
        }
        let c = *self.rng.pick(&choices);
        let (mn, i0, i1): (String, PVar, Option<PVar>) = match c {
            0 => {
                let l = if size > 8 { ARITH_WIDE } else { ARITH };
                let a = self.input(size);
                let b = if self.rng.chance(1, 8) { a.clone() } else { self.input(size) };
                (self.rng.pick(l).to_string(), a, Some(b))
            }
            1 => (self.rng.pick(UNARY).to_string(), self.input(size), None),
            2 => {
                let a = self.input(size);
                let asz = *self.rng.pick(&[1u64, 1, 4, 8]);
                let b = if self.rng.chance(2, 3) { v_const(*self.rng.pick(&[0u128, 1, 3, 7, 8, 15, 16, 31, 32, 63, 64, 65]), asz, false) } else { self.input(asz) };
                (self.rng.pick(SHIFT).to_string(), a, Some(b))
            }
            3 => {
                let hi = if size == 16 { 8 } else { self.rng.range_usize(1, size as usize - 1) as u64 };
                let (a, b) = (self.input(hi), self.input(size - hi));
                ("PIECE".to_string(), a, Some(b))
            }
            4 => {
                let src = *self.rng.pick(&[2u64, 4, 8, 8, 16].iter().copied().filter(|s| *s >= size).collect::<Vec<_>>());
                let low = self.rng.below(src - size + 1);
                let a = self.input(src);
                ("SUBPIECE".to_string(), a, Some(v_const(low as u128, 4, self.rng.bool())))
            }
            5 => (self.rng.pick(&["POPCOUNT", "LZCOUNT"]).to_string(), { let s = self.size(false, false); self.input(s) }, None),
            6 => ("COPY".to_string(), self.input(size), None),
            7 => {
                let smaller: Vec<u64> = [1u64, 2, 4, 8].iter().copied().filter(|s| *s < size).collect();
                let s = *self.rng.pick(&smaller);
                (self.rng.pick(&["INT_ZEXT", "INT_SEXT"]).to_string(), self.input(s), None)
            }
            8 => {
                let s = self.size(true, false);
                let a = self.input(s);
                let b = if self.rng.chance(1, 8) { a.clone() } else { self.input(s) };
                (self.rng.pick(COMPARE).to_string(), a, Some(b))
            }
            _ => {
                if self.rng.chance(1, 3) {
                    ("BOOL_NEGATE".to_string(), self.bool_input(), None)
                } else {
                    (self.rng.pick(BOOLBIN).to_string(), self.bool_input(), Some(self.bool_input()))
                }
            }
        };
        let o = match target {
            Some(t) => t,
            None => self.output(size),
        };
        self.push(out, Some(o), &mn, Some(i0), i1, None);
    }

    fn bool_input(&mut self) -> PVar {
        match self.rng.below(10) {
            0..=5 => v_reg(*self.rng.pick(&["ZF", "CF", "SF", "OF"]), 1),
            6 => v_const(self.rng.below(2) as u128, 1, false),
            _ => self.input(1),
        }
    }

    fn load_op(&mut self, out: &mut Vec<PTerm<PDef>>, size: u64, target: Option<PVar>) {
        let a = self.addr_input();
        let sp = self.space_id();
        let o = match target {
            Some(t) => t,
            None => {
                // never a RAM varnode as the output of LOAD
                let mut o = self.output(size);
                while o.address.is_some() {
                    o = self.output(size);
                }
                o
            }
        };
        self.push(out, Some(o), "LOAD", sp, Some(a), None);
    }

    fn float_op(&mut self, out: &mut Vec<PTerm<PDef>>) {
        let s = *self.rng.pick(&[4u64, 8, 8, 16]);
        match self.rng.below(5) {
            0 => {
                let (a, b) = (self.input(s), self.input(s));
                let o = self.output(s);
                let mn = *self.rng.pick(FLOAT_BIN);
                self.push(out, Some(o), mn, Some(a), Some(b), None);
            }
            1 => {
                let (a, b) = (self.input(s), self.input(s));
                let o = self.output(1);
                let mn = *self.rng.pick(FLOAT_CMP);
                self.push(out, Some(o), mn, Some(a), Some(b), None);
            }
            2 => {
                let a = self.input(s);
                let o = self.output(s);
                let mn = *self.rng.pick(FLOAT_UN);
                self.push(out, Some(o), mn, Some(a), None, None);
            }
            3 => {
                let a = self.input(s);
                let o = self.output(1);
                self.push(out, Some(o), "FLOAT_NAN", Some(a), None, None);
            }
            _ => {
                let a = self.input(s);
                let os = *self.rng.pick(&[2u64, 4, 8, 10]);
                let o = if os == 10 { v_tmp("$Uf80", 10) } else { self.output(os) };
                let mn = *self.rng.pick(FLOAT_CAST);
                self.push(out, Some(o), mn, Some(a), None, None);
            }
        }
    }

    /// `sub = ...; target = CAST(sub)` with the base register (fused by the lifter) and with decoy targets.
    fn cast_idiom(&mut self, out: &mut Vec<PTerm<PDef>>) {
        let subs: Vec<usize> = (0..self.ops.len()).filter(|i| !self.ops[*i].is_base()).collect();
        let r = self.ops[*self.rng.pick(&subs)].clone();
        if self.rng.chance(1, 3) {
            self.load_op(out, r.size, Some(r.var()));
        } else {
            self.value_op(out, r.size, Some(r.var()));
        }
        if self.rng.chance(1, 10) {
            // something in between: the two defs are no longer adjacent
            self.gen_op(out);
        }
        let mut castop = *self.rng.pick(CASTS);
        let ext = castop == "INT_ZEXT" || castop == "INT_SEXT";
        let ok = |o: &RegOp| !ext || o.size > r.size;
        let roll = self.rng.below(100);
        let cands: Vec<PVar> = if roll < 55 {
            self.ops.iter().filter(|o| o.is_base() && o.name == r.base).map(|o| o.var()).collect()
        } else if roll < 67 {
            self.ops.iter().filter(|o| o.is_base() && o.name != r.base && ok(o)).map(|o| o.var()).collect()
        } else if roll < 80 {
            self.ops.iter().filter(|o| !o.is_base() && o.class != "ssn" && o.base == r.base && o.name != r.name && ok(o)).map(|o| o.var()).collect()
        } else if roll < 92 {
            self.ops.iter().filter(|o| o.class == "ssn" && o.base == r.base && ok(o)).map(|o| o.var()).collect()
        } else {
            let s = if ext { r.size * 2 } else { 4 };
            vec![self.output(s)]
        };
        let target = if cands.is_empty() { v_reg(&r.base, r.base_size) } else { self.rng.pick(&cands).clone() };
        if ext && target.size <= r.size {
            castop = "POPCOUNT";
        }
        // the cast input is the sub-register itself, rarely another window of the same base register
        let input = if self.rng.chance(1, 12) {
            let others: Vec<PVar> = self.ops.iter().filter(|o| o.base == r.base && o.name != r.name && !o.is_base() && (!ext || o.size < target.size)).map(|o| o.var()).collect();
            if others.is_empty() {
                r.var()
            } else {
                self.rng.pick(&others).clone()
            }
        } else {
            r.var()
        };
        let castop = if (castop == "INT_ZEXT" || castop == "INT_SEXT") && target.size <= input.size { "LZCOUNT" } else { castop };
        self.push(out, Some(target), castop, Some(input), None, None);
    }

    pub fn gen_op(&mut self, out: &mut Vec<PTerm<PDef>>) {
        if self.floats && self.rng.chance(1, 8) {
            return self.float_op(out);
        }
        match self.rng.below(100) {
            0..=59 => {
                let s = self.size(true, true);
                self.value_op(out, s, None)
            }
            60..=71 => {
                let s = self.size(true, false);
                self.load_op(out, s, None)
            }
            72..=81 => {
                let a = self.addr_input();
                let s = self.size(true, false);
                let v = self.input(s);
                let sp = self.space_id();
                self.push(out, None, "STORE", sp, Some(a), Some(v));
            }
            _ => self.cast_idiom(out),
        }
    }

    fn target_input(&mut self, allow_ram: bool) -> PVar {
        if self.narrow_targets && self.rng.chance(1, 7) {
            return self.reg_of(4).unwrap();
        }
        loop {
            let v = if self.rng.chance(1, 3) { v_reg(*self.rng.pick(self.target_regs), self.ptr) } else { self.input(self.ptr) };
            if v.address.is_some() && !allow_ram {
                continue;
            }
            return v;
        }
    }

    fn cond_input(&mut self) -> PVar {
        loop {
            let v = self.bool_input();
            if v.address.is_none() {
                return v;
            }
        }
    }

    pub fn gen_jmps(&mut self, ctx: &JumpCtx) -> Vec<PTerm<PJmp>> {
        let mut out = Vec::new();
        let j = |mn: &str| PJmp { mnemonic: mn.to_string(), goto: None, call: None, condition: None, target_hints: None };
        let blk = |me: &mut Self| PLabel::Direct(me.rng.pick(&ctx.blocks).clone());
        let ret = |me: &mut Self| if me.rng.chance(1, 6) { None } else { Some(PLabel::Direct(me.rng.pick(&ctx.blocks).clone())) };
        let mut roll = self.rng.below(100);
        if ctx.force_jump && roll < 8 {
            roll = 8 + self.rng.below(92);
        }
        if roll >= 86 && roll < 93 && !ctx.callother {
            roll = 30;
        }
        match roll {
            0..=7 => (),
            8..=22 => {
                let t = self.fresh_tid();
                out.push(PTerm { tid: t, term: PJmp { goto: Some(blk(self)), ..j("BRANCH") } });
            }
            23..=47 => {
                let c = self.cond_input();
                let t = self.fresh_tid();
                out.push(PTerm { tid: t, term: PJmp { goto: Some(blk(self)), condition: Some(c), ..j("CBRANCH") } });
                if ctx.force_jump || !self.rng.chance(1, 10) {
                    let t = self.fresh_tid();
                    out.push(PTerm { tid: t, term: PJmp { goto: Some(blk(self)), ..j("BRANCH") } });
                }
            }
            48..=57 => {
                let v = self.target_input(true);
                let hints = if self.rng.bool() { Some(ctx.blocks.iter().take(2).map(|b| b.address.clone()).collect()) } else { Some(Vec::new()) };
                let t = self.fresh_tid();
                out.push(PTerm { tid: t, term: PJmp { goto: Some(PLabel::Indirect(v)), target_hints: hints, ..j("BRANCHIND") } });
            }
            58..=69 => {
                let target = Some(PLabel::Direct(self.rng.pick(&ctx.callees).clone()));
                let r = ret(self);
                let t = self.fresh_tid();
                out.push(PTerm { tid: t, term: PJmp { call: Some(PCall { target, return_: r, call_string: None }), ..j("CALL") } });
            }
            70..=79 => {
                let v = self.target_input(true);
                let r = ret(self);
                let t = self.fresh_tid();
                out.push(PTerm { tid: t, term: PJmp { call: Some(PCall { target: Some(PLabel::Indirect(v)), return_: r, call_string: None }), ..j("CALLIND") } });
            }
            86..=92 => {
                let r = ret(self);
                let d = self.rng.pick(&["cpuid", "unimplemented", "swi"]).to_string();
                let t = self.fresh_tid();
                out.push(PTerm { tid: t, term: PJmp { call: Some(PCall { target: None, return_: r, call_string: Some(d) }), ..j("CALLOTHER") } });
            }
            _ => {
                let v = self.target_input(false);
                let t = self.fresh_tid();
                out.push(PTerm { tid: t, term: PJmp { goto: Some(PLabel::Indirect(v)), ..j("RETURN") } });
            }
        }
        out
    }

    /// One block at `addr` with `n_ops` generated operations (idioms may add more defs).
    pub fn gen_block(&mut self, addr: u64, n_ops: usize, ctx: &JumpCtx) -> PTerm<PBlk> {
        self.addr_base = addr;
        self.instr_counter = 0;
        self.live_temps.clear();
        let mut defs = Vec::new();
        for _ in 0..n_ops {
            self.gen_op(&mut defs);
        }
        let jmps = self.gen_jmps(ctx);
        PTerm { tid: ptid(&format!("blk_{addr:08x}"), &format!("{addr:08x}")), term: PBlk { defs, jmps } }
    }
}

pub fn block_ctx() -> JumpCtx {
    JumpCtx {
        blocks: vec![ptid("blk_00200000", "00200000"), ptid("blk_00200040", "00200040"), ptid("blk_00200080", "00200080")],
        callees: vec![ptid("sub_00300000", "00300000"), ptid("sub_ext_a", "00400000")],
        callother: true,
        force_jump: false,
    }
}

// ---------------------------------------------------------------------------
// Lifting one block and comparing the two executions

pub struct Ctx {
    pub template: pcode::Project,
    pub table: BTreeMap<String, PReg>,
    /// base register name -> size
    pub bases: BTreeMap<String, u64>,
    pub ops: Vec<RegOp>,
}

impl Ctx {
    pub fn new() -> Ctx {
        let table = reg_table();
        let template: pcode::Project = serde_json::from_value(serde_json::to_value(empty_project(vec![], vec![], vec![])).unwrap()).expect("template project");
        Ctx {
            template,
            bases: table.iter().filter(|r| r.register == r.base_register).map(|r| (r.register.clone(), r.size)).collect(),
            ops: reg_operands(&table),
            table: table.into_iter().map(|r| (r.register.clone(), r)).collect(),
        }
    }

    pub fn class_of(&self, v: &PVar) -> &'static str {
        if v.address.is_some() {
            "ram"
        } else if v.value.is_some() {
            "const"
        } else if v.is_virtual {
            "temp"
        } else {
            let n = v.name.as_deref().unwrap_or("");
            self.ops.iter().find(|o| o.name == n && o.size == v.size).map(|o| o.class).unwrap_or("unknown-register")
        }
    }

    fn base_of(&self, v: &PVar) -> Option<&str> {
        if v.is_virtual {
            return None;
        }
        v.name.as_ref().and_then(|n| self.table.get(n)).map(|r| r.base_register.as_str())
    }
}

impl Default for Ctx {
    fn default() -> Self {
        Ctx::new()
    }
}

pub fn lift_block(ctx: &Ctx, blk: &PTerm<PBlk>) -> Result<ir::Project, String> {
    let sub = PTerm {
        tid: ptid(&format!("sub_{}", blk.tid.address), &blk.tid.address),
        term: PSub { name: "f".to_string(), blocks: vec![blk.clone()], calling_convention: None },
    };
    let sub_term: ir::Term<pcode::Sub> = serde_json::from_value(serde_json::to_value(&sub).unwrap()).map_err(|e| format!("extractor JSON rejected: {e} @ serde"))?;
    guard(|| {
        let mut p = ctx.template.clone();
        p.program.term.subs.push(sub_term);
        let _ = p.normalize();
        p.into_ir_project(0)
    })
}

pub const PROPOSED_KNOWN_SSN_CAST_FUSION: &str = "c11-cast-fusion-into-smaller-same-name-target";

/// Proposed discriminator (not applied to the verdict): the first surviving write in the lifted block is
/// `B:s = Cast(..)` where B is the name of a base register, s < |B|, the P-Code def with the same tid is a cast
/// whose input is a true sub-register R of B, and the P-Code def right before it writes R — i.e. the
/// cast-to-base fusion fired although the cast target is only a same-name smaller window of the base register.
pub fn fused_cast_into_smaller_same_name_target(ctx: &Ctx, blk: &PBlk, irblk: &ir::Term<ir::Blk>) -> bool {
    let is_base = |v: &ir::Variable| !v.is_temp && ctx.bases.get(&v.name) == Some(&u64::from(v.size));
    for d in &irblk.term.defs {
        let var = match &d.term {
            ir::Def::Assign { var, .. } | ir::Def::Load { var, .. } => var,
            ir::Def::Store { .. } => continue,
        };
        if var.is_temp || is_base(var) {
            continue;
        }
        // first surviving write
        let ir::Def::Assign { value: ir::Expression::Cast { .. }, .. } = &d.term else { return false };
        let Some(bsize) = ctx.bases.get(&var.name) else { return false };
        if u64::from(var.size) >= *bsize {
            return false;
        }
        let id = format!("{}", d.tid);
        let Some(k) = blk.defs.iter().position(|p| p.tid.id == id) else { return false };
        if k == 0 || !matches!(op_kind(&blk.defs[k].term.rhs.mnemonic), Some(OpKind::Cast(_))) {
            return false;
        }
        let Some(input) = &blk.defs[k].term.rhs.input0 else { return false };
        let sub_of_base = !input.is_virtual && input.name.as_ref().and_then(|n| ctx.table.get(n)).map(|r| r.base_register == var.name && r.register != r.base_register).unwrap_or(false);
        return sub_of_base && blk.defs[k - 1].term.lhs.as_ref() == Some(input);
    }
    false
}

fn jmp_tag(ctx: &Ctx, blk: &PBlk) -> String {
    let mut parts = Vec::new();
    for j in &blk.jmps {
        let operand = match (&j.term.goto, j.term.call.as_ref().and_then(|c| c.target.as_ref()), &j.term.condition) {
            (_, _, Some(c)) => ctx.class_of(c),
            (Some(PLabel::Indirect(v)), _, _) | (_, Some(PLabel::Indirect(v)), _) => ctx.class_of(v),
            _ => "direct",
        };
        parts.push(format!("{}({operand})", j.term.mnemonic));
    }
    parts.join("+")
}

fn init_state(ctx: &Ctx, rng: &mut Rng, ram_pool: &[u64]) -> BTreeMap<String, Vec<u8>> {
    let mut regs = BTreeMap::new();
    for (name, size) in &ctx.bases {
        let mut bytes = vec![0u8; *size as usize];
        if *size == 1 {
            bytes[0] = if rng.chance(3, 4) { rng.below(2) as u8 } else { rng.next_u64() as u8 };
        } else {
            for chunk in 0..(*size as usize).div_ceil(8) {
                let v: u64 = if rng.chance(1, 4) {
                    (*rng.pick(ram_pool)).wrapping_add(rng.below(9)).wrapping_sub(4)
                } else if rng.chance(1, 3) {
                    rng.biased(8) as u64
                } else {
                    rng.next_u64()
                };
                for i in 0..8 {
                    if chunk * 8 + i < bytes.len() {
                        bytes[chunk * 8 + i] = (v >> (8 * i)) as u8;
                    }
                }
            }
        }
        regs.insert(name.clone(), bytes);
    }
    regs
}

fn bytes_to_v(bytes: &[u8]) -> V {
    let mut v = 0u128;
    for (i, b) in bytes.iter().enumerate() {
        v |= (*b as u128) << (8 * i);
    }
    V::new(v, bytes.len() as u32)
}

fn show_regs(regs: &BTreeMap<String, Vec<u8>>) -> String {
    regs.iter().map(|(n, b)| format!("{n}={:#x}", bytes_to_v(b).v)).collect::<Vec<_>>().join(" ")
}

const RAM_POOL: &[u64] = &[0x1000, 0x1004, 0x1008, 0x100c, 0x2000, 0x60_1040];

fn check_block_inner(ctx: &Ctx, blk: &PTerm<PBlk>, state_seed: u64, n_states: usize, rep: &mut Report, track: bool) {
    let case = || json!({"kind":"block","block":blk,"state_seed":state_seed,"n_states":n_states});
    let size = (blk.term.defs.len() * 4 + blk.term.jmps.len()) as u64;
    rep.eval();
    let project = match lift_block(ctx, blk) {
        Ok(p) => p,
        Err(p) => {
            rep.violation(format!("lift:panic:{}", panic_site(&p)), None, format!("lifting panicked: {p}\n{}", show_blk(blk)), case(), size);
            return;
        }
    };
    let sub = match project.program.term.subs.values().next() {
        Some(s) if s.term.blocks.len() == 1 => s,
        _ => {
            rep.violation("lift:block-count", None, format!("lifting one block did not produce exactly one IR block\n{}", show_blk(blk)), case(), size);
            return;
        }
    };
    let irblk = &sub.term.blocks[0];
    let both = || format!("--- P-Code block:\n{}--- lifted IR block:\n{}", show_blk(blk), show_ir_blk(irblk));
    if let Some((what, var)) = scan_ir_block(irblk, &ctx.bases) {
        let kind = if var.contains("(temp)") {
            "temporary-not-defined-in-block"
        } else {
            // class of the surviving register operand: sublow / submid / subhigh / ssn (same-name smaller)
            let (n, sz) = var.split_once(':').unwrap_or((var.as_str(), ""));
            let sz: u64 = sz.parse().unwrap_or(0);
            ctx.ops.iter().find(|o| o.name == n && o.size == sz).map(|o| o.class).unwrap_or("unknown-register")
        };
        let mut c = case();
        let mut shape = "";
        if what == "write" && fused_cast_into_smaller_same_name_target(ctx, &blk.term, irblk) {
            c["matches_proposed_discriminator"] = json!(PROPOSED_KNOWN_SSN_CAST_FUSION);
            shape = ":fused-cast";
        }
        rep.violation(
            format!("subregister-survived:{what}:{kind}{shape}"),
            None,
            format!("the lifted block has a {what} access to {var}, which is neither a base register nor a temporary defined earlier in the block\n{}", both()),
            c,
            size,
        );
        return;
    }
    // indirect jump target hints are carried over one to one
    let hints: Vec<String> = blk.term.jmps.iter().find_map(|j| j.term.target_hints.clone()).unwrap_or_default().iter().map(|a| format!("blk_{a}@{a}")).collect();
    let got_hints: Vec<String> = irblk.term.indirect_jmp_targets.iter().map(tid_key).collect();
    if hints != got_hints {
        rep.violation("indirect-target-hints", None, format!("target hints {hints:?} became {got_hints:?}\n{}", both()), case(), size);
    }
    let mut completed = 0usize;
    for k in 0..n_states {
        let mut rng = Rng::derive(state_seed, "c11-state", k as u64);
        let mut m = Machine::new(rng.next_u64());
        m.flags_01 = false;
        let regs0 = init_state(ctx, &mut rng, RAM_POOL);
        rep.eval();
        // reference
        let mut px = Pcx { table: &ctx.table, machine: &m, regs: regs0.clone(), temps: BTreeMap::new(), mem: BTreeMap::new() };
        let (g0, o0) = match px.run_block(&blk.term) {
            Ok(r) => r,
            Err(PStop::Undefined(_)) => {
                if track {
                    rep.obs("state:reference-undefined(skipped)");
                }
                continue;
            }
            Err(PStop::Malformed(w)) => {
                rep.inconclusive("harness:malformed-pcode");
                rep.note(format!("generator produced malformed P-Code: {w}\n{}", show_blk(blk)));
                return;
            }
        };
        // lifted block
        let mut st = State::default();
        for (name, bytes) in &regs0 {
            st.vars.insert(ir::Variable { name: name.clone(), size: ir::ByteSize::new(bytes.len() as u64), is_temp: false }, bytes_to_v(bytes));
        }
        let state_txt = || format!("initial state #{k} (state seed {state_seed}): {}", show_regs(&regs0));
        let (g1, o1) = match run_ir_block(&m, &mut st, irblk) {
            Ok(r) => r,
            Err(what) => {
                let class: String = what.split(" at ").next().unwrap_or("").split(' ').take(3).collect::<Vec<_>>().join("-");
                rep.violation(format!("ir-undefined:{class}"), None, format!("the reference executes the block, the lifted block has no defined behaviour: {what}\n{}\n{}", state_txt(), both()), case(), size);
                return;
            }
        };
        completed += 1;
        // memory events per instruction
        let norm = |g: &[Group]| -> Vec<Group> {
            g.iter()
                .map(|g| {
                    let mut g = g.clone();
                    g.loads.sort();
                    g
                })
                .collect()
        };
        let (n0, n1) = (norm(&g0), norm(&g1));
        if n0 != n1 {
            let idx = n0.iter().zip(n1.iter()).position(|(a, b)| a != b).unwrap_or(n0.len().min(n1.len()));
            let addr = n0.get(idx).or(n1.get(idx)).map(|g| g.addr.clone()).unwrap_or_default();
            let mn = blk.term.defs.iter().find(|d| d.tid.address == addr).map(|d| d.term.rhs.mnemonic.clone()).or_else(|| blk.term.jmps.iter().find(|j| j.tid.address == addr).map(|j| j.term.mnemonic.clone())).unwrap_or_else(|| "?".into());
            let what = match (n0.get(idx), n1.get(idx)) {
                (Some(a), Some(b)) if a.addr == b.addr && a.loads == b.loads => "store-sequence",
                (Some(a), Some(b)) if a.addr == b.addr && a.stores == b.stores => "load-set",
                _ => "memory-events",
            };
            let family = match mn.as_str() {
                "LOAD" | "STORE" => mn.as_str(),
                "BRANCHIND" | "CALLIND" => "jump-operand",
                _ => "implicit-ram-operand",
            };
            rep.violation(
                format!("{what}:{family}"),
                None,
                format!("memory accesses differ at instruction {addr} ({mn})\n  reference: {:?}\n  lifted:    {:?}\n{}\n{}", n0.get(idx), n1.get(idx), state_txt(), both()),
                case(),
                size,
            );
            return;
        }
        // jumps
        if o0 != o1 {
            let what = match (&o0, &o1) {
                (Outcome::Goto { decision: d0, .. }, Outcome::Goto { decision: d1, .. }) if d0 != d1 => "branch-decision",
                (Outcome::Goto { .. }, Outcome::Goto { .. }) => "branch-target",
                (Outcome::Goto { .. }, Outcome::CondFallOff) | (Outcome::CondFallOff, Outcome::Goto { .. }) => "branch-decision",
                (Outcome::Ind { .. }, Outcome::Ind { .. }) => "indirect-target",
                (Outcome::CallInd { value: a, .. }, Outcome::CallInd { value: b, .. }) if a != b => "indirect-target",
                (Outcome::Return { .. }, Outcome::Return { .. }) => "return-target",
                (Outcome::Call { .. }, _) | (Outcome::CallInd { .. }, _) | (Outcome::CallOther { .. }, _) => "call",
                _ => "jump-kind",
            };
            let first = jmp_tag(ctx, &blk.term).split('+').next().unwrap_or("").to_string();
            rep.violation(format!("{what}:{first}"), None, format!("jump outcome differs\n  reference: {o0:?}\n  lifted:    {o1:?}\n{}\n{}", state_txt(), both()), case(), size);
            return;
        }
        // final register contents
        for (name, bytes) in &px.regs {
            let var = ir::Variable { name: name.clone(), size: ir::ByteSize::new(bytes.len() as u64), is_temp: false };
            let expect = bytes_to_v(bytes);
            let got = st.vars.get(&var).copied();
            if got != Some(expect) {
                // the last operation writing into this base register
                let culprit = blk.term.defs.iter().rev().find(|d| d.term.lhs.as_ref().and_then(|l| ctx.base_of(l)) == Some(name.as_str()));
                // coarse signature: class of the last register operand written inside this base register
                let tag = culprit.map(|d| format!("last-write-{}", ctx.class_of(d.term.lhs.as_ref().unwrap()))).unwrap_or_else(|| "not-written".into());
                rep.violation(
                    format!("final-register:{tag}"),
                    None,
                    format!("final content of base register {name}: reference {:#x}, lifted {}\n{}\n{}", expect.v, got.map(|g| format!("{:#x}", g.v)).unwrap_or_else(|| "none".into()), state_txt(), both()),
                    case(),
                    size,
                );
                return;
            }
        }
        if track && k == 0 {
            rep.obs(&format!("outcome:{}", match &o0 {
                Outcome::NoJump => "no-jump",
                Outcome::CondFallOff => "conditional-not-taken-no-fallthrough",
                Outcome::Goto { decision: None, .. } => "goto",
                Outcome::Goto { decision: Some(true), .. } => "conditional-taken",
                Outcome::Goto { decision: Some(false), .. } => "conditional-fallthrough",
                Outcome::Ind { .. } => "indirect-jump",
                Outcome::Call { .. } => "call",
                Outcome::CallInd { .. } => "indirect-call",
                Outcome::CallOther { .. } => "callother",
                Outcome::Return { .. } => "return",
            }));
            if g0.iter().any(|g| !g.loads.is_empty()) {
                rep.obs("blocks-with-loads");
            }
            if g0.iter().any(|g| !g.stores.is_empty()) {
                rep.obs("blocks-with-stores");
            }
        }
    }
    if track {
        let mut interesting = false;
        for d in &blk.term.defs {
            rep.obs(&format!("op:{}", d.term.rhs.mnemonic));
            for v in [&d.term.lhs, &d.term.rhs.input0, &d.term.rhs.input1, &d.term.rhs.input2].into_iter().flatten() {
                let c = ctx.class_of(v);
                if !matches!(c, "base" | "flag" | "temp" | "const") {
                    interesting = true;
                }
            }
            if let Some(l) = &d.term.lhs {
                rep.obs(&format!("out:{}", ctx.class_of(l)));
            }
        }
        for j in &blk.term.jmps {
            rep.obs(&format!("jmp:{}", j.term.mnemonic));
        }
        if irblk.term.defs.len() < blk.term.defs.len() {
            rep.obs("cast-to-base-fused");
        }
        let tag = jmp_tag(ctx, &blk.term);
        if tag.contains("sub") || tag.contains("ram") || tag.contains("ssn") {
            interesting = true;
        }
        if interesting && completed > 0 {
            rep.nontrivial(hash_str(&serde_json::to_string(blk).unwrap_or_default()));
        }
    }
}

/// Greedy shrinking of a violating block: drop defs and jumps while the same signature is still reported.
fn minimise(ctx: &Ctx, blk: &PTerm<PBlk>, sig: &str, state_seed: u64, n_states: usize) -> PTerm<PBlk> {
    let still = |b: &PTerm<PBlk>| -> bool {
        let mut r = Report::new();
        check_block_inner(ctx, b, state_seed, n_states, &mut r, false);
        r.inconclusive.is_empty() && r.violations.contains_key(sig)
    };
    let mut cur = blk.clone();
    loop {
        let mut changed = false;
        for i in (0..cur.term.defs.len()).rev() {
            let mut c = cur.clone();
            c.term.defs.remove(i);
            if still(&c) {
                cur = c;
                changed = true;
            }
        }
        for i in (0..cur.term.jmps.len()).rev() {
            let mut c = cur.clone();
            c.term.jmps.remove(i);
            if still(&c) {
                cur = c;
                changed = true;
            }
        }
        if !changed {
            return cur;
        }
    }
}

pub fn check_block(ctx: &Ctx, blk: &PTerm<PBlk>, state_seed: u64, n_states: usize, rep: &mut Report, shrink: bool) {
    let mut tmp = Report::new();
    check_block_inner(ctx, blk, state_seed, n_states, &mut tmp, true);
    if shrink && !tmp.violations.is_empty() && rep.violation_count < 12 {
        let sigs: Vec<String> = tmp.violations.keys().cloned().collect();
        for sig in sigs {
            let small = minimise(ctx, blk, &sig, state_seed, n_states);
            let mut r = Report::new();
            check_block_inner(ctx, &small, state_seed, n_states, &mut r, false);
            if let Some(v) = r.violations.remove(&sig) {
                tmp.violations.insert(sig, v);
            }
        }
    }
    rep.merge(tmp);
}

// ---------------------------------------------------------------------------
// Systematic sweep

pub fn sweep_blocks(ctx: &Ctx) -> Vec<PTerm<PBlk>> {
    let mut out: Vec<PTerm<PBlk>> = Vec::new();
    let mut n = 0u64;
    let mut mk = |defs: Vec<(Option<PVar>, &str, Option<PVar>, Option<PVar>, Option<PVar>)>, jmps: Vec<PJmp>| {
        n += 1;
        let addr = 0x0050_0000 + n * 0x100;
        let mut k = 0;
        let mut tid = || {
            k += 1;
            ptid(&format!("instr_{:08x}_{k}", addr + k * 4), &format!("{:08x}", addr + k * 4))
        };
        let defs = defs.into_iter().map(|(l, m, a, b, c)| def(tid(), l, m, a, b, c)).collect();
        let jmps = jmps.into_iter().map(|j| PTerm { tid: tid(), term: j }).collect();
        out.push(PTerm { tid: ptid(&format!("blk_{addr:08x}"), &format!("{addr:08x}")), term: PBlk { defs, jmps } });
    };
    let tdef = |size: u64| (Some(v_tmp("$U100", size)), "COPY", Some(v_const(0x1122_3344_5566_7788_u128 ^ (size as u128) << 3, size, true)), None, None);
    // (1) every output operand x every input operand of the same size
    for size in [1u64, 2, 4, 8, 16] {
        let mut operands: Vec<PVar> = ctx.ops.iter().filter(|o| o.size == size).map(|o| o.var()).collect();
        operands.push(v_tmp("$U100", size));
        operands.push(v_ram(0x1000, size));
        for o in &operands {
            for i in operands.iter().chain([v_const(0x8f, size, false)].iter()) {
                let mut pre = Vec::new();
                if i.is_virtual {
                    pre.push(tdef(size));
                }
                let mut d1 = pre.clone();
                d1.push((Some(o.clone()), "COPY", Some(i.clone()), None, None));
                mk(d1, vec![]);
                let mut d2 = pre.clone();
                d2.push((Some(o.clone()), "INT_XOR", Some(v_const(0x5a, size, false)), Some(i.clone()), None));
                mk(d2, vec![]);
            }
            // loads and stores through/of this operand
            if o.address.is_none() {
                mk(vec![(Some(o.clone()), "LOAD", None, Some(v_reg("RBX", 8)), None)], vec![]);
            }
            let mut d = Vec::new();
            if o.is_virtual {
                d.push(tdef(size));
            }
            d.push((None, "STORE", Some(v_const(0x1b1, 8, false)), Some(v_reg("RBX", 8)), Some(o.clone())));
            mk(d, vec![]);
        }
    }
    // (2) every sub-register x every cast x every target operand
    for r in ctx.ops.iter().filter(|o| !o.is_base()) {
        for cast in ["INT_ZEXT", "INT_SEXT", "POPCOUNT", "LZCOUNT"] {
            for t in ctx.ops.iter() {
                if cast.starts_with("INT_") && t.size <= r.size {
                    continue;
                }
                let first = (Some(r.var()), "COPY", Some(v_const(0x80f1_e2d3_c4b5_a697, r.size, false)), None, None);
                mk(vec![first, (Some(t.var()), cast, Some(r.var()), None, None)], vec![]);
                if cast == "INT_ZEXT" || cast == "POPCOUNT" {
                    let first = (Some(r.var()), "LOAD", None, Some(v_reg("RDI", 8)), None);
                    mk(vec![first, (Some(t.var()), cast, Some(r.var()), None, None)], vec![]);
                }
            }
        }
    }
    // (3) every jump mnemonic x every operand
    let j = |mn: &str| PJmp { mnemonic: mn.to_string(), goto: None, call: None, condition: None, target_hints: None };
    let b1 = ptid("blk_00200000", "00200000");
    let b2 = ptid("blk_00200040", "00200040");
    for o in ctx.ops.iter().filter(|o| o.size == 1) {
        for val in [0u128, 1, 2] {
            let set = (Some(o.var()), "COPY", Some(v_const(val, 1, false)), None, None);
            mk(vec![set], vec![PJmp { goto: Some(PLabel::Direct(b1.clone())), condition: Some(o.var()), ..j("CBRANCH") }, PJmp { goto: Some(PLabel::Direct(b2.clone())), ..j("BRANCH") }]);
        }
    }
    for o in ctx.ops.iter().filter(|o| o.size == 8 || o.size == 4).map(|o| o.var()).chain([v_ram(0x2000, 8), v_const(0x40_1000, 8, true)]) {
        mk(vec![], vec![PJmp { goto: Some(PLabel::Indirect(o.clone())), target_hints: Some(vec!["00200000".into()]), ..j("BRANCHIND") }]);
        mk(vec![], vec![PJmp { call: Some(PCall { target: Some(PLabel::Indirect(o.clone())), return_: Some(PLabel::Direct(b1.clone())), call_string: None }), ..j("CALLIND") }]);
        if o.address.is_none() {
            mk(vec![], vec![PJmp { goto: Some(PLabel::Indirect(o.clone())), ..j("RETURN") }]);
        }
    }
    mk(vec![], vec![PJmp { call: Some(PCall { target: Some(PLabel::Direct(ptid("sub_00300000", "00300000"))), return_: None, call_string: None }), ..j("CALL") }]);
    mk(vec![], vec![PJmp { call: Some(PCall { target: None, return_: Some(PLabel::Direct(b2.clone())), call_string: Some("cpuid".into()) }), ..j("CALLOTHER") }]);
    out
}

fn run(cfg: &Cfg) -> Report {
    let ctx = Ctx::new();
    let sweep = sweep_blocks(&ctx);
    let shards = cfg.tier.pick(256usize, 2048usize);
    let per_shard = cfg.tier.pick(5000usize, 1500usize);
    let n_states = cfg.tier.pick(8usize, 64usize);
    let jctx = block_ctx();
    let mut rep = par_shards(cfg, "c11", shards, |idx, rng, rep| {
        for (i, b) in sweep.iter().enumerate() {
            if i % shards == idx {
                check_block(&ctx, b, mix(cfg.seed, i as u64), n_states, rep, true);
                rep.obs("workload:sweep");
            }
        }
        let mut g = PGen::new(rng);
        for i in 0..per_shard {
            let n_ops = g.rng.range_usize(1, 12);
            let blk = g.gen_block(0x0010_0000 + (i as u64) * 0x1000, n_ops, &jctx);
            let seed = g.rng.next_u64();
            check_block(&ctx, &blk, seed, n_states, rep, true);
            rep.obs("workload:random");
            if idx == 0 && i < 3 {
                rep.sample(json!({"pcode_block": show_blk(&blk), "lifted": lift_block(&ctx, &blk).ok().map(|p| p.program.term.subs.values().next().map(|s| show_ir_blk(&s.term.blocks[0]))), "state_seed": seed, "initial_states": n_states}));
            }
        }
    });
    rep.exhaustive_parts.push(format!("sweep of {} blocks: every (output operand x input operand) of equal size for COPY/INT_XOR/LOAD/STORE, every (sub-register x cast x target register) pair, every jump mnemonic x every operand", sweep.len()));
    rep
}

fn replay(_cfg: &Cfg, case: &Value) -> Report {
    let mut rep = Report::new();
    match serde_json::from_value::<PTerm<PBlk>>(case["block"].clone()) {
        Ok(blk) => {
            let ctx = Ctx::new();
            let seed = case["state_seed"].as_u64().unwrap_or(1);
            let n = case["n_states"].as_u64().unwrap_or(8) as usize;
            check_block(&ctx, &blk, seed, n, &mut rep, false);
        }
        Err(e) => rep.note(format!("cannot parse replay case: {e}")),
    }
    rep
}

// ---------------------------------------------------------------------------
// Program-level generator (used by C12)

fn arg_reg(name: &str, size: u64, intent: &str) -> PArg {
    PArg { var: Some(v_reg(name, size)), location: None, intent: intent.to_string() }
}
fn arg_stack(offset: u64, size: u64) -> PArg {
    PArg {
        var: None,
        location: Some(PExpr { mnemonic: "LOAD".into(), input0: Some(PVar { name: None, value: None, address: Some(format!("0x{offset:x}")), size, is_virtual: false }), input1: None, input2: None }),
        intent: "INPUT".into(),
    }
}

/// A random well-sized P-Code program: 1-3 subs, 2-10 blocks, jumps between them, extern symbols.
pub fn gen_program(rng: &mut Rng, floats: bool) -> PProject {
    let n_subs = rng.range_usize(1, 3);
    let total_blocks = rng.range_usize(2.max(n_subs), 10);
    let mut per_sub = vec![1usize; n_subs];
    for _ in n_subs..total_blocks {
        let i = rng.usize_below(n_subs);
        per_sub[i] += 1;
    }
    let blk_addr = |s: usize, b: usize| 0x0010_0000u64 + (s as u64) * 0x1_0000 + (b as u64) * 0x400;
    let blk_tid = |s: usize, b: usize| ptid(&format!("blk_{:08x}", blk_addr(s, b)), &format!("{:08x}", blk_addr(s, b)));
    let sub_tids: Vec<PTid> = (0..n_subs).map(|s| ptid(&format!("sub_{:08x}", blk_addr(s, 0)), &format!("{:08x}", blk_addr(s, 0)))).collect();
    // extern symbols
    let mut externs = vec![
        PExtern { tid: ptid("sub_00400000", "00400000"), addresses: vec!["00400000".into()], name: "ext_a".into(), calling_convention: Some("__stdcall".into()), arguments: vec![arg_reg("RDI", 8, "INPUT"), arg_reg("EAX", 4, "OUTPUT")], no_return: false, has_var_args: false },
        PExtern { tid: ptid("sub_00400010", "00400010"), addresses: vec!["00400010".into()], name: "ext_b".into(), calling_convention: None, arguments: vec![arg_reg("ESI", 4, "INPUT"), arg_stack(8, 4), arg_stack(0x10, 8), arg_reg("XMM0_Qa", 8, "OUTPUT")], no_return: false, has_var_args: true },
    ];
    if rng.chance(1, 3) {
        externs.push(PExtern { tid: ptid("sub_00400020", "00400020"), addresses: vec!["00400020".into()], name: "exit".into(), calling_convention: Some("__stdcall".into()), arguments: vec![arg_reg("EDI", 4, "INPUT")], no_return: true, has_var_args: false });
    }
    if rng.chance(1, 3) {
        let name = *rng.pick(&["scanf", "sscanf", "__isoc99_sscanf"]);
        externs.push(PExtern { tid: ptid("sub_00400030", "00400030"), addresses: vec!["00400030".into()], name: name.into(), calling_convention: Some("__stdcall".into()), arguments: vec![arg_reg("EAX", 4, "OUTPUT")], no_return: false, has_var_args: true });
    }
    let mut callees: Vec<PTid> = sub_tids.clone();
    callees.extend(externs.iter().map(|e| e.tid.clone()));
    let callother = rng.chance(1, 8);
    let mut g = PGen::new(rng);
    g.floats = floats;
    g.overlap_temps = true;
    let mut subs = Vec::new();
    for s in 0..n_subs {
        let mut targets: Vec<PTid> = (0..per_sub[s]).map(|b| blk_tid(s, b)).collect();
        if g.rng.chance(1, 8) {
            // shared block of another function / a target that does not exist
            let os = g.rng.usize_below(n_subs);
            targets.push(blk_tid(os, g.rng.usize_below(per_sub[os])));
        }
        if g.rng.chance(1, 12) {
            targets.push(ptid("blk_00999000", "00999000"));
        }
        let ctx = JumpCtx { blocks: targets, callees: callees.clone(), callother, force_jump: true };
        let mut blocks = Vec::new();
        for b in 0..per_sub[s] {
            let n_ops = g.rng.range_usize(0, 8);
            let mut blk = g.gen_block(blk_addr(s, b), n_ops, &ctx);
            if b == 0 && g.rng.bool() {
                // prologue: push rbp; mov rbp, rsp; sub rsp, c; and rsp, -16 (random subset, in order)
                let mut pro: Vec<PTerm<PDef>> = Vec::new();
                g.addr_base = blk_addr(s, b) + 0x200;
                if g.rng.bool() {
                    let t = g.fresh_tid();
                    pro.push(def(t, Some(v_reg("RSP", 8)), "INT_SUB", Some(v_reg("RSP", 8)), Some(v_const(8, 8, true)), None));
                    let t = g.fresh_tid();
                    pro.push(def(t, None, "STORE", Some(v_const(0x1b1, 8, false)), Some(v_reg("RSP", 8)), Some(v_reg("RBP", 8))));
                }
                if g.rng.bool() {
                    let t = g.fresh_tid();
                    pro.push(def(t, Some(v_reg("RBP", 8)), "COPY", Some(v_reg("RSP", 8)), None, None));
                }
                if g.rng.bool() {
                    let c = *g.rng.pick(&[8u128, 16, 24, 40, 0x100]);
                    let t = g.fresh_tid();
                    pro.push(def(t, Some(v_reg("RSP", 8)), "INT_SUB", Some(v_reg("RSP", 8)), Some(v_const(c, 8, false)), None));
                }
                if g.rng.chance(2, 3) {
                    let t = g.fresh_tid();
                    match g.rng.below(4) {
                        0 => pro.push(def(t, Some(v_reg("ESP", 4)), "INT_AND", Some(v_reg("ESP", 4)), Some(v_const(0xffff_fff0, 4, false)), None)),
                        1 => pro.push(def(t, Some(v_reg("RSP", 8)), "INT_AND", Some(v_const(0xffff_ffff_ffff_fff0, 8, false)), Some(v_reg("RSP", 8)), None)),
                        _ => pro.push(def(t, Some(v_reg("RSP", 8)), "INT_AND", Some(v_reg("RSP", 8)), Some(v_const(0xffff_ffff_ffff_fff0, 8, false)), None)),
                    }
                }
                pro.append(&mut blk.term.defs);
                blk.term.defs = pro;
            }
            blocks.push(blk);
        }
        if blocks.len() > 1 && g.rng.chance(1, 6) {
            // the entry block need not come first in the extractor's output
            let k = g.rng.range_usize(1, blocks.len() - 1);
            blocks.swap(0, k);
        }
        let cc = if g.rng.bool() { Some("__stdcall".to_string()) } else { None };
        subs.push(PTerm { tid: sub_tids[s].clone(), term: PSub { name: format!("fn_{s}"), blocks, calling_convention: cc } });
    }
    empty_project(subs, externs, vec![sub_tids[0].clone()])
}

pub fn cconv_cdecl32() -> PCconv {
    let v = |l: &[&str]| l.iter().map(|s| s.to_string()).collect::<Vec<_>>();
    PCconv {
        calling_convention: "__cdecl".to_string(),
        integer_parameter_register: v(&[]),
        float_parameter_register: v(&[]),
        return_register: v(&["EAX", "EDX"]),
        float_return_register: v(&["XMM0_Qa"]),
        unaffected_register: v(&["EBX", "EBP", "ESP", "ESI", "EDI", "BX"]),
        killed_by_call_register: v(&["EAX", "ECX", "EDX"]),
    }
}

/// A random well-sized P-Code program for a 32-bit x86 target: same statement generator as [`gen_program`] over the 32-bit
/// register table, 4-byte addresses and jump targets, stack arguments, RAM operands of every size.
pub fn gen_program32(rng: &mut Rng, floats: bool) -> PProject {
    let n_subs = rng.range_usize(1, 3);
    let total_blocks = rng.range_usize(2.max(n_subs), 10);
    let mut per_sub = vec![1usize; n_subs];
    for _ in n_subs..total_blocks {
        let i = rng.usize_below(n_subs);
        per_sub[i] += 1;
    }
    let blk_addr = |s: usize, b: usize| 0x0804_8000u64 + (s as u64) * 0x1_0000 + (b as u64) * 0x400;
    let blk_tid = |s: usize, b: usize| ptid(&format!("blk_{:08x}", blk_addr(s, b)), &format!("{:08x}", blk_addr(s, b)));
    let sub_tids: Vec<PTid> = (0..n_subs).map(|s| ptid(&format!("sub_{:08x}", blk_addr(s, 0)), &format!("{:08x}", blk_addr(s, 0)))).collect();
    let mut externs = vec![
        PExtern { tid: ptid("sub_08040000", "08040000"), addresses: vec!["08040000".into()], name: "ext_a".into(), calling_convention: Some("__cdecl".into()), arguments: vec![arg_stack(4, 4), arg_reg("EAX", 4, "OUTPUT")], no_return: false, has_var_args: false },
        PExtern { tid: ptid("sub_08040010", "08040010"), addresses: vec!["08040010".into()], name: "ext_b".into(), calling_convention: None, arguments: vec![arg_stack(4, 4), arg_stack(8, 2), arg_stack(0xc, 8), arg_reg("XMM0_Qa", 8, "OUTPUT")], no_return: false, has_var_args: true },
    ];
    if rng.chance(1, 3) {
        externs.push(PExtern { tid: ptid("sub_08040020", "08040020"), addresses: vec!["08040020".into()], name: "exit".into(), calling_convention: Some("__cdecl".into()), arguments: vec![arg_stack(4, 4)], no_return: true, has_var_args: false });
    }
    if rng.chance(1, 3) {
        let name = *rng.pick(&["scanf", "sscanf", "__isoc99_sscanf"]);
        externs.push(PExtern { tid: ptid("sub_08040030", "08040030"), addresses: vec!["08040030".into()], name: name.into(), calling_convention: Some("__cdecl".into()), arguments: vec![arg_stack(4, 4), arg_reg("EAX", 4, "OUTPUT")], no_return: false, has_var_args: true });
    }
    let mut callees: Vec<PTid> = sub_tids.clone();
    callees.extend(externs.iter().map(|e| e.tid.clone()));
    let callother = rng.chance(1, 8);
    let mut g = PGen::new32(rng);
    g.floats = floats;
    g.overlap_temps = true;
    let mut subs = Vec::new();
    for s in 0..n_subs {
        let mut targets: Vec<PTid> = (0..per_sub[s]).map(|b| blk_tid(s, b)).collect();
        if g.rng.chance(1, 8) {
            let os = g.rng.usize_below(n_subs);
            targets.push(blk_tid(os, g.rng.usize_below(per_sub[os])));
        }
        if g.rng.chance(1, 12) {
            targets.push(ptid("blk_08999000", "08999000"));
        }
        let ctx = JumpCtx { blocks: targets, callees: callees.clone(), callother, force_jump: true };
        let mut blocks = Vec::new();
        for b in 0..per_sub[s] {
            let n_ops = g.rng.range_usize(0, 8);
            let mut blk = g.gen_block(blk_addr(s, b), n_ops, &ctx);
            if b == 0 && g.rng.bool() {
                // prologue: push ebp; mov ebp, esp; sub esp, c; and esp, -16 (random subset, in order)
                let mut pro: Vec<PTerm<PDef>> = Vec::new();
                g.addr_base = blk_addr(s, b) + 0x200;
                if g.rng.bool() {
                    let t = g.fresh_tid();
                    pro.push(def(t, Some(v_reg("ESP", 4)), "INT_SUB", Some(v_reg("ESP", 4)), Some(v_const(4, 4, true)), None));
                    let t = g.fresh_tid();
                    pro.push(def(t, None, "STORE", Some(v_const(0x1b1, 8, false)), Some(v_reg("ESP", 4)), Some(v_reg("EBP", 4))));
                }
                if g.rng.bool() {
                    let t = g.fresh_tid();
                    pro.push(def(t, Some(v_reg("EBP", 4)), "COPY", Some(v_reg("ESP", 4)), None, None));
                }
                if g.rng.bool() {
                    let c = *g.rng.pick(&[8u128, 16, 24, 40, 0x100]);
                    let t = g.fresh_tid();
                    pro.push(def(t, Some(v_reg("ESP", 4)), "INT_SUB", Some(v_reg("ESP", 4)), Some(v_const(c, 4, false)), None));
                }
                if g.rng.chance(2, 3) {
                    let t = g.fresh_tid();
                    match g.rng.below(3) {
                        0 => pro.push(def(t, Some(v_reg("ESP", 4)), "INT_AND", Some(v_const(0xffff_fff0, 4, false)), Some(v_reg("ESP", 4)), None)),
                        _ => pro.push(def(t, Some(v_reg("ESP", 4)), "INT_AND", Some(v_reg("ESP", 4)), Some(v_const(0xffff_fff0, 4, false)), None)),
                    }
                }
                pro.append(&mut blk.term.defs);
                blk.term.defs = pro;
            }
            blocks.push(blk);
        }
        if blocks.len() > 1 && g.rng.chance(1, 6) {
            let k = g.rng.range_usize(1, blocks.len() - 1);
            blocks.swap(0, k);
        }
        let cc = if g.rng.bool() { Some("__cdecl".to_string()) } else { None };
        subs.push(PTerm { tid: sub_tids[s].clone(), term: PSub { name: format!("fn_{s}"), blocks, calling_convention: cc } });
    }
    PProject {
        program: PTerm { tid: ptid("prog_08040000", "08040000"), term: PProgram { subs, extern_symbols: externs, entry_points: vec![sub_tids[0].clone()], image_base: "8040000".to_string() } },
        cpu_architecture: "x86_32".to_string(),
        stack_pointer_register: v_reg("ESP", 4),
        register_properties: reg_table32(),
        register_calling_convention: vec![cconv_cdecl32()],
        datatype_properties: json!({"char_size":1,"double_size":8,"float_size":4,"integer_size":4,"long_double_size":12,"long_long_size":8,"long_size":4,"pointer_size":4,"short_size":2}),
    }
}
