//! C05 — `MemRegion` behaves as a store of non-overlapping typed cells.
//!
//! Monitor shape: *history + executable model* with unique write ids.
//!
//! Two real `MemRegion<T>` evolve under a history of operations; next to them two
//! instances of a small cell-store model (written from the documentation of
//! `mem_region.rs` and the property statement, in terms of byte intervals and brute
//! force intersection tests) evolve under the same history. After every operation
//! the complete dump of both real regions is compared with the model, the byte
//! ownership of the real dump is checked (no byte owned by two cells), no stored
//! value may be top, and `get`/`get_unsized` are probed.
//!
//! Value domains:
//!  * `Tracer` (defined here): `{size, ids:set<u32>, maybe_top}`; merging with top sets
//!    `maybe_top` but is *not* top, so cells present in only one merge input survive.
//!    Its `merge` asserts equal sizes (the trait contract says values of different
//!    sizes cannot be merged), so a region merging differently sized cells panics.
//!  * `BitvectorDomain`: the value is the write id; top is maximal.

use crate::conv::bs;
use crate::core::*;
use crate::prng::{mix, Rng};
use cwe_checker_lib::abstract_domain::{AbstractDomain, BitvectorDomain, HasTop, MemRegion, SizedDomain};
use cwe_checker_lib::intermediate_representation::{Bitvector, ByteSize};
use serde::{Deserialize, Serialize};
use serde_json::{json, Value};
use std::collections::{BTreeMap, BTreeSet};

pub fn info() -> CheckInfo {
    CheckInfo {
        id: "C05",
        rule: "one evaluation = one operation of a history applied to two real MemRegions and to the cell-store model, followed by the full oracle (complete iter()/entry_map()/values() dump of both regions equals the model, no byte owned by two cells, no stored top, is_top() iff empty, get/get_unsized probes). Histories: random (length <= 60, offsets -16..40, sizes 1,2,4,8, address sizes 4 and 8) over add/insert_at_byte_index, remove, merge_write_top, mark_interval_values_as_top, mark_all_values_as_top, add_offset_to_all_indices, values_mut+clear_top_values, merge/merge_with of the two regions, clone, top(); for the tracer domain and for BitvectorDomain; plus ALL histories of length <= 2 (quick) / <= 3 (thorough) over offsets 0..6, sizes 1,2,4. non-trivial = the operation removed/changed/moved at least one existing cell, or is a merge of two non-empty different regions; distinct = hash of (domain, cell shapes (offset,size) of both regions before the operation, operation without ids)",
        assumptions: &[
            "input domain: sizes > 0 (asserted by insert/remove), positions given as bitvectors of the region's address size (asserted), start <= end for mark_interval_values_as_top, values changed through values_mut keep their size, offsets small (no i64 overflow)",
            "mark_interval_values_as_top(start,end,size): `end` is the last possible write offset (inclusive), i.e. the bytes [start, end+size) may be written; this is how every caller in the crate uses it (e.g. mark_interval_values_as_top(offset, offset, 1) for one byte)",
            "the tracer domain is part of the harness: merge = union of ids / or of flags, asserting equal sizes; only a value without ids is top",
            "BitvectorDomain::merge (equal -> same value, else Top) is trusted here, it is the subject of other properties",
            "verdicts on the release profile",
        ],
        run,
        replay,
    }
}

// ---------------------------------------------------------------------------
// Model values and the two value domains

/// Model-side description of a value: size in bytes, set of write ids (bit i = id i), maybe-top flag.
#[derive(Clone, Copy, PartialEq, Eq, Debug)]
struct MV {
    size: u32,
    ids: u128,
    flag: bool,
}

impl MV {
    fn top(size: u32) -> MV {
        MV { size, ids: 0, flag: true }
    }
    fn is_top(&self) -> bool {
        self.ids == 0
    }
    fn show(&self) -> String {
        if self.ids == 0 {
            return format!("Top{}", self.size);
        }
        let ids: Vec<String> = (0..128).filter(|i| self.ids >> i & 1 == 1).map(|i| i.to_string()).collect();
        format!("w{}:{{{}}}{}", self.size, ids.join(","), if self.flag { "?" } else { "" })
    }
}

#[derive(Clone, Copy, PartialEq, Eq, Debug)]
enum Kind {
    Tracer,
    Bv,
}

impl Kind {
    fn name(self) -> &'static str {
        match self {
            Kind::Tracer => "tracer",
            Kind::Bv => "bv",
        }
    }
}

/// Model merge of two values of the same size.
fn mv_merge(kind: Kind, a: MV, b: MV) -> MV {
    debug_assert_eq!(a.size, b.size);
    match kind {
        Kind::Tracer => MV { size: a.size, ids: a.ids | b.ids, flag: a.flag || b.flag },
        Kind::Bv => {
            if a == b {
                a
            } else {
                MV::top(a.size)
            }
        }
    }
}

/// The value written by an insert operation.
fn mk_value(kind: Kind, size: u32, id: u32, flag: bool) -> MV {
    if id == 0 {
        MV::top(size)
    } else {
        MV { size, ids: 1u128 << (id % 128), flag: flag && kind == Kind::Tracer }
    }
}

/// The tracer domain: remembers which writes flowed into a value.
#[derive(Clone, Debug, PartialEq, Eq, Hash, Serialize, Deserialize)]
pub struct Tracer {
    size: u32,
    ids: BTreeSet<u32>,
    maybe_top: bool,
}

impl AbstractDomain for Tracer {
    fn merge(&self, other: &Self) -> Self {
        assert_eq!(self.size, other.size, "tracer: cells of different sizes merged");
        Tracer {
            size: self.size,
            ids: self.ids.union(&other.ids).cloned().collect(),
            maybe_top: self.maybe_top || other.maybe_top,
        }
    }
    fn is_top(&self) -> bool {
        self.ids.is_empty()
    }
}

impl SizedDomain for Tracer {
    fn bytesize(&self) -> ByteSize {
        ByteSize::new(self.size as u64)
    }
    fn new_top(bytesize: ByteSize) -> Self {
        Tracer { size: u64::from(bytesize) as u32, ids: BTreeSet::new(), maybe_top: true }
    }
}

impl HasTop for Tracer {
    fn top(&self) -> Self {
        Tracer { size: self.size, ids: BTreeSet::new(), maybe_top: true }
    }
}

trait Dom: AbstractDomain + SizedDomain + HasTop + std::fmt::Debug {
    const KIND: Kind;
    fn make(v: &MV) -> Self;
    fn observe(&self) -> MV;
}

impl Dom for Tracer {
    const KIND: Kind = Kind::Tracer;
    fn make(v: &MV) -> Self {
        Tracer { size: v.size, ids: (0..128u32).filter(|i| v.ids >> i & 1 == 1).collect(), maybe_top: v.flag }
    }
    fn observe(&self) -> MV {
        let mut ids = 0u128;
        for i in &self.ids {
            ids |= 1u128 << (i % 128);
        }
        MV { size: self.size, ids, flag: self.maybe_top }
    }
}

impl Dom for BitvectorDomain {
    const KIND: Kind = Kind::Bv;
    fn make(v: &MV) -> Self {
        if v.ids == 0 {
            return BitvectorDomain::Top(bs(v.size));
        }
        let id = v.ids.trailing_zeros() as u64;
        let bv = match v.size {
            1 => Bitvector::from_u8(id as u8),
            2 => Bitvector::from_u16(id as u16),
            4 => Bitvector::from_u32(id as u32),
            8 => Bitvector::from_u64(id),
            _ => panic!("harness: unsupported cell size"),
        };
        BitvectorDomain::Value(bv)
    }
    fn observe(&self) -> MV {
        match self {
            BitvectorDomain::Top(sz) => MV::top(u64::from(*sz) as u32),
            BitvectorDomain::Value(bv) => {
                let size = u64::from(self.bytesize()) as u32;
                match bv.try_to_u64() {
                    Ok(v) if v > 0 && v < 128 => MV { size, ids: 1u128 << v, flag: false },
                    // a value that was never written: cannot equal any model value
                    _ => MV { size, ids: 0, flag: false },
                }
            }
        }
    }
}

fn pos_bv(off: i64, addr: u32) -> Bitvector {
    match addr {
        4 => Bitvector::from_i32(off as i32),
        _ => Bitvector::from_i64(off),
    }
}

fn small_bv(v: i64, w: u32) -> Bitvector {
    match w {
        1 => Bitvector::from_i8(v as i8),
        2 => Bitvector::from_i16(v as i16),
        4 => Bitvector::from_i32(v as i32),
        _ => Bitvector::from_i64(v),
    }
}

// ---------------------------------------------------------------------------
// Operations of a history

#[derive(Clone, Debug, PartialEq, Serialize, Deserialize)]
enum Op {
    /// write of a fresh value (`id` = unique write id, 0 = the top value) of `size` bytes at `off`
    Insert { r: u8, off: i64, size: u32, id: u32, flag: bool, via_add: bool },
    /// remove(off, size); `sw` = width of the bitvector carrying the size
    Remove { r: u8, off: i64, size: u32, sw: u32 },
    /// merge_write_top(off, size)
    Mwt { r: u8, off: i64, size: u32 },
    /// mark_interval_values_as_top(start, end, elem)
    Mark { r: u8, start: i64, end: i64, elem: u32 },
    MarkAll { r: u8 },
    /// add_offset_to_all_indices(k)
    Shift { r: u8, k: i64 },
    /// values_mut(): the i-th cell (in offset order) becomes top if bit i%64 of `top_mask` is set,
    /// else a fresh value with write id `id` if bit i%64 of `fresh_mask` is set; then clear_top_values()
    Mutate { r: u8, top_mask: u64, fresh_mask: u64, id: u32 },
    /// region[dst] = region[lhs].merge(region[1-lhs]); `with` (needs dst == lhs): via merge_with
    Merge { lhs: u8, dst: u8, with: bool },
    /// region[dst] = region[1-dst].clone()
    Copy { dst: u8 },
    /// region[r] = region[r].top()
    Reset { r: u8 },
}

impl Op {
    fn kind(&self) -> &'static str {
        match self {
            Op::Insert { via_add: true, .. } => "add",
            Op::Insert { .. } => "insert",
            Op::Remove { .. } => "remove",
            Op::Mwt { .. } => "merge_write_top",
            Op::Mark { .. } => "mark_interval",
            Op::MarkAll { .. } => "mark_all",
            Op::Shift { .. } => "shift",
            Op::Mutate { .. } => "values_mut_clear_top",
            Op::Merge { with: true, .. } => "merge_with",
            Op::Merge { .. } => "merge",
            Op::Copy { .. } => "clone",
            Op::Reset { .. } => "top",
        }
    }
    /// hash of the operation without write ids
    fn shape_hash(&self) -> u64 {
        let h = |a: u64, xs: &[i64]| xs.iter().fold(a, |h, x| mix(h, *x as u64));
        match *self {
            Op::Insert { r, off, size, id, flag, via_add } => h(1, &[r as i64, off, size as i64, (id == 0) as i64, flag as i64, via_add as i64]),
            Op::Remove { r, off, size, .. } => h(2, &[r as i64, off, size as i64]),
            Op::Mwt { r, off, size } => h(3, &[r as i64, off, size as i64]),
            Op::Mark { r, start, end, elem } => h(4, &[r as i64, start, end, elem as i64]),
            Op::MarkAll { r } => h(5, &[r as i64]),
            Op::Shift { r, k } => h(6, &[r as i64, k]),
            Op::Mutate { r, top_mask, fresh_mask, .. } => h(7, &[r as i64, top_mask as i64, fresh_mask as i64]),
            Op::Merge { lhs, dst, with } => h(8, &[lhs as i64, dst as i64, with as i64]),
            Op::Copy { dst } => h(9, &[dst as i64]),
            Op::Reset { r } => h(10, &[r as i64]),
        }
    }
}

// ---------------------------------------------------------------------------
// The oracle: a cell store described by byte intervals

/// Cells `(offset, value)`, kept sorted by offset. A cell owns the bytes `offset .. offset+size`.
#[derive(Clone, PartialEq, Eq, Debug, Default)]
struct Model {
    cells: Vec<(i64, MV)>,
}

/// Does the cell at `off` own a byte of `start..end`?
fn hits(off: i64, v: &MV, start: i64, end: i64) -> bool {
    (off..off + v.size as i64).any(|b| start <= b && b < end)
}

impl Model {
    fn cell_at(&self, off: i64) -> Option<MV> {
        self.cells.iter().find(|(o, _)| *o == off).map(|(_, v)| *v)
    }
    fn any_hit(&self, start: i64, end: i64) -> bool {
        self.cells.iter().any(|(o, v)| hits(*o, v, start, end))
    }
    fn put(&mut self, off: i64, v: MV) {
        self.cells.push((off, v));
        self.cells.sort_by_key(|c| c.0);
    }
    /// every cell owning a byte of the interval is forgotten
    fn clear(&mut self, start: i64, end: i64) {
        self.cells.retain(|(o, v)| !hits(*o, v, start, end));
    }
    fn write(&mut self, off: i64, v: MV) {
        self.clear(off, off + v.size as i64);
        if !v.is_top() {
            self.put(off, v);
        }
    }
    /// every cell owning a byte of the interval is merged with top (and forgotten if that is top)
    fn top_range(&mut self, kind: Kind, start: i64, end: i64) {
        for (o, v) in self.cells.iter_mut() {
            if hits(*o, v, start, end) {
                *v = mv_merge(kind, *v, MV::top(v.size));
            }
        }
        self.cells.retain(|(_, v)| !v.is_top());
    }
    fn merge_write_top(&mut self, kind: Kind, off: i64, size: u32) {
        match self.cell_at(off) {
            Some(v) if v.size == size => self.top_range(kind, off, off + 1),
            _ => self.clear(off, off + size as i64),
        }
    }
    fn shift(&mut self, k: i64) {
        for c in self.cells.iter_mut() {
            c.0 += k;
        }
    }
    fn mutate(&mut self, kind: Kind, top_mask: u64, fresh_mask: u64, id: u32) {
        for (i, (_, v)) in self.cells.iter_mut().enumerate() {
            if top_mask >> (i % 64) & 1 == 1 {
                *v = MV::top(v.size);
            } else if fresh_mask >> (i % 64) & 1 == 1 {
                *v = mk_value(kind, v.size, id, false);
            }
        }
        self.cells.retain(|(_, v)| !v.is_top());
    }
    /// The merge of the statement: cells held by both inputs at the same offset with the same size are
    /// merged; cells of one input that overlap nothing in the other input are merged with top; every
    /// other cell is dropped; results that are top are dropped.
    fn merge(kind: Kind, a: &Model, b: &Model, st: &mut Stats) -> Model {
        let mut out = Model::default();
        for (o, v) in &a.cells {
            match b.cell_at(*o) {
                Some(w) if w.size == v.size => {
                    let m = mv_merge(kind, *v, w);
                    if !m.is_top() {
                        out.put(*o, m);
                        st.hit("merge:common-cell-kept");
                    } else {
                        st.hit("merge:common-cell-top-dropped");
                    }
                }
                _ => {
                    if !b.any_hit(*o, *o + v.size as i64) {
                        let m = mv_merge(kind, *v, MV::top(v.size));
                        if !m.is_top() {
                            out.put(*o, m);
                            st.hit("merge:one-sided-kept");
                        } else {
                            st.hit("merge:one-sided-top-dropped");
                        }
                    } else {
                        st.hit("merge:overlapping-dropped");
                    }
                }
            }
        }
        for (o, w) in &b.cells {
            let common = matches!(a.cell_at(*o), Some(v) if v.size == w.size);
            if !common {
                if !a.any_hit(*o, *o + w.size as i64) {
                    let m = mv_merge(kind, *w, MV::top(w.size));
                    if !m.is_top() {
                        out.put(*o, m);
                        st.hit("merge:one-sided-kept");
                    } else {
                        st.hit("merge:one-sided-top-dropped");
                    }
                } else {
                    st.hit("merge:overlapping-dropped");
                }
            }
        }
        out
    }
    fn show(&self) -> String {
        let v: Vec<String> = self.cells.iter().map(|(o, v)| format!("{o}->{}", v.show())).collect();
        format!("[{}]", v.join(", "))
    }
    fn shape_hash(&self) -> u64 {
        self.cells.iter().fold(0x51, |h, (o, v)| mix(h, (*o as u64) << 8 | v.size as u64))
    }
}

fn apply_model(kind: Kind, m: &mut [Model; 2], op: &Op, st: &mut Stats) {
    match *op {
        Op::Insert { r, off, size, id, flag, .. } => {
            let m = &mut m[r as usize];
            let n = m.cells.iter().filter(|(o, v)| hits(*o, v, off, off + size as i64)).count();
            st.hit(match n {
                0 => "write:into-free-space",
                1 => "write:replaces-1-cell",
                _ => "write:replaces-2+-cells",
            });
            if m.cells.iter().any(|(o, v)| *o < off && hits(*o, v, off, off + size as i64)) {
                st.hit("write:cuts-left-neighbour");
            }
            if id == 0 {
                st.hit("write:top-value");
            }
            m.write(off, mk_value(kind, size, id, flag));
        }
        Op::Remove { r, off, size, .. } => m[r as usize].clear(off, off + size as i64),
        Op::Mwt { r, off, size } => {
            let m = &mut m[r as usize];
            st.hit(match m.cell_at(off) {
                Some(v) if v.size == size => "merge_write_top:exact-cell",
                Some(_) => "merge_write_top:same-offset-other-size",
                None => "merge_write_top:no-cell-at-offset",
            });
            m.merge_write_top(kind, off, size)
        }
        Op::Mark { r, start, end, elem } => {
            let m = &mut m[r as usize];
            if m.cells.iter().any(|(o, v)| *o < start && hits(*o, v, start, end + elem as i64)) {
                st.hit("mark_interval:touches-left-neighbour");
            }
            m.top_range(kind, start, end + elem as i64)
        }
        Op::MarkAll { r } => m[r as usize].top_range(kind, i64::MIN / 2, i64::MAX / 2),
        Op::Shift { r, k } => m[r as usize].shift(k),
        Op::Mutate { r, top_mask, fresh_mask, id } => m[r as usize].mutate(kind, top_mask, fresh_mask, id),
        Op::Merge { lhs, dst, .. } => {
            if m[0] == m[1] {
                st.hit("merge:identical-inputs");
            }
            let res = Model::merge(kind, &m[lhs as usize], &m[1 - lhs as usize], st);
            m[dst as usize] = res;
        }
        Op::Copy { dst } => m[dst as usize] = m[1 - dst as usize].clone(),
        Op::Reset { r } => m[r as usize] = Model::default(),
    }
}

// ---------------------------------------------------------------------------
// Driving the real regions

fn apply_real<T: Dom>(regs: &mut [MemRegion<T>; 2], op: &Op, addr: u32) {
    match *op {
        Op::Insert { r, off, size, id, flag, via_add } => {
            let v = T::make(&mk_value(T::KIND, size, id, flag));
            if via_add {
                regs[r as usize].add(v, pos_bv(off, addr));
            } else {
                regs[r as usize].insert_at_byte_index(v, off);
            }
        }
        Op::Remove { r, off, size, sw } => regs[r as usize].remove(pos_bv(off, addr), small_bv(size as i64, sw)),
        Op::Mwt { r, off, size } => regs[r as usize].merge_write_top(pos_bv(off, addr), bs(size)),
        Op::Mark { r, start, end, elem } => regs[r as usize].mark_interval_values_as_top(start, end, bs(elem)),
        Op::MarkAll { r } => regs[r as usize].mark_all_values_as_top(),
        Op::Shift { r, k } => regs[r as usize].add_offset_to_all_indices(k),
        Op::Mutate { r, top_mask, fresh_mask, id } => {
            let reg = &mut regs[r as usize];
            for (i, v) in reg.values_mut().enumerate() {
                if top_mask >> (i % 64) & 1 == 1 {
                    *v = v.top();
                } else if fresh_mask >> (i % 64) & 1 == 1 {
                    let size = u64::from(v.bytesize()) as u32;
                    *v = T::make(&mk_value(T::KIND, size, id, false));
                }
            }
            reg.clear_top_values();
        }
        Op::Merge { lhs, dst, with } => {
            let (a, b) = regs.split_at_mut(1);
            if with && lhs == dst {
                if lhs == 0 {
                    a[0].merge_with(&b[0]);
                } else {
                    b[0].merge_with(&a[0]);
                }
            } else {
                let res = if lhs == 0 { a[0].merge(&b[0]) } else { b[0].merge(&a[0]) };
                regs[dst as usize] = res;
            }
        }
        Op::Copy { dst } => regs[dst as usize] = regs[1 - dst as usize].clone(),
        Op::Reset { r } => regs[r as usize] = regs[r as usize].top(),
    }
}

/// Everything observed on one real region after an operation.
struct Obs {
    /// (offset, value, value.is_top(), value.bytesize())
    dump: Vec<(i64, MV, bool, u64)>,
    views_agree: bool,
    region_is_top: bool,
    addr: u64,
    /// per probe: get -> (value, is_top, bytesize), get_unsized
    gets: Vec<((MV, bool, u64), Option<MV>)>,
}

fn observe<T: Dom>(reg: &MemRegion<T>, probes: &[(i64, u32)], addr: u32) -> Obs {
    let dump: Vec<(i64, MV, bool, u64)> = reg.iter().map(|(o, v)| (*o, v.observe(), v.is_top(), u64::from(v.bytesize()))).collect();
    let map = reg.entry_map();
    let views_agree = map.len() == dump.len()
        && map.iter().zip(dump.iter()).all(|((o, v), d)| *o == d.0 && v.observe() == d.1)
        && reg.values().count() == dump.len()
        && reg.values().zip(dump.iter()).all(|(v, d)| v.observe() == d.1);
    let gets = probes
        .iter()
        .map(|(o, s)| {
            let g = reg.get(pos_bv(*o, addr), bs(*s));
            let u = reg.get_unsized(pos_bv(*o, addr));
            ((g.observe(), g.is_top(), u64::from(g.bytesize())), u.map(|u| u.observe()))
        })
        .collect();
    Obs { dump, views_agree, region_is_top: reg.is_top(), addr: u64::from(reg.get_address_bytesize()), gets }
}

#[derive(Clone, Copy)]
enum Probes {
    /// all offsets from 9 below the lowest to 9 above the highest cell, all sizes
    Sweep,
    /// the cells themselves (right size, a wrong size, neighbouring offsets) plus pseudo-random probes
    Light(u64),
}

const SIZES: [u32; 4] = [1, 2, 4, 8];

fn probe_list(mode: Probes, model: &Model, step: u64) -> Vec<(i64, u32)> {
    let mut out = Vec::new();
    match mode {
        Probes::Sweep => {
            let lo = model.cells.first().map(|c| c.0 - 9).unwrap_or(-1);
            let hi = model.cells.last().map(|c| c.0 + 9).unwrap_or(1);
            for o in lo..=hi {
                for s in SIZES {
                    out.push((o, s));
                }
            }
        }
        Probes::Light(seed) => {
            let mut h = mix(seed, step);
            for (o, v) in &model.cells {
                out.push((*o, v.size));
                h = mix(h, *o as u64);
                out.push((*o, SIZES[(h % 4) as usize]));
                out.push((*o + (h >> 8) as i64 % 5 - 2, v.size));
            }
            for _ in 0..2 {
                h = mix(h, 7);
                out.push(((h % 61) as i64 - 18, SIZES[((h >> 32) % 4) as usize]));
            }
        }
    }
    out
}

fn show_dump(d: &[(i64, MV, bool, u64)]) -> String {
    let v: Vec<String> = d.iter().map(|(o, v, t, _)| format!("{o}->{}{}", v.show(), if *t && !v.is_top() { "(is_top)" } else { "" })).collect();
    format!("[{}]", v.join(", "))
}

/// Judge one region. Returns (what, detail) of the first disagreement.
fn judge(model: &Model, obs: &Obs, probes: &[(i64, u32)], addr: u32, touched: bool, st: &mut Stats) -> Option<(String, String)> {
    // byte ownership: no two cells of the real region own the same byte
    let mut sorted: Vec<(i64, u64)> = obs.dump.iter().map(|d| (d.0, d.3)).collect();
    sorted.sort();
    for w in sorted.windows(2) {
        if w[0].0 + w[0].1 as i64 > w[1].0 {
            return Some((
                "overlap".into(),
                format!("cells at offset {} (size {}) and offset {} (size {}) own a common byte; region = {}", w[0].0, w[0].1, w[1].0, w[1].1, show_dump(&obs.dump)),
            ));
        }
    }
    if let Some(d) = obs.dump.iter().find(|d| d.2) {
        return Some(("stored-top".into(), format!("the region stores a top value at offset {}; region = {}", d.0, show_dump(&obs.dump))));
    }
    if let Some(d) = obs.dump.iter().find(|d| d.3 != d.1.size as u64) {
        return Some(("bytesize".into(), format!("cell at {} reports bytesize {} but holds {}", d.0, d.3, d.1.show())));
    }
    let same = obs.dump.len() == model.cells.len() && obs.dump.iter().zip(model.cells.iter()).all(|(d, c)| d.0 == c.0 && d.1 == c.1);
    if !same {
        let what = if touched { "dump-mismatch" } else { "untouched-region-changed" };
        return Some((what.into(), format!("expected cells {} but the region holds {}", model.show(), show_dump(&obs.dump))));
    }
    if !obs.views_agree {
        return Some(("views-disagree".into(), "iter(), entry_map() and values() do not describe the same cells".into()));
    }
    if obs.region_is_top != model.cells.is_empty() {
        return Some(("is_top".into(), format!("is_top() = {} but the region holds {} cells", obs.region_is_top, model.cells.len())));
    }
    if obs.addr != addr as u64 {
        return Some(("address-bytesize".into(), format!("get_address_bytesize() = {} expected {addr}", obs.addr)));
    }
    for ((o, s), (g, u)) in probes.iter().zip(obs.gets.iter()) {
        let cell = model.cell_at(*o);
        match cell {
            Some(v) if v.size == *s => {
                st.hit("get:hit");
                if g.0 != v || g.1 || g.2 != *s as u64 {
                    return Some(("get".into(), format!("get({o},{s}) = {} but the cell written there is {}", g.0.show(), v.show())));
                }
            }
            other => {
                st.hit(if other.is_some() { "get:size-mismatch" } else { "get:no-cell" });
                if !g.1 || g.2 != *s as u64 {
                    return Some((
                        "get".into(),
                        format!("get({o},{s}) = {} (bytesize {}), expected Top of size {s}; cell at that offset: {:?}", g.0.show(), g.2, other.map(|v| v.show())),
                    ));
                }
            }
        }
        if *u != cell {
            return Some(("get_unsized".into(), format!("get_unsized({o}) = {:?}, expected {:?}", u.map(|v| v.show()), cell.map(|v| v.show()))));
        }
    }
    None
}

// ---------------------------------------------------------------------------
// One step of a history: real + model + oracle

#[derive(Default)]
struct Stats {
    counts: BTreeMap<&'static str, u64>,
}

impl Stats {
    fn hit(&mut self, k: &'static str) {
        *self.counts.entry(k).or_insert(0) += 1;
    }
    fn flush(self, rep: &mut Report) {
        for (k, v) in self.counts {
            rep.obs_n(k, v);
        }
    }
}

#[derive(Clone)]
struct State<T: Dom> {
    regs: [MemRegion<T>; 2],
    models: [Model; 2],
}

impl<T: Dom> State<T> {
    fn new(addr: u32) -> State<T> {
        State { regs: [MemRegion::new(bs(addr)), MemRegion::new(bs(addr))], models: [Model::default(), Model::default()] }
    }
}

struct Fail {
    what: String,
    detail: String,
}

struct StepInfo {
    nontrivial: bool,
    fingerprint: u64,
}

fn targets(op: &Op) -> [bool; 2] {
    let one = |r: u8| [r == 0, r == 1];
    match *op {
        Op::Insert { r, .. } | Op::Remove { r, .. } | Op::Mwt { r, .. } | Op::Mark { r, .. } | Op::MarkAll { r } | Op::Shift { r, .. } | Op::Mutate { r, .. } | Op::Reset { r } => one(r),
        Op::Merge { dst, .. } | Op::Copy { dst } => one(dst),
    }
}

fn step<T: Dom>(st: &mut State<T>, op: &Op, addr: u32, mode: Probes, idx: u64, stats: &mut Stats) -> Result<StepInfo, Fail> {
    let before = st.models.clone();
    apply_model(T::KIND, &mut st.models, op, stats);
    if let Err(p) = guard(|| apply_real(&mut st.regs, op, addr)) {
        return Err(Fail { what: format!("panic:{}", panic_site(&p)), detail: format!("the operation panicked: {p}; regions before: {} / {}", before[0].show(), before[1].show()) });
    }
    let tg = targets(op);
    for i in 0..2 {
        let probes = probe_list(mode, &st.models[i], idx * 2 + i as u64);
        let obs = match guard(|| observe(&st.regs[i], &probes, addr)) {
            Ok(o) => o,
            Err(p) => return Err(Fail { what: format!("panic-in-read:{}", panic_site(&p)), detail: format!("reading region {i} panicked: {p}") }),
        };
        if let Some((what, detail)) = judge(&st.models[i], &obs, &probes, addr, tg[i], stats) {
            return Err(Fail { what, detail: format!("region {i} after {op:?}: {detail}; regions before: {} / {}", before[0].show(), before[1].show()) });
        }
    }
    // equality of the two regions must agree with the model
    let eq = st.regs[0] == st.regs[1];
    if eq != (st.models[0] == st.models[1]) {
        return Err(Fail { what: "region-eq".into(), detail: format!("region0 == region1 is {eq} but the cells are {} / {}", st.models[0].show(), st.models[1].show()) });
    }
    // non-trivial: an existing cell was removed, changed or moved / a merge of two non-empty different regions
    let nontrivial = match op {
        Op::Merge { .. } => !before[0].cells.is_empty() && !before[1].cells.is_empty() && before[0] != before[1],
        Op::Copy { .. } | Op::Reset { .. } => false,
        _ => {
            let r = if tg[0] { 0 } else { 1 };
            before[r].cells.iter().any(|c| !st.models[r].cells.contains(c))
        }
    };
    let fingerprint = mix(mix(mix(T::KIND as u64 + 1, before[0].shape_hash()), before[1].shape_hash()), op.shape_hash());
    Ok(StepInfo { nontrivial, fingerprint })
}

/// Run a complete history with the sweep probes; returns the index of the failing step.
fn run_history<T: Dom>(ops: &[Op], addr: u32, stats: &mut Stats) -> Option<(usize, Fail)> {
    let mut st: State<T> = State::new(addr);
    for (i, op) in ops.iter().enumerate() {
        if let Err(f) = step(&mut st, op, addr, Probes::Sweep, i as u64, stats) {
            return Some((i, f));
        }
    }
    None
}

fn signature(kind: Kind, op: &Op, what: &str) -> String {
    format!("{}:{}:{}", kind.name(), op.kind(), what)
}

/// Delta-debug a failing history: drop operations as long as the same signature is reported.
fn shrink<T: Dom>(ops: Vec<Op>, addr: u32, sig: &str) -> Vec<Op> {
    let mut cur = ops;
    let mut dummy = Stats::default();
    let fails = |cand: &[Op], dummy: &mut Stats| match run_history::<T>(cand, addr, dummy) {
        Some((i, f)) => signature(T::KIND, &cand[i], &f.what) == sig,
        None => false,
    };
    loop {
        let mut changed = false;
        let mut i = cur.len();
        while i > 0 {
            i -= 1;
            if cur.len() <= 1 {
                break;
            }
            let mut cand = cur.clone();
            cand.remove(i);
            if fails(&cand, &mut dummy) {
                // keep only the prefix up to the failing step
                if let Some((k, _)) = run_history::<T>(&cand, addr, &mut dummy) {
                    cand.truncate(k + 1);
                }
                cur = cand;
                changed = true;
                i = i.min(cur.len());
            }
        }
        if !changed {
            break;
        }
    }
    cur
}

fn case_json(kind: Kind, addr: u32, ops: &[Op]) -> Value {
    json!({"kind": "history", "dom": kind.name(), "addr": addr, "ops": ops})
}

/// Report a failing history (minimised).
fn report_failure<T: Dom>(rep: &mut Report, ops: &[Op], addr: u32, fail: Fail, shrink_budget: &mut u32) {
    let last = ops.last().expect("non-empty history");
    let sig = signature(T::KIND, last, &fail.what);
    let mut ops_min = ops.to_vec();
    let mut detail = fail.detail;
    if *shrink_budget > 0 && ops.len() > 1 {
        *shrink_budget -= 1;
        let mut dummy = Stats::default();
        // only shrink what reproduces under the replay probes
        if let Some((i, f)) = run_history::<T>(ops, addr, &mut dummy) {
            if signature(T::KIND, &ops[i], &f.what) == sig {
                ops_min = shrink::<T>(ops[..=i].to_vec(), addr, &sig);
                if let Some((_, f2)) = run_history::<T>(&ops_min, addr, &mut dummy) {
                    detail = f2.detail;
                }
            }
        }
    }
    rep.violation(sig, None, detail, case_json(T::KIND, addr, &ops_min), ops_min.len() as u64);
}

// ---------------------------------------------------------------------------
// Random histories

const OFF_LO: i64 = -16;
const OFF_HI: i64 = 40;

struct Gen {
    window: (i64, i64),
    pending: Option<Op>,
    /// (id, size) of earlier writes, for re-use of a value in the other region
    written: Vec<(u32, u32)>,
}

impl Gen {
    fn offset(&self, rng: &mut Rng, models: &[Model; 2], size: u32) -> i64 {
        let all: Vec<&(i64, MV)> = models[0].cells.iter().chain(models[1].cells.iter()).collect();
        let o = match rng.below(20) {
            0..=8 if !all.is_empty() => {
                // around an existing cell: from just touching below to just touching above
                let c = *rng.pick(&all);
                c.0 + rng.range_i64(-(size as i64), c.1.size as i64)
            }
            9..=15 => rng.range_i64(self.window.0, self.window.1),
            _ => rng.range_i64(OFF_LO, OFF_HI),
        };
        o.clamp(OFF_LO, OFF_HI)
    }

    fn size(&self, rng: &mut Rng, models: &[Model; 2]) -> u32 {
        if rng.chance(1, 4) {
            let all: Vec<&(i64, MV)> = models[0].cells.iter().chain(models[1].cells.iter()).collect();
            if !all.is_empty() {
                return rng.pick(&all).1.size;
            }
        }
        *rng.pick(&SIZES)
    }

    fn next(&mut self, rng: &mut Rng, models: &[Model; 2], id: u32) -> Op {
        if let Some(op) = self.pending.take() {
            return op;
        }
        let r = rng.below(2) as u8;
        let size = self.size(rng, models);
        match rng.below(100) {
            0..=33 => {
                let off = self.offset(rng, models, size);
                let mut wid = id;
                if rng.chance(1, 8) {
                    wid = 0; // a top value
                } else if rng.chance(1, 8) {
                    let same: Vec<&(u32, u32)> = self.written.iter().filter(|w| w.1 == size).collect();
                    if !same.is_empty() {
                        wid = rng.pick(&same).0;
                    }
                }
                if wid == id {
                    self.written.push((id, size));
                }
                let flag = rng.chance(1, 6);
                if rng.chance(1, 3) {
                    // the same place in the other region: same or different value, same or different size
                    let size2 = if rng.chance(3, 4) { size } else { *rng.pick(&SIZES) };
                    let id2 = if size2 == size && rng.bool() { wid } else { id + 64 };
                    let off2 = if rng.chance(5, 6) { off } else { (off + rng.range_i64(-2, 2)).clamp(OFF_LO, OFF_HI) };
                    self.pending = Some(Op::Insert { r: 1 - r, off: off2, size: size2, id: id2, flag: flag && rng.bool(), via_add: rng.bool() });
                }
                Op::Insert { r, off, size, id: wid, flag, via_add: rng.bool() }
            }
            34..=41 => Op::Remove { r, off: self.offset(rng, models, size), size: if rng.chance(1, 5) { rng.range_i64(1, 12) as u32 } else { size }, sw: *rng.pick(&SIZES) },
            42..=51 => {
                // prefer offsets where a cell starts
                let m = &models[r as usize];
                let off = if !m.cells.is_empty() && rng.chance(2, 3) { rng.pick(&m.cells).0.clamp(OFF_LO, OFF_HI) } else { self.offset(rng, models, size) };
                let size = match m.cell_at(off) {
                    Some(v) if rng.chance(2, 3) => v.size,
                    _ => size,
                };
                Op::Mwt { r, off, size }
            }
            52..=61 => {
                let start = self.offset(rng, models, size);
                let len = match rng.below(6) {
                    0 | 1 => 0,
                    2 => 1,
                    3 => rng.range_i64(2, 4),
                    _ => rng.range_i64(0, 20),
                };
                Op::Mark { r, start, end: (start + len).min(OFF_HI), elem: size }
            }
            62..=64 => Op::MarkAll { r },
            65..=70 => Op::Shift { r, k: if rng.chance(1, 10) { 0 } else { rng.range_i64(-9, 9) } },
            71..=76 => Op::Mutate { r, top_mask: rng.next_u64() & rng.next_u64(), fresh_mask: rng.next_u64() & rng.next_u64() & rng.next_u64(), id },
            77..=90 => {
                let dst = if rng.bool() { r } else { 1 - r };
                Op::Merge { lhs: r, dst, with: dst == r && rng.bool() }
            }
            91..=97 => Op::Copy { dst: r },
            _ => Op::Reset { r },
        }
    }
}

fn random_history<T: Dom>(rng: &mut Rng, rep: &mut Report, stats: &mut Stats, shrink_budget: &mut u32, want_sample: bool) {
    let addr = if rng.chance(1, 4) { 4 } else { 8 };
    let len = rng.range_usize(8, 60);
    let w = *rng.pick(&[6i64, 12, 24, 56]);
    let lo = rng.range_i64(OFF_LO, OFF_HI - w);
    let mut gen = Gen { window: (lo, lo + w), pending: None, written: Vec::new() };
    let seed = rng.next_u64();
    let mut st: State<T> = State::new(addr);
    let mut ops: Vec<Op> = Vec::with_capacity(len);
    for i in 0..len {
        // write ids: 1..=60 (the paired write in the other region uses id+64)
        let op = gen.next(rng, &st.models, i as u32 + 1);
        ops.push(op.clone());
        rep.eval();
        stats.hit(op.kind());
        // a full sweep now and then, light probes otherwise
        let mode = if i % 8 == 7 { Probes::Sweep } else { Probes::Light(seed) };
        match step(&mut st, &op, addr, mode, i as u64, stats) {
            Ok(info) => {
                if info.nontrivial {
                    rep.nontrivial(info.fingerprint);
                }
            }
            Err(f) => {
                report_failure::<T>(rep, &ops, addr, f, shrink_budget);
                return;
            }
        }
    }
    if want_sample {
        let k = ops.len().min(12);
        let mut s: State<T> = State::new(addr);
        let mut d = Stats::default();
        for (i, op) in ops[..k].iter().enumerate() {
            let _ = step(&mut s, op, addr, Probes::Sweep, i as u64, &mut d);
        }
        let obs: Vec<String> = (0..2).map(|i| show_dump(&observe(&s.regs[i], &[], addr).dump)).collect();
        rep.sample(json!({"dom": T::KIND.name(), "addr": addr, "ops": &ops[..k], "expected_cells": [s.models[0].show(), s.models[1].show()], "observed_cells": obs}));
    }
}

// ---------------------------------------------------------------------------
// Exhaustive small histories

const EX_OFFS: std::ops::RangeInclusive<i64> = 0..=6;
const EX_SIZES: [u32; 3] = [1, 2, 4];

/// The alphabet of the exhaustive enumeration (offsets 0..6, sizes 1,2,4).
fn alphabet() -> Vec<Op> {
    let mut a = Vec::new();
    for r in 0..2u8 {
        for off in EX_OFFS {
            for size in EX_SIZES {
                let via_add = (off + size as i64) % 2 == 0;
                a.push(Op::Insert { r, off, size, id: 1, flag: false, via_add });
                a.push(Op::Insert { r, off, size, id: 2, flag: false, via_add: !via_add });
                a.push(Op::Insert { r, off, size, id: 0, flag: false, via_add });
                a.push(Op::Remove { r, off, size, sw: 8 });
                a.push(Op::Mwt { r, off, size });
                for end in off..=*EX_OFFS.end() {
                    a.push(Op::Mark { r, start: off, end, elem: size });
                }
            }
        }
        a.push(Op::MarkAll { r });
        for k in [-1i64, 1, 3] {
            a.push(Op::Shift { r, k });
        }
        a.push(Op::Mutate { r, top_mask: 1, fresh_mask: 2, id: 3 });
        a.push(Op::Mutate { r, top_mask: 2, fresh_mask: 0, id: 3 });
        a.push(Op::Merge { lhs: r, dst: r, with: r == 1 });
        a.push(Op::Copy { dst: r });
    }
    a
}

struct Dfs<'a> {
    alpha: &'a [Op],
    addr: u32,
    stats: Stats,
    fails: u32,
}

fn dfs<T: Dom>(st: &State<T>, path: &mut Vec<Op>, depth_left: u32, ctx: &mut Dfs, rep: &mut Report) {
    let alpha = ctx.alpha;
    for op in alpha {
        if ctx.fails >= 50 {
            return;
        }
        let mut next = st.clone();
        path.push(op.clone());
        rep.eval();
        match step(&mut next, op, ctx.addr, Probes::Sweep, path.len() as u64, &mut ctx.stats) {
            Ok(info) => {
                if info.nontrivial {
                    rep.nontrivial(mix(info.fingerprint, 0xe5));
                }
                if depth_left > 1 {
                    dfs(&next, path, depth_left - 1, ctx, rep);
                }
            }
            Err(f) => {
                ctx.fails += 1;
                let mut budget = 0;
                report_failure::<T>(rep, path, ctx.addr, f, &mut budget);
            }
        }
        path.pop();
    }
}

fn exhaustive_shard<T: Dom>(first: &Op, alpha: &[Op], depth: u32, rep: &mut Report) {
    let addr = 8;
    let mut ctx = Dfs { alpha, addr, stats: Stats::default(), fails: 0 };
    let mut st: State<T> = State::new(addr);
    let mut path = vec![first.clone()];
    rep.eval();
    match step(&mut st, first, addr, Probes::Sweep, 0, &mut ctx.stats) {
        Ok(_) => {
            if depth > 1 {
                dfs(&st, &mut path, depth - 1, &mut ctx, rep);
            }
        }
        Err(f) => {
            let mut budget = 0;
            report_failure::<T>(rep, &path, addr, f, &mut budget);
        }
    }
    rep.obs_n(&format!("exhaustive-histories:{}", T::KIND.name()), rep.evaluations);
    ctx.stats.flush(rep);
}

// ---------------------------------------------------------------------------

fn run(cfg: &Cfg) -> Report {
    let alpha = alphabet();
    let depth = cfg.tier.pick(2u32, 3u32);
    let n_ex = alpha.len() * 2;
    let n_rand = cfg.tier.pick(256usize, 1024usize);
    let per_shard = cfg.tier.pick(2000u64, 6000u64);
    let mut rep = par_shards(cfg, "c05", n_ex + n_rand, |idx, rng, rep| {
        if idx < n_ex {
            let first = &alpha[idx / 2];
            if idx % 2 == 0 {
                exhaustive_shard::<Tracer>(first, &alpha, depth, rep);
            } else {
                exhaustive_shard::<BitvectorDomain>(first, &alpha, depth, rep);
            }
        } else {
            let mut stats = Stats::default();
            let mut budget = 3u32;
            for i in 0..per_shard {
                let want = i == 0 && idx < n_ex + 4;
                if (idx + i as usize) % 2 == 0 {
                    random_history::<Tracer>(rng, rep, &mut stats, &mut budget, want);
                } else {
                    random_history::<BitvectorDomain>(rng, rep, &mut stats, &mut budget, want);
                }
                if rep.violation_count > 200 {
                    break;
                }
            }
            rep.obs_n("random-histories", per_shard);
            stats.flush(rep);
        }
    });
    if cfg.tier == Tier::Thorough {
        let args: Vec<String> = vec!["c05".into(), "24".into(), cfg.seed.to_string()];
        let outcome = crate::miri::run_logmon_under_miri(cfg, &args, None, 1500);
        crate::miri::fold(&mut rep, "c05-histories", &args, outcome);
    }
    rep.exhaustive_parts.push(format!(
        "all histories of length <= {depth} over an alphabet of {} operations (offsets 0..6, sizes 1,2,4; two write ids + top value, remove, merge_write_top, every mark_interval with start<=end, mark_all, shifts -1/1/3, values_mut+clear_top_values, merge, merge_with, clone) for both value domains",
        alpha.len()
    ));
    rep
}

/// `logmon c05 <histories> <seed>`: a few random histories of both value domains (small enough for Miri:
/// exercises the `Arc::make_mut` paths of MemRegion under the undefined-behaviour interpreter).
pub fn logmon_main(args: &[String]) -> i32 {
    let histories: u64 = args.first().and_then(|s| s.parse().ok()).unwrap_or(20);
    let seed: u64 = args.get(1).and_then(|s| s.parse().ok()).unwrap_or(1);
    let mut rng = Rng::derive(seed, "logmon-c05", 0);
    let mut rep = Report::new();
    let mut stats = Stats::default();
    let mut budget = 0u32;
    for i in 0..histories {
        if i % 2 == 0 {
            random_history::<Tracer>(&mut rng, &mut rep, &mut stats, &mut budget, false);
        } else {
            random_history::<BitvectorDomain>(&mut rng, &mut rep, &mut stats, &mut budget, false);
        }
    }
    stats.flush(&mut rep);
    for (sig, v) in &rep.violations {
        println!("VIOLATION property=C05 signature={sig} detail={}", v.detail.chars().take(600).collect::<String>());
    }
    println!("logmon c05: histories={histories} evaluations={} violations={}", rep.evaluations, rep.violations.len());
    if rep.violations.is_empty() { 0 } else { 1 }
}

fn replay(_cfg: &Cfg, case: &Value) -> Report {
    let mut rep = Report::new();
    let ops: Vec<Op> = match serde_json::from_value(case["ops"].clone()) {
        Ok(o) => o,
        Err(e) => {
            rep.note(format!("replay: cannot parse ops: {e}"));
            return rep;
        }
    };
    let addr = case["addr"].as_u64().unwrap_or(8) as u32;
    let mut stats = Stats::default();
    let dom = case["dom"].as_str().unwrap_or("");
    let res = match dom {
        "tracer" => run_history::<Tracer>(&ops, addr, &mut stats).map(|(i, f)| (i, f, Kind::Tracer)),
        "bv" => run_history::<BitvectorDomain>(&ops, addr, &mut stats).map(|(i, f)| (i, f, Kind::Bv)),
        _ => {
            rep.note("replay: unknown value domain");
            return rep;
        }
    };
    rep.evals(ops.len() as u64);
    if let Some((i, f, kind)) = res {
        rep.violation(signature(kind, &ops[i], &f.what), None, f.detail, case_json(kind, addr, &ops[..=i]), i as u64 + 1);
    }
    rep
}
